//! C05 (bounded): structural consistency of `graph_engine::GraphEngine` under sequential operation
//! sequences.  A ghost model (set of nodes, set of edges with from/to/directed/type/props) is kept
//! next to the real engine; after the operation under contract the WHOLE public view of the engine
//! (`all_nodes`, `node_exists`, `get_node`, `all_edges`, `get_edge`, `edges_of(n, Out/In/Both)`,
//! degrees) is compared with the model (effect + frame) and the representation invariant `wf(G)` is
//! evaluated on the public view alone.
//!
//! Enumeration is prefix closed: every sequence `w` of the stated domain is executed from an empty
//! engine and the obligations are evaluated for its LAST operation (all proper prefixes of `w` are
//! themselves members of the domain, hence "after every operation of every sequence").  Long cases
//! (hub, seeded random walks) are checked after every step.  Hub cases (a centre with ~100 incident
//! edges, then `delete_node(centre)`) exist with uniform spokes and with MIXED spokes to distinct
//! neighbours (directed hub->X, directed X->hub, undirected created as (hub,X) / as (X,hub), a self-loop
//! on the hub, unrelated edges between neighbours), just below / at / above the high-degree threshold
//! (`PARALLEL_THRESHOLD = 100` incident edges) of `delete_node`.
//!
//! Operands are *slots*: node slot k = the k-th successfully created node of the sequence (it keeps
//! its slot after deletion, so sequences also address deleted nodes/edges: the call must fail and
//! change nothing).  Slot numbers beyond the created ones denote never-created ids (1_000_000 + k).
//!
//! Not covered: the multi-thread clause of C05.
use crate::fw::{Report, Rng, Tier};
use graph_engine::{Direction, Edge, GraphEngine, Node, PropertyValue};
use serde_json::{json, Value};
use std::collections::{BTreeMap, BTreeSet, HashMap, VecDeque};

const OB_NODE: &str = "C05.wf_after_create_node";
const OB_CE: &str = "C05.create_edge";
const OB_DE: &str = "C05.delete_edge";
const OB_DN: &str = "C05.delete_node";
const OB_UP: &str = "C05.update";
const OB_RES: &str = "C05.update.reserved_keys";
const OB_DER: &str = "C05.derived";
const DIRS: [Direction; 3] = [Direction::Outgoing, Direction::Incoming, Direction::Both];
const TYPES: [&str; 2] = ["a", "b"];

// ---------------------------------------------------------------------------------------------
// operations
// ---------------------------------------------------------------------------------------------

#[derive(Clone, Copy, Debug, PartialEq)]
enum Upd {
    /// node: {"k": v}; edge: {"w": v}
    Set(i64),
    /// node: {"k": Null}; edge: {"w": Null}   (Null = remove the property)
    Unset,
    /// node: labels := ["M"], {"q": 1}; edge: {"q": 1}
    Relabel,
    /// edge only: {"_to": Int(id of node slot t)}      (reserved key)
    ResTo(usize),
    /// edge only: {"_directed": Bool(!directed)}       (reserved key)
    ResDirected,
    /// edge only: {"_from": Null}                      (reserved key)
    ResFromNull,
    /// node only: {"_edges": Int(7)}                   (reserved key)
    ResEdges,
}

impl Upd {
    fn reserved(self) -> bool { matches!(self, Upd::ResTo(_) | Upd::ResDirected | Upd::ResFromNull | Upd::ResEdges) }
}

#[derive(Clone, Debug, PartialEq)]
enum Op {
    CreateNode,
    /// `res_to = Some(t)`: the property map additionally carries the reserved key "_to" = id of node slot t
    CreateEdge { from: usize, to: usize, directed: bool, ty: u8, res_to: Option<usize> },
    DeleteEdge { e: usize },
    DeleteNode { n: usize },
    UpdateNode { n: usize, kind: Upd },
    UpdateEdge { e: usize, kind: Upd },
}

fn obligation_of(op: &Op) -> &'static str {
    match op {
        Op::CreateNode => OB_NODE,
        Op::CreateEdge { res_to: Some(_), .. } => OB_RES,
        Op::CreateEdge { .. } => OB_CE,
        Op::DeleteEdge { .. } => OB_DE,
        Op::DeleteNode { .. } => OB_DN,
        Op::UpdateNode { kind, .. } | Op::UpdateEdge { kind, .. } => if kind.reserved() { OB_RES } else { OB_UP },
    }
}

fn upd_json(k: Upd, o: &mut serde_json::Map<String, Value>) {
    let (name, extra): (&str, Option<(&str, Value)>) = match k {
        Upd::Set(v) => ("set", Some(("v", json!(v)))),
        Upd::Unset => ("unset", None),
        Upd::Relabel => ("relabel", None),
        Upd::ResTo(t) => ("reserved_to", Some(("t", json!(t)))),
        Upd::ResDirected => ("reserved_directed", None),
        Upd::ResFromNull => ("reserved_from_null", None),
        Upd::ResEdges => ("reserved_edges", None),
    };
    o.insert("kind".into(), json!(name));
    if let Some((k, v)) = extra { o.insert(k.into(), v); }
}

fn op_json(op: &Op) -> Value {
    let mut o = serde_json::Map::new();
    match op {
        Op::CreateNode => { o.insert("op".into(), json!("create_node")); },
        Op::CreateEdge { from, to, directed, ty, res_to } => {
            o.insert("op".into(), json!("create_edge"));
            o.insert("from".into(), json!(from));
            o.insert("to".into(), json!(to));
            o.insert("directed".into(), json!(directed));
            o.insert("type".into(), json!(TYPES[*ty as usize % 2]));
            if let Some(t) = res_to { o.insert("reserved_to".into(), json!(t)); }
        },
        Op::DeleteEdge { e } => { o.insert("op".into(), json!("delete_edge")); o.insert("e".into(), json!(e)); },
        Op::DeleteNode { n } => { o.insert("op".into(), json!("delete_node")); o.insert("n".into(), json!(n)); },
        Op::UpdateNode { n, kind } => { o.insert("op".into(), json!("update_node")); o.insert("n".into(), json!(n)); upd_json(*kind, &mut o); },
        Op::UpdateEdge { e, kind } => { o.insert("op".into(), json!("update_edge")); o.insert("e".into(), json!(e)); upd_json(*kind, &mut o); },
    }
    Value::Object(o)
}

fn ops_json(ops: &[Op]) -> Value { Value::Array(ops.iter().map(op_json).collect()) }

fn us(v: &Value, k: &str) -> Result<usize, String> {
    v.get(k).and_then(Value::as_u64).map(|x| x as usize).ok_or_else(|| format!("missing/invalid field {k} in {v}"))
}

fn parse_upd(v: &Value) -> Result<Upd, String> {
    Ok(match v.get("kind").and_then(Value::as_str).unwrap_or("set") {
        "set" => Upd::Set(v.get("v").and_then(Value::as_i64).unwrap_or(0)),
        "unset" => Upd::Unset,
        "relabel" => Upd::Relabel,
        "reserved_to" => Upd::ResTo(us(v, "t")?),
        "reserved_directed" => Upd::ResDirected,
        "reserved_from_null" => Upd::ResFromNull,
        "reserved_edges" => Upd::ResEdges,
        k => return Err(format!("unknown update kind {k}")),
    })
}

/// Compact JSON -> primitive operations.  Macro forms: `"times": k` on create_node / create_edge
/// (k repetitions) and `{"op":"fan","center":c,"first":f,"count":k,"directed":b,"outward":b,"type":t}`
/// (= k create_edge between node slot c and node slots f, f+1, ..) and
/// `{"op":"mixfan","center":c,"first":f,"count":k}` (= k create_edge between node slot c and the DISTINCT node slots
/// X = f, f+1, .., spoke i of shape i mod 4: 0 directed c->X type a, 1 directed X->c type b, 2 undirected created as
/// (c,X) type a, 3 undirected created as (X,c) type b).
fn parse_ops(v: &Value) -> Result<Vec<Op>, String> {
    let arr = v.as_array().ok_or("ops must be an array")?;
    let mut out = vec![];
    for o in arr {
        let name = o.get("op").and_then(Value::as_str).ok_or("op missing")?;
        let times = o.get("times").and_then(Value::as_u64).unwrap_or(1) as usize;
        let ty = |o: &Value| u8::from(o.get("type").and_then(Value::as_str).unwrap_or("a") == "b");
        match name {
            "create_node" => for _ in 0..times { out.push(Op::CreateNode); },
            "create_edge" => {
                let res_to = match o.get("reserved_to") { Some(_) => Some(us(o, "reserved_to")?), None => None };
                let op = Op::CreateEdge { from: us(o, "from")?, to: us(o, "to")?, directed: o.get("directed").and_then(Value::as_bool).unwrap_or(true), ty: ty(o), res_to };
                for _ in 0..times { out.push(op.clone()); }
            },
            "fan" => {
                let (c, f, k) = (us(o, "center")?, us(o, "first")?, us(o, "count")?);
                let directed = o.get("directed").and_then(Value::as_bool).unwrap_or(true);
                let outward = o.get("outward").and_then(Value::as_bool).unwrap_or(true);
                for i in 0..k {
                    let (from, to) = if outward { (c, f + i) } else { (f + i, c) };
                    out.push(Op::CreateEdge { from, to, directed, ty: ty(o), res_to: None });
                }
            },
            "mixfan" => {
                let (c, f, k) = (us(o, "center")?, us(o, "first")?, us(o, "count")?);
                for i in 0..k {
                    let x = f + i;
                    let (from, to, directed, ty) = match i % 4 { 0 => (c, x, true, 0u8), 1 => (x, c, true, 1), 2 => (c, x, false, 0), _ => (x, c, false, 1) };
                    out.push(Op::CreateEdge { from, to, directed, ty, res_to: None });
                }
            },
            "delete_edge" => out.push(Op::DeleteEdge { e: us(o, "e")? }),
            "delete_node" => out.push(Op::DeleteNode { n: us(o, "n")? }),
            "update_node" => out.push(Op::UpdateNode { n: us(o, "n")?, kind: parse_upd(o)? }),
            "update_edge" => out.push(Op::UpdateEdge { e: us(o, "e")?, kind: parse_upd(o)? }),
            x => return Err(format!("unknown op {x}")),
        }
    }
    Ok(out)
}

// ---------------------------------------------------------------------------------------------
// ghost model
// ---------------------------------------------------------------------------------------------

type Props = HashMap<String, PropertyValue>;

#[derive(Clone, Debug, PartialEq)]
struct MEdge { from: u64, to: u64, directed: bool, ty: String, props: Props }

#[derive(Clone, Default)]
struct Model {
    node_slots: Vec<u64>,
    edge_slots: Vec<u64>,
    nodes: BTreeMap<u64, (Vec<String>, Props)>,
    edges: BTreeMap<u64, MEdge>,
}

impl Model {
    fn nid(&self, slot: usize) -> u64 { self.node_slots.get(slot).copied().unwrap_or(1_000_000 + slot as u64) }
    fn eid(&self, slot: usize) -> u64 { self.edge_slots.get(slot).copied().unwrap_or(1_000_000 + slot as u64) }
    fn probe_nodes(&self) -> Vec<u64> { let mut v = self.node_slots.clone(); v.push(1_000_000); v }
    fn probe_edges(&self) -> Vec<u64> { let mut v = self.edge_slots.clone(); v.push(1_000_000); v }
}

fn one(k: &str, v: PropertyValue) -> Props { let mut m = HashMap::new(); m.insert(k.to_string(), v); m }

/// Spec: is edge (from,to,directed) listed by `n` in direction `dir`?
fn listed(from: u64, to: u64, directed: bool, n: u64, dir: Direction) -> bool {
    let out = from == n || (!directed && to == n);
    let inc = to == n || (!directed && from == n);
    match dir { Direction::Outgoing => out, Direction::Incoming => inc, Direction::Both => out || inc }
}

/// Executes `op` on the real engine and applies the specified effect to the model.
/// Returns (precondition held, Ok | description of a wrong return value).
fn exec(g: &GraphEngine, m: &mut Model, op: &Op) -> (bool, Result<(), String>) {
    match op {
        Op::CreateNode => {
            let props = one("k", PropertyValue::Int(m.node_slots.len() as i64));
            match g.create_node("L", props.clone()) {
                Ok(id) => {
                    let fresh = !m.node_slots.contains(&id);
                    m.node_slots.push(id);
                    m.nodes.insert(id, (vec!["L".to_string()], props));
                    (true, if fresh { Ok(()) } else { Err(format!("create_node returned the already used id {id}")) })
                },
                Err(e) => (true, Err(format!("create_node failed: {e}"))),
            }
        },
        Op::CreateEdge { from, to, directed, ty, res_to } => {
            let (f, t) = (m.nid(*from), m.nid(*to));
            let pre = m.nodes.contains_key(&f) && m.nodes.contains_key(&t);
            let props = one("w", PropertyValue::Int(m.edge_slots.len() as i64));
            let mut given = props.clone();
            if let Some(r) = res_to { given.insert("_to".into(), PropertyValue::Int(m.nid(*r) as i64)); }
            let ty = TYPES[*ty as usize % 2];
            let r = g.create_edge(f, t, ty, given, *directed);
            match (pre, r) {
                (true, Ok(id)) => {
                    let fresh = !m.edge_slots.contains(&id);
                    m.edge_slots.push(id);
                    m.edges.insert(id, MEdge { from: f, to: t, directed: *directed, ty: ty.to_string(), props });
                    (true, if fresh { Ok(()) } else { Err(format!("create_edge returned the already used id {id}")) })
                },
                // with a reserved key a refusal is acceptable (then nothing may change)
                (true, Err(e)) => (true, if res_to.is_some() { Ok(()) } else { Err(format!("create_edge({f},{t}) between existing nodes failed: {e}")) }),
                (false, Ok(id)) => (false, Err(format!("create_edge({f},{t}) with a non-existing endpoint returned Ok({id})"))),
                (false, Err(_)) => (false, Ok(())),
            }
        },
        Op::DeleteEdge { e } => {
            let id = m.eid(*e);
            let pre = m.edges.contains_key(&id);
            match (pre, g.delete_edge(id)) {
                (true, Ok(())) => { m.edges.remove(&id); (true, Ok(())) },
                (true, Err(x)) => (true, Err(format!("delete_edge({id}) of an existing edge failed: {x}"))),
                (false, Ok(())) => (false, Err(format!("delete_edge({id}) of a non-existing edge returned Ok"))),
                (false, Err(_)) => (false, Ok(())),
            }
        },
        Op::DeleteNode { n } => {
            let id = m.nid(*n);
            let pre = m.nodes.contains_key(&id);
            match (pre, g.delete_node(id)) {
                (true, Ok(())) => {
                    m.nodes.remove(&id);
                    m.edges.retain(|_, e| e.from != id && e.to != id);
                    (true, Ok(()))
                },
                (true, Err(x)) => (true, Err(format!("delete_node({id}) of an existing node failed: {x}"))),
                (false, Ok(())) => (false, Err(format!("delete_node({id}) of a non-existing node returned Ok"))),
                (false, Err(_)) => (false, Ok(())),
            }
        },
        Op::UpdateNode { n, kind } => {
            let id = m.nid(*n);
            let pre = m.nodes.contains_key(&id);
            let (labels, props): (Option<Vec<String>>, Props) = match kind {
                Upd::Set(v) => (None, one("k", PropertyValue::Int(*v))),
                Upd::Unset => (None, one("k", PropertyValue::Null)),
                Upd::Relabel => (Some(vec!["M".to_string()]), one("q", PropertyValue::Int(1))),
                _ => (None, one("_edges", PropertyValue::Int(7))),
            };
            let r = g.update_node(id, labels.clone(), props.clone());
            match (pre, r) {
                (true, Ok(())) => {
                    if !kind.reserved() {
                        let e = m.nodes.get_mut(&id).unwrap();
                        if let Some(l) = labels { e.0 = l; }
                        for (k, v) in props { if v == PropertyValue::Null { e.1.remove(&k); } else { e.1.insert(k, v); } }
                    }
                    (true, Ok(()))
                },
                (true, Err(x)) => (true, if kind.reserved() { Ok(()) } else { Err(format!("update_node({id}) of an existing node failed: {x}")) }),
                (false, Ok(())) => (false, Err(format!("update_node({id}) of a non-existing node returned Ok"))),
                (false, Err(_)) => (false, Ok(())),
            }
        },
        Op::UpdateEdge { e, kind } => {
            let id = m.eid(*e);
            let pre = m.edges.contains_key(&id);
            let props: Props = match kind {
                Upd::Set(v) => one("w", PropertyValue::Int(*v)),
                Upd::Unset => one("w", PropertyValue::Null),
                Upd::Relabel | Upd::ResEdges => one("q", PropertyValue::Int(1)),
                Upd::ResTo(t) => one("_to", PropertyValue::Int(m.nid(*t) as i64)),
                Upd::ResDirected => one("_directed", PropertyValue::Bool(!m.edges.get(&id).map_or(true, |e| e.directed))),
                Upd::ResFromNull => one("_from", PropertyValue::Null),
            };
            let r = g.update_edge(id, props.clone());
            match (pre, r) {
                (true, Ok(())) => {
                    if !kind.reserved() {
                        let e = m.edges.get_mut(&id).unwrap();
                        for (k, v) in props { if v == PropertyValue::Null { e.props.remove(&k); } else { e.props.insert(k, v); } }
                    }
                    (true, Ok(()))
                },
                (true, Err(x)) => (true, if kind.reserved() { Ok(()) } else { Err(format!("update_edge({id}) of an existing edge failed: {x}")) }),
                (false, Ok(())) => (false, Err(format!("update_edge({id}) of a non-existing edge returned Ok"))),
                (false, Err(_)) => (false, Ok(())),
            }
        },
    }
}

// ---------------------------------------------------------------------------------------------
// predicates over the public view
// ---------------------------------------------------------------------------------------------

fn dname(d: Direction) -> &'static str { match d { Direction::Outgoing => "Outgoing", Direction::Incoming => "Incoming", Direction::Both => "Both" } }

/// `all_nodes()` and `all_edges()` of one state
struct Snap { nodes: Vec<Node>, edges: Vec<Edge> }

/// wf(G), evaluated on the public view only (no model): property sentence 1.
fn wf(g: &GraphEngine, snap: &Snap, probe: &[u64]) -> Result<(), String> {
    let all = &snap.edges;
    let by_id: BTreeMap<u64, &Edge> = all.iter().map(|e| (e.id, e)).collect();
    if by_id.len() != all.len() { return Err("all_edges contains a duplicate edge id".into()); }
    let mut nodes: BTreeSet<u64> = snap.nodes.iter().map(|n| n.id).collect();
    for n in &nodes { if !g.node_exists(*n) { return Err(format!("all_nodes lists {n} but node_exists({n}) is false")); } }
    nodes.extend(probe.iter().copied());
    for e in all { nodes.insert(e.from); nodes.insert(e.to); }
    // lists of every node that exists
    let mut lists: BTreeMap<(u64, u8), BTreeSet<u64>> = BTreeMap::new();
    for &n in &nodes {
        if !g.node_exists(n) {
            for d in DIRS { if g.edges_of(n, d).is_ok() { return Err(format!("edges_of({n},{}) is Ok although node_exists({n}) is false", dname(d))); } }
            continue;
        }
        for (di, d) in DIRS.iter().enumerate() {
            let l = g.edges_of(n, *d).map_err(|e| format!("edges_of({n},{}) failed on an existing node: {e}", dname(*d)))?;
            let mut set = BTreeSet::new();
            for x in &l {
                if !set.insert(x.id) { return Err(format!("edges_of({n},{}) lists edge {} twice", dname(*d), x.id)); }
                // every listed edge exists ...
                match by_id.get(&x.id) {
                    Some(y) if *y == x => {},
                    _ => return Err(format!("edge {} listed by node {n} ({}) is not (identically) in all_edges", x.id, dname(*d))),
                }
                if g.get_edge(x.id).ok().as_ref() != Some(x) { return Err(format!("edge {} listed by node {n} but get_edge disagrees", x.id)); }
                // ... and touches the node listing it, in the right direction
                if !listed(x.from, x.to, x.directed, n, *d) {
                    return Err(format!("edge {} ({}->{} directed={}) is listed by node {n} in {} but does not touch it that way", x.id, x.from, x.to, x.directed, dname(*d)));
                }
            }
            lists.insert((n, di as u8), set);
        }
        let (o, i, b) = (&lists[&(n, 0)], &lists[&(n, 1)], &lists[&(n, 2)]);
        if &o.union(i).copied().collect::<BTreeSet<u64>>() != b { return Err(format!("edges_of({n},Both) != Outgoing ∪ Incoming: {b:?} vs {o:?} ∪ {i:?}")); }
        // a listed id without an existing edge is only visible through the raw list length
        let (od, id) = (g.out_degree(n), g.in_degree(n));
        if od.as_ref().ok() != Some(&o.len()) { return Err(format!("node {n}: out list has {od:?} entries but only {} of them are existing edges {o:?} (dangling listed edge)", o.len())); }
        if id.as_ref().ok() != Some(&i.len()) { return Err(format!("node {n}: in list has {id:?} entries but only {} of them are existing edges {i:?} (dangling listed edge)", i.len())); }
    }
    // every existing edge: endpoints exist, listed by both endpoints in the right lists
    for e in all {
        if g.get_edge(e.id).ok().as_ref() != Some(e) { return Err(format!("all_edges contains {} but get_edge disagrees", e.id)); }
        if !g.node_exists(e.from) || !g.node_exists(e.to) { return Err(format!("edge {} ({}->{}) has a non-existing endpoint", e.id, e.from, e.to)); }
        let has = |n: u64, d: u8| lists.get(&(n, d)).is_some_and(|s| s.contains(&e.id));
        let mut need = vec![(e.from, 0u8), (e.to, 1), (e.from, 2), (e.to, 2)];
        if !e.directed { need.push((e.to, 0)); need.push((e.from, 1)); }
        for (n, d) in need {
            if !has(n, d) { return Err(format!("edge {} ({}->{} directed={}) is not listed by node {n} in {}", e.id, e.from, e.to, e.directed, dname(DIRS[d as usize]))); }
        }
    }
    Ok(())
}

/// Effect + frame: the whole public view equals the ghost model.
fn matches_model(g: &GraphEngine, snap: &Snap, m: &Model) -> Result<(), String> {
    let nodes = &snap.nodes;
    let got: Vec<u64> = nodes.iter().map(|n| n.id).collect();
    let want: Vec<u64> = m.nodes.keys().copied().collect();
    if got != want { return Err(format!("all_nodes ids {got:?}, expected {want:?}")); }
    if g.node_count() != want.len() { return Err(format!("node_count {} expected {}", g.node_count(), want.len())); }
    for n in nodes {
        let (l, p) = &m.nodes[&n.id];
        if &n.labels != l || &n.properties != p { return Err(format!("node {} is labels={:?} props={:?}, expected {l:?} {p:?}", n.id, n.labels, n.properties)); }
    }
    for id in m.probe_nodes() {
        let live = m.nodes.contains_key(&id);
        if g.node_exists(id) != live { return Err(format!("node_exists({id}) = {}, expected {live}", !live)); }
        match (g.get_node(id), m.nodes.get(&id)) {
            (Ok(n), Some((l, p))) if &n.labels == l && &n.properties == p && n.id == id => {},
            (Err(_), None) => {},
            (r, _) => return Err(format!("get_node({id}) = {r:?}, expected live={live}")),
        }
        if !live { for d in DIRS { if g.edges_of(id, d).is_ok() { return Err(format!("edges_of({id},{}) is Ok for a non-existing node", dname(d))); } } }
    }
    let conv = |e: &Edge| (e.id, MEdge { from: e.from, to: e.to, directed: e.directed, ty: e.edge_type.clone(), props: e.properties.clone() });
    let all: Vec<(u64, MEdge)> = snap.edges.iter().map(conv).collect();
    let want_e: Vec<(u64, MEdge)> = m.edges.iter().map(|(k, v)| (*k, v.clone())).collect();
    if all != want_e {
        let show = |v: &[(u64, MEdge)]| v.iter().map(|(i, e)| format!("{i}:{}{}{} {} {:?}", e.from, if e.directed { "->" } else { "--" }, e.to, e.ty, e.props.get("w"))).collect::<Vec<_>>();
        return Err(format!("all_edges = {:?}, expected {:?}", show(&all), show(&want_e)));
    }
    if g.edge_count() != want_e.len() { return Err(format!("edge_count {} expected {}", g.edge_count(), want_e.len())); }
    for id in m.probe_edges() {
        match (g.get_edge(id), m.edges.get(&id)) {
            (Ok(e), Some(me)) if &conv(&e).1 == me && e.id == id => {},
            (Err(_), None) => {},
            (r, me) => return Err(format!("get_edge({id}) = {r:?}, expected {me:?}")),
        }
    }
    for &n in m.nodes.keys() {
        for d in DIRS {
            let want: Vec<u64> = m.edges.iter().filter(|(_, e)| listed(e.from, e.to, e.directed, n, d)).map(|(k, _)| *k).collect();
            match g.edges_of(n, d) {
                Ok(l) => {
                    let got: Vec<u64> = l.iter().map(|e| e.id).collect();
                    if got != want { return Err(format!("edges_of({n},{}) = {got:?}, expected {want:?}", dname(d))); }
                    for e in &l { if m.edges.get(&e.id) != Some(&conv(e).1) { return Err(format!("edges_of({n},{}) returns edge {} with content {:?}", dname(d), e.id, conv(e).1)); } }
                },
                Err(e) => return Err(format!("edges_of({n},{}) failed: {e}", dname(d))),
            }
        }
    }
    Ok(())
}

/// Spec: neighbour ids of `n` implied by the edge set (a node is not its own neighbour).
fn spec_nbrs(all: &[Edge], n: u64, d: Direction, ty: Option<&str>) -> BTreeSet<u64> {
    let mut s = BTreeSet::new();
    for e in all {
        if ty.is_some_and(|t| t != e.edge_type) { continue; }
        let out = matches!(d, Direction::Outgoing | Direction::Both);
        let inc = matches!(d, Direction::Incoming | Direction::Both);
        if out { if e.from == n { s.insert(e.to); } if !e.directed && e.to == n { s.insert(e.from); } }
        if inc { if e.to == n { s.insert(e.from); } if !e.directed && e.from == n { s.insert(e.to); } }
    }
    s.remove(&n);
    s
}

/// Spec: BFS distances from `start`.
fn spec_dist(all: &[Edge], start: u64, d: Direction, ty: Option<&str>) -> BTreeMap<u64, usize> {
    let mut dist = BTreeMap::new();
    dist.insert(start, 0usize);
    let mut q = VecDeque::from([start]);
    while let Some(c) = q.pop_front() {
        let dc = dist[&c];
        for x in spec_nbrs(all, c, d, ty) { if !dist.contains_key(&x) { dist.insert(x, dc + 1); q.push_back(x); } }
    }
    dist
}

/// C05.derived: [neighbors, degrees, traverse] against the spec functions applied to `all_edges`.
fn derived(g: &GraphEngine, snap: &Snap, probe: &[u64], cfg: Cfg) -> [Result<(), String>; 3] {
    let all = &snap.edges;
    let mut nodes: BTreeSet<u64> = snap.nodes.iter().map(|n| n.id).collect();
    nodes.extend(probe.iter().copied());
    let nb = (|| {
        for &n in &nodes {
            for d in DIRS {
                for ty in [None, Some(TYPES[0]), Some(TYPES[1])] {
                    // reduced grid: edge-type filter only with Both
                    if ty.is_some() && !cfg.full && d != Direction::Both { continue; }
                    let r = g.neighbors(n, ty, d, None);
                    if !g.node_exists(n) { if r.is_ok() { return Err(format!("neighbors({n}) of a non-existing node is Ok")); } continue; }
                    let got: Vec<u64> = r.map_err(|e| format!("neighbors({n}) failed: {e}"))?.iter().map(|x| x.id).collect();
                    let want: Vec<u64> = spec_nbrs(all, n, d, ty).into_iter().collect();
                    if got != want { return Err(format!("neighbors({n},{ty:?},{}) = {got:?}, edge set implies {want:?}", dname(d))); }
                }
            }
        }
        Ok(())
    })();
    let dg = (|| {
        for &n in &nodes {
            let (o, i, b) = (g.out_degree(n), g.in_degree(n), g.degree(n));
            if !g.node_exists(n) { if o.is_ok() || i.is_ok() || b.is_ok() { return Err(format!("degree of the non-existing node {n} is Ok")); } continue; }
            let wo = all.iter().filter(|e| listed(e.from, e.to, e.directed, n, Direction::Outgoing)).count();
            let wi = all.iter().filter(|e| listed(e.from, e.to, e.directed, n, Direction::Incoming)).count();
            if o.as_ref().ok() != Some(&wo) { return Err(format!("out_degree({n}) = {o:?}, edge set implies {wo}")); }
            if i.as_ref().ok() != Some(&wi) { return Err(format!("in_degree({n}) = {i:?}, edge set implies {wi}")); }
            if b.as_ref().ok() != Some(&(wo + wi)) { return Err(format!("degree({n}) = {b:?}, edge set implies {}", wo + wi)); }
            for t in TYPES {
                let wt = all.iter().filter(|e| e.edge_type == t && listed(e.from, e.to, e.directed, n, Direction::Outgoing)).count();
                let r = g.out_degree_by_type(n, t);
                if r.as_ref().ok() != Some(&wt) { return Err(format!("out_degree_by_type({n},{t}) = {r:?}, edge set implies {wt}")); }
            }
        }
        Ok(())
    })();
    let tr = (|| {
        for &n in &nodes {
            for d in DIRS {
                let depths = cfg.depths;
                let maxd = &depths[depths.len() - 1..];
                // reduced grid: all depths for Both, the largest depth for Outgoing/Incoming; typed: Both, largest depth
                let untyped = if cfg.full || d == Direction::Both { depths } else { maxd };
                let typed: &[usize] = if cfg.full || d == Direction::Both { maxd } else { &[] };
                for (ty, ds) in [(None, untyped), (Some(TYPES[0]), typed)] {
                    let dist = if g.node_exists(n) { spec_dist(all, n, d, ty) } else { BTreeMap::new() };
                    for &k in ds {
                        let r = g.traverse(n, d, k, ty, None);
                        if !g.node_exists(n) { if r.is_ok() { return Err(format!("traverse({n}) from a non-existing node is Ok")); } continue; }
                        let got: Vec<u64> = r.map_err(|e| format!("traverse({n}) failed: {e}"))?.iter().map(|x| x.id).collect();
                        let want: BTreeSet<u64> = dist.iter().filter(|(_, dd)| **dd <= k).map(|(x, _)| *x).collect();
                        let gs: BTreeSet<u64> = got.iter().copied().collect();
                        let ordered = got.first() == Some(&n) && got.windows(2).all(|w| dist.get(&w[0]) <= dist.get(&w[1]));
                        if gs != want || gs.len() != got.len() || !ordered {
                            return Err(format!("traverse({n},{},depth {k},{ty:?}) = {got:?}, edge set implies the set {want:?} in breadth-first order", dname(d)));
                        }
                    }
                }
            }
        }
        Ok(())
    })();
    [nb, dg, tr]
}

// ---------------------------------------------------------------------------------------------
// one case = one operation sequence from the empty engine
// ---------------------------------------------------------------------------------------------

/// traverse depths to probe (the last one is the largest); `full` = every direction x every depth
#[derive(Clone, Copy)]
struct Cfg<'a> { depths: &'a [usize], full: bool }

thread_local! {
    /// number of failing reserved-key cases per kind (the framework keeps only the first 25 failures)
    static RES_FAIL: std::cell::RefCell<BTreeMap<String, u64>> = const { std::cell::RefCell::new(BTreeMap::new()) };
    /// `TensorStore::new()` costs ~1 ms (slab allocation); one store is cleared and re-used instead.
    static STORE: tensor_store::TensorStore = tensor_store::TensorStore::new();
}

/// An empty engine on an empty store (`clear` + `GraphEngine::with_store`; falls back to
/// `GraphEngine::new()` should the cleared store not look empty).
fn fresh_engine() -> GraphEngine {
    let g = STORE.with(|s| { s.clear(); GraphEngine::with_store(s.clone()) });
    if g.store().scan("").is_empty() { g } else { GraphEngine::new() }
}

struct Outcome { ob: &'static str, nontrivial: bool, res: Result<(), String> }

/// Executes `ops` from an empty engine; evaluates the obligations for every step >= `check_from`.
fn eval_case(ops: &[Op], check_from: usize, cfg: Cfg) -> Vec<Outcome> {
    let g = fresh_engine();
    let mut m = Model::default();
    let mut out = vec![];
    for (i, op) in ops.iter().enumerate() {
        let checked = i >= check_from;
        let edges_before = m.edges.len();
        let (pre, rv) = exec(&g, &mut m, op);
        if !checked { continue; }
        let nontrivial = pre && match op { Op::DeleteNode { .. } => m.edges.len() < edges_before, Op::CreateNode => i > 0, _ => true };
        let mut msgs = vec![];
        if let Err(e) = rv { msgs.push(format!("return: {e}")); }
        // `all_nodes` / `all_edges` are read once per state and shared by the three predicates
        let snap = Snap { nodes: g.all_nodes(), edges: g.all_edges() };
        let wf_ok = match wf(&g, &snap, &m.probe_nodes()) { Ok(()) => true, Err(e) => { msgs.push(format!("wf: {e}")); false } };
        if let Err(e) = matches_model(&g, &snap, &m) { msgs.push(format!("effect/frame: {e}")); }
        let res = if msgs.is_empty() { Ok(()) } else { Err(format!("after step {i} {}: {}", op_json(op), msgs.join(" | "))) };
        out.push(Outcome { ob: obligation_of(op), nontrivial, res });
        // every contract here "requires wf": once the invariant is broken nothing later in the case is
        // attributed to the following operations, and the derived-value clause is not evaluated
        if !wf_ok { break; }
        for r in derived(&g, &snap, &m.probe_nodes(), cfg) {
            out.push(Outcome { ob: OB_DER, nontrivial, res: r.map_err(|e| format!("after step {i} {}: {e}", op_json(op))) });
        }
    }
    out
}

fn run_case(rep: &mut Report, ops: &[Op], check_all: bool, cfg: Cfg, case: &dyn Fn() -> Value) {
    let from = if check_all { 0 } else { ops.len().saturating_sub(1) };
    for o in eval_case(ops, from, cfg) {
        if o.ob != OB_DER { rep.eval(o.nontrivial); }
        if o.ob == OB_RES {
            let kind = match ops.last() { Some(Op::UpdateEdge { kind, .. } | Op::UpdateNode { kind, .. }) => format!("{kind:?}").split('(').next().unwrap_or("").to_string(), _ => "CreateEdgeWith_to".to_string() };
            RES_FAIL.with(|r| { let mut r = r.borrow_mut(); let e = r.entry(format!("{kind}.{}", if o.res.is_ok() { "holds" } else { "fails" })).or_insert(0); *e += 1; });
        }
        rep.check(o.ob, o.res.is_ok(), case, &|| o.res.clone().err().unwrap_or_default());
    }
}

// ---------------------------------------------------------------------------------------------
// enumeration
// ---------------------------------------------------------------------------------------------

/// Slot level shadow of the model, enough to know which operands exist while enumerating.
#[derive(Clone, Default)]
struct Shape { nodes: Vec<bool>, edges: Vec<(bool, usize, usize, bool)> }

impl Shape {
    fn apply(&mut self, op: &Op) {
        match op {
            Op::CreateNode => self.nodes.push(true),
            Op::CreateEdge { from, to, directed, .. } => {
                if self.nodes.get(*from) == Some(&true) && self.nodes.get(*to) == Some(&true) { self.edges.push((true, *from, *to, *directed)); }
            },
            Op::DeleteEdge { e } => if let Some(x) = self.edges.get_mut(*e) { x.0 = false; },
            Op::DeleteNode { n } => {
                if self.nodes.get(*n) == Some(&true) {
                    self.nodes[*n] = false;
                    for x in &mut self.edges { if x.1 == *n || x.2 == *n { x.0 = false; } }
                }
            },
            Op::UpdateNode { .. } | Op::UpdateEdge { .. } => {},
        }
    }
    /// ordinary operations available after a sequence of length `pos`
    fn ops(&self, cap_nodes: usize, pos: usize, all_kinds: bool) -> Vec<Op> {
        let (ns, es) = (self.nodes.len(), self.edges.len());
        let mut v = vec![];
        if ns < cap_nodes { v.push(Op::CreateNode); }
        for from in 0..ns { for to in 0..ns { for directed in [true, false] {
            v.push(Op::CreateEdge { from, to, directed, ty: (es % 2) as u8, res_to: None });
        } } }
        for e in 0..es { v.push(Op::DeleteEdge { e }); }
        for n in 0..ns { v.push(Op::DeleteNode { n }); }
        let val = 10 + pos as i64;
        let nk: Vec<Upd> = if all_kinds { vec![Upd::Set(val), Upd::Unset, Upd::Relabel] } else if pos % 2 == 0 { vec![Upd::Set(val)] } else { vec![Upd::Relabel] };
        let ek: Vec<Upd> = if all_kinds { vec![Upd::Set(val), Upd::Unset] } else if pos % 2 == 0 { vec![Upd::Set(val)] } else { vec![Upd::Unset] };
        for n in 0..ns { for k in &nk { v.push(Op::UpdateNode { n, kind: *k }); } }
        for e in 0..es { for k in &ek { v.push(Op::UpdateEdge { e, kind: *k }); } }
        v
    }
    /// final-position operations whose property map uses a reserved ("_"-prefixed) key
    fn reserved_ops(&self) -> Vec<Op> {
        let mut v = vec![];
        let live: Vec<usize> = (0..self.nodes.len()).filter(|n| self.nodes[*n]).collect();
        for (e, x) in self.edges.iter().enumerate() {
            if !x.0 { continue; }
            if let Some(t) = live.iter().find(|t| **t != x.2) { v.push(Op::UpdateEdge { e, kind: Upd::ResTo(*t) }); }
            v.push(Op::UpdateEdge { e, kind: Upd::ResDirected });
            v.push(Op::UpdateEdge { e, kind: Upd::ResFromNull });
        }
        if let Some(n) = live.first() { v.push(Op::UpdateNode { n: *n, kind: Upd::ResEdges }); }
        if live.len() >= 2 {
            v.push(Op::CreateEdge { from: live[0], to: live[1], directed: true, ty: 0, res_to: Some(live[0]) });
            v.push(Op::CreateEdge { from: live[0], to: live[1], directed: false, ty: 0, res_to: Some(live[0]) });
        }
        v
    }
}

struct Enum<'a> { rep: &'a mut Report, cap_nodes: usize, max_len: usize, init: usize, all_kinds: bool, cfg: Cfg<'a>, sequences: u64 }

impl Enum<'_> {
    fn rec(&mut self, cur: &mut Vec<Op>, shape: &Shape) {
        let len = cur.len() - self.init;
        if len >= 1 {
            self.sequences += 1;
            let c: &Vec<Op> = cur;
            run_case(self.rep, c, false, self.cfg, &|| json!({"ops": ops_json(c), "check": "last"}));
        }
        if len == self.max_len { return; }
        for op in shape.reserved_ops() {
            cur.push(op);
            self.sequences += 1;
            let c: &Vec<Op> = cur;
            run_case(self.rep, c, false, self.cfg, &|| json!({"ops": ops_json(c), "check": "last"}));
            cur.pop();
        }
        for op in shape.ops(self.cap_nodes, len, self.all_kinds) {
            let mut s = shape.clone();
            s.apply(&op);
            cur.push(op);
            self.rec(cur, &s);
            cur.pop();
        }
    }
}

/// all sequences create_node^init · w, 1 <= |w| <= max_len, at most cap_nodes nodes ever created
fn enumerate(rep: &mut Report, init: usize, max_len: usize, cap_nodes: usize, all_kinds: bool, cfg: Cfg) -> u64 {
    let mut cur = vec![Op::CreateNode; init];
    let mut shape = Shape::default();
    for o in &cur { shape.apply(o); }
    let mut e = Enum { rep, cap_nodes, max_len, init, all_kinds, cfg, sequences: 0 };
    e.rec(&mut cur, &shape);
    e.sequences
}

/// Hub cases (compact JSON): a centre node with `spokes` incident edges, then delete_node(centre).
fn hub_cases(thorough: bool) -> Vec<Value> {
    let mut v = vec![];
    // distinct neighbours: every spoke touches its own neighbour lists
    for (count, directed, outward) in [(99usize, true, true), (100, true, true), (100, true, false), (101, false, true)] {
        v.push(json!({"check": "tail", "tail": 3, "ops": [
            {"op": "create_node", "times": count + 2},
            {"op": "fan", "center": 0, "first": 1, "count": count, "directed": directed, "outward": outward, "type": "a"},
            {"op": "create_edge", "from": 1, "to": 2, "directed": true, "type": "b"},
            {"op": "create_edge", "from": count + 1, "to": 3, "directed": false, "type": "b"},
            {"op": "update_node", "n": 0, "kind": "set", "v": 5},
            {"op": "delete_node", "n": 0},
            {"op": "create_edge", "from": 1, "to": 2, "directed": false, "type": "a"}]}));
    }
    // mixed spokes to distinct neighbours (directed hub->X, directed X->hub, undirected created as (hub,X), undirected
    // created as (X,hub)) + one self-loop on the hub + unrelated edges between neighbours.  Incident edges of the hub =
    // spokes + 1: 99 (sequential branch of delete_node, just below PARALLEL_THRESHOLD = 100), 100 (the threshold
    // itself), 101 and 129 (high-degree branch).  After delete_node(hub): a new edge between two former neighbours and
    // delete_node of a former neighbour (its lists must hold no left-over spoke).
    for (spokes, loop_directed) in [(98usize, true), (98, false), (99, true), (99, false), (100, true), (128, false)] {
        v.push(json!({"check": "tail", "tail": 4, "ops": [
            {"op": "create_node", "times": spokes + 2},
            {"op": "mixfan", "center": 0, "first": 1, "count": spokes},
            {"op": "create_edge", "from": 0, "to": 0, "directed": loop_directed, "type": "b"},
            {"op": "create_edge", "from": 1, "to": 2, "directed": true, "type": "b"},
            {"op": "create_edge", "from": 4, "to": 3, "directed": false, "type": "a"},
            {"op": "create_edge", "from": spokes, "to": spokes + 1, "directed": true, "type": "a"},
            {"op": "update_node", "n": 0, "kind": "set", "v": 5},
            {"op": "delete_node", "n": 0},
            {"op": "create_edge", "from": 1, "to": 2, "directed": false, "type": "a"},
            {"op": "delete_node", "n": 2}]}));
    }
    if thorough {
        // few neighbours, many parallel edges: the spokes share the neighbours' lists
        for (a, b, c, loops) in [(40usize, 30usize, 30usize, 0usize), (34, 33, 33, 3), (50, 0, 60, 1), (120, 0, 0, 0), (0, 0, 128, 2), (60, 60, 60, 5), (300, 0, 300, 0)] {
            v.push(json!({"check": "tail", "tail": 3, "ops": [
                {"op": "create_node", "times": 4},
                {"op": "create_edge", "from": 0, "to": 1, "directed": true, "type": "a", "times": a},
                {"op": "create_edge", "from": 2, "to": 0, "directed": true, "type": "b", "times": b},
                {"op": "create_edge", "from": 0, "to": 3, "directed": false, "type": "a", "times": c},
                {"op": "create_edge", "from": 0, "to": 0, "directed": false, "type": "b", "times": loops},
                {"op": "create_edge", "from": 1, "to": 2, "directed": true, "type": "b", "times": 2},
                {"op": "create_edge", "from": 3, "to": 3, "directed": true, "type": "a"},
                {"op": "update_edge", "e": 0, "kind": "set", "v": 9},
                {"op": "delete_node", "n": 0},
                {"op": "create_edge", "from": 1, "to": 3, "directed": false, "type": "a"}]}));
        }
        // mixed: 60 distinct neighbours + 60 parallel edges to one of them
        v.push(json!({"check": "tail", "tail": 2, "ops": [
            {"op": "create_node", "times": 62},
            {"op": "fan", "center": 0, "first": 1, "count": 60, "directed": false, "outward": true, "type": "a"},
            {"op": "create_edge", "from": 5, "to": 0, "directed": true, "type": "b", "times": 60},
            {"op": "delete_node", "n": 0},
            {"op": "delete_node", "n": 5}]}));
    }
    v
}

/// `check`: "last" (only the last op), "all" (every op), "tail" (the last `tail` ops)
fn eval_json_case(case: &Value, cfg: Cfg) -> Result<Vec<Outcome>, String> {
    let ops = parse_ops(case.get("ops").ok_or("ops missing")?)?;
    let mode = case.get("check").and_then(Value::as_str).unwrap_or("last");
    let tail = match mode { "all" => ops.len(), "tail" => case.get("tail").and_then(Value::as_u64).unwrap_or(1) as usize, _ => 1 };
    Ok(eval_case(&ops, ops.len().saturating_sub(tail.max(1)), cfg))
}

fn random_ops(rng: &mut Rng, len: usize, cap_nodes: usize) -> Vec<Op> {
    let mut shape = Shape::default();
    let mut ops = vec![Op::CreateNode, Op::CreateNode];
    for o in &ops { shape.apply(o); }
    while ops.len() < len {
        let mut cand = shape.ops(cap_nodes, ops.len(), true);
        // bias towards edge creation so that the graphs get dense
        let op = if rng.below(3) == 0 {
            let ns = shape.nodes.len() as u64;
            Op::CreateEdge { from: rng.below(ns) as usize, to: rng.below(ns) as usize, directed: rng.below(2) == 0, ty: rng.below(2) as u8, res_to: None }
        } else { cand.swap_remove(rng.below(cand.len() as u64) as usize) };
        shape.apply(&op);
        ops.push(op);
    }
    ops
}

pub fn run(tier: Tier, seed: u64) -> Report {
    let thorough = tier == Tier::Thorough;
    // (initial create_node prefix, max further ops, node cap, all update kinds, full derived grid)
    let families: Vec<(usize, usize, usize, bool, bool)> = if thorough {
        vec![(0, 6, 3, true, true), (2, 4, 3, true, true), (3, 3, 4, true, true), (3, 4, 3, false, false), (4, 3, 4, false, false)]
    } else {
        vec![(0, 5, 3, true, false), (2, 4, 3, false, false), (3, 3, 4, false, false)]
    };
    let fam_txt = families.iter().map(|(i, l, c, k, _)| format!("create_node^{i}·w with 1<=|w|<={l}, <={c} nodes ever created{}", if *k { ", all update kinds" } else { "" })).collect::<Vec<_>>().join("; ");
    let mut rep = Report::new("c05_graph",
        &format!("every operation sequence from the empty GraphEngine of the families [{fam_txt}] over the alphabet {{create_node, create_edge(from,to in all node slots incl. deleted ones, directed|undirected; self-loops and parallel edges included), delete_edge(any edge slot), delete_node(any node slot), update_node(set|relabel|unset), update_edge(set|unset)}}, obligations evaluated for the last operation of each sequence (prefix closed); plus, after every sequence shorter than the bound, each reserved-key operation (update_edge {{_to|_directed|_from}}, update_node {{_edges}}, create_edge with a \"_to\" property) as a final operation; plus one fixed sequence addressing never-created ids; plus hub cases (centre with 99/100/101 spokes hub->X (or X->hub, or hub--X) to distinct neighbours; centre with 99/100/101/129 incident edges = 98/99/100/128 spokes of MIXED shape to distinct neighbours [directed hub->X, directed X->hub, undirected created as (hub,X), undirected created as (X,hub), cyclically] + one directed|undirected self-loop on the hub + unrelated edges between neighbours, i.e. just below, at and above PARALLEL_THRESHOLD=100 of delete_node{}) followed by delete_node(centre) and further operations on the former neighbours, the last 2-4 steps checked; C05.derived probes neighbors(type None|a|b) x directions, out/in/degree, out_degree_by_type and traverse(depths {{0,4}}{}) on every node slot of the final state{}",
                 if thorough { ", 100..600 parallel/self-loop spokes to 3 neighbours, mixed" } else { "" },
                 if thorough { "; {0,1,2,5} x all directions in the all-update-kinds families" } else { "" },
                 if thorough { "; plus 1500 seeded random sequences of length 40 over <= 5 nodes checked after every step (not exhaustive)" } else { "" }),
        true,
        &["graph_engine::GraphEngine::create_node", "create_edge", "delete_edge", "delete_node", "update_node", "update_edge",
          "edges_of", "all_edges", "all_nodes", "get_edge", "get_node", "node_exists", "neighbors", "out_degree", "in_degree", "degree", "out_degree_by_type", "traverse"]);
    rep.declare(OB_NODE, "GraphEngine::create_node");
    rep.declare(OB_CE, "GraphEngine::create_edge");
    rep.declare(OB_DE, "GraphEngine::delete_edge");
    rep.declare(OB_DN, "GraphEngine::delete_node");
    rep.declare(OB_UP, "GraphEngine::update_node / update_edge");
    rep.declare(OB_RES, "GraphEngine::update_edge / update_node / create_edge (property keys starting with '_')");
    rep.declare(OB_DER, "GraphEngine::neighbors / out_degree / in_degree / degree / traverse");
    RES_FAIL.with(|r| r.borrow_mut().clear());
    let mut total = 0u64;
    for (init, len, cap, kinds, full) in families {
        let cfg = if full { Cfg { depths: &[0, 1, 2, 5], full: true } } else { Cfg { depths: &[0, 4], full: false } };
        total += enumerate(&mut rep, init, len, cap, kinds, cfg);
    }
    rep.sample(json!({"enumerated_sequences": total, "reserved_key_cases": RES_FAIL.with(|r| r.borrow().clone())}));
    rep.sample(json!({"ops": ops_json(&[Op::CreateNode, Op::CreateNode,
        Op::CreateEdge { from: 0, to: 1, directed: false, ty: 0, res_to: None }, Op::CreateEdge { from: 0, to: 0, directed: true, ty: 1, res_to: None }, Op::DeleteNode { n: 0 }]), "check": "last"}));
    // operands that never existed (ids 1_000_000 + slot), checked after every step
    let never: Vec<Op> = vec![Op::DeleteNode { n: 5 }, Op::CreateNode, Op::DeleteNode { n: 5 }, Op::DeleteEdge { e: 3 }, Op::UpdateNode { n: 9, kind: Upd::Set(1) },
        Op::UpdateEdge { e: 9, kind: Upd::Set(1) }, Op::CreateEdge { from: 0, to: 7, directed: true, ty: 0, res_to: None }, Op::CreateEdge { from: 7, to: 0, directed: false, ty: 1, res_to: None },
        Op::CreateEdge { from: 0, to: 0, directed: false, ty: 0, res_to: None }, Op::DeleteEdge { e: 3 }, Op::UpdateEdge { e: 2, kind: Upd::Unset }, Op::DeleteNode { n: 0 }, Op::DeleteNode { n: 0 }];
    run_case(&mut rep, &never, true, Cfg { depths: &[0, 1, 2], full: true }, &|| json!({"ops": ops_json(&never), "check": "all"}));
    for case in hub_cases(thorough) {
        match eval_json_case(&case, Cfg { depths: &[0, 1, 2], full: false }) {
            Ok(out) => for o in out {
                if o.ob != OB_DER { rep.eval(o.nontrivial); }
                rep.check(o.ob, o.res.is_ok(), &|| case.clone(), &|| o.res.clone().err().unwrap_or_default());
            },
            Err(e) => panic!("c05_graph: bad built-in case: {e}"),
        }
    }
    rep.sample(hub_cases(false)[1].clone());
    rep.sample(hub_cases(false)[6].clone());
    if thorough {
        let mut rng = Rng(seed ^ 0xC05);
        for _ in 0..1500 {
            let ops = random_ops(&mut rng, 40, 5);
            run_case(&mut rep, &ops, true, Cfg { depths: &[0, 1, 5], full: false }, &|| json!({"ops": ops_json(&ops), "check": "all"}));
        }
    }
    rep
}

pub fn replay(ob: &str, case: &Value) -> Result<String, String> {
    let out = eval_json_case(case, Cfg { depths: &[0, 1, 2, 5], full: true })?;
    let mine: Vec<&Outcome> = out.iter().filter(|o| o.ob == ob).collect();
    if mine.is_empty() { return Err(format!("case does not exercise {ob} (it exercises {:?})", out.iter().map(|o| o.ob).collect::<BTreeSet<_>>())); }
    for o in &mine { if let Err(e) = &o.res { return Err(e.clone()); } }
    Ok(format!("{} evaluation(s) of {ob} hold", mine.len()))
}
