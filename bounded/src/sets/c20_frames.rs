//! C20 (bounded): the framing layer as an encoder/decoder PAIR.  The V unit C20.frame proves the shape of
//! every frame the encoders emit; this set runs the real `LengthDelimitedCodec` both ways and attaches
//! concrete messages to the round-trip clause of the property ("network frames decode back to exactly the
//! value that was encoded"):
//!
//!   C20.frame.roundtrip      encode(msg) = Ok(frame)  =>  decode_payload(frame[4..]) = Ok(msg') with
//!                            serialize(msg') == serialize(msg); same for encode_v2 / decode_payload_v2
//!   C20.frame.limit_agrees   a frame the encoder accepts under max_frame_length = L is accepted by a decoder
//!                            configured with the same L (the two sides apply the same limit)
//!
//! Domain: messages {Ping, Pong, SnapshotResponse with data of n bytes, n in {0, 1, 63, 64, 200, 1000, 5000}
//! and fill in {all zero (compressible), counter*31 (incompressible)}} x max_frame_length in
//! {|ser|-1, |ser|, |ser|+1, |ser|+5, 64, 256, 1024, 16 MiB} x compression {off, LZ4 min_size 0, LZ4 min_size 256}
//! x protocol {v1, v2}.
use crate::fw::{Report, Tier};
use serde_json::{json, Value};
use tensor_chain::network::{Message, SnapshotResponse};
use tensor_chain::tcp::{CompressionConfig, CompressionMethod, LengthDelimitedCodec};

const O_RT: &str = "C20.frame.roundtrip";
const O_LIM: &str = "C20.frame.limit_agrees";

fn msg(kind: &str, n: usize, fill: &str) -> Message {
    match kind {
        "ping" => Message::Ping { term: 7 },
        "pong" => Message::Pong { term: u64::MAX },
        _ => {
            let data: Vec<u8> = (0..n).map(|i| if fill == "zero" { 0u8 } else { (i as u32).wrapping_mul(2_654_435_761).to_le_bytes()[3] }).collect();
            Message::SnapshotResponse(SnapshotResponse {
                snapshot_height: 3, snapshot_hash: [9u8; 32], data, offset: 1, total_size: n as u64, is_last: n % 2 == 0,
            })
        },
    }
}

fn codec(max: usize, comp: &str) -> LengthDelimitedCodec {
    match comp {
        "off" => LengthDelimitedCodec::new(max),
        c => {
            let min_size = if c == "lz4_0" { 0 } else { 256 };
            let mut cfg = CompressionConfig::default();
            cfg.enabled = true;
            cfg.method = CompressionMethod::Lz4;
            cfg.min_size = min_size;
            let mut k = LengthDelimitedCodec::with_compression(max, cfg);
            k.set_compression_enabled(true);
            k
        },
    }
}

fn eval(case: &Value) -> Vec<(&'static str, bool, String)> {
    let m = msg(case["kind"].as_str().unwrap_or("ping"), case["n"].as_u64().unwrap_or(0) as usize, case["fill"].as_str().unwrap_or("zero"));
    let max = case["max"].as_u64().unwrap_or(64) as usize;
    let k = codec(max, case["comp"].as_str().unwrap_or("off"));
    let v2 = case["v2"].as_bool().unwrap_or(false);
    let ser = bitcode::serialize(&m).expect("harness: serialize");
    let enc = if v2 { k.encode_v2(&m) } else { k.encode(&m) };
    let mut out = vec![];
    let Ok(frame) = enc else { return out; }; // refused by the sender: nothing to decode
    if frame.len() < 4 { out.push((O_RT, false, format!("frame of {} bytes", frame.len()))); return out; }
    let n = u32::from_be_bytes([frame[0], frame[1], frame[2], frame[3]]) as usize;
    let body = &frame[4..];
    if n != body.len() { out.push((O_RT, false, format!("length prefix {n} but body of {} bytes", body.len()))); return out; }
    let dec = if v2 { k.decode_payload_v2(body) } else { k.decode_payload(body) };
    match dec {
        Ok(m2) => {
            let ser2 = bitcode::serialize(&m2).expect("harness: serialize");
            out.push((O_RT, ser2 == ser, format!("decoded message serializes to {} bytes, the encoded one to {} bytes", ser2.len(), ser.len())));
            out.push((O_LIM, true, String::new()));
        },
        Err(e) => {
            let too_large = format!("{e:?}").contains("MessageTooLarge") || format!("{e}").contains("exceeds");
            out.push((if too_large { O_LIM } else { O_RT }, false,
                format!("encoder accepted the message (serialized {} bytes, frame body {} bytes, max_frame_length {max}) but the decoder with the same configuration returns Err({e})", ser.len(), body.len())));
        },
    }
    out
}

fn cases() -> Vec<Value> {
    let mut v = vec![];
    let mut kinds: Vec<(String, usize, String)> = vec![("ping".into(), 0, "zero".into()), ("pong".into(), 0, "zero".into())];
    for n in [0usize, 1, 63, 64, 200, 1000, 5000] { for fill in ["zero", "mix"] { kinds.push(("snap".into(), n, fill.into())); } }
    for (kind, n, fill) in kinds {
        let ser = bitcode::serialize(&msg(&kind, n, &fill)).expect("harness: serialize").len();
        let mut maxes = vec![ser.saturating_sub(1), ser, ser + 1, ser + 5, 64, 256, 1024, 16 * 1024 * 1024];
        maxes.sort_unstable();
        maxes.dedup();
        for max in maxes { for comp in ["off", "lz4_0", "lz4_256"] { for v2 in [false, true] {
            v.push(json!({"kind": kind, "n": n, "fill": fill, "max": max, "comp": comp, "v2": v2}));
        } } }
    }
    v
}

pub fn run(_tier: Tier, _seed: u64) -> Report {
    let mut rep = Report::new("c20_frames",
        "messages {Ping, Pong, SnapshotResponse with 0..5000 data bytes, compressible / incompressible} x max_frame_length around the serialized size and {64, 256, 1024, 16 MiB} x compression {off, LZ4 min 0, LZ4 min 256} x {v1, v2}: encode, then decode the frame body with the same codec",
        true, &["LengthDelimitedCodec::encode", "LengthDelimitedCodec::decode_payload", "LengthDelimitedCodec::encode_v2", "LengthDelimitedCodec::decode_payload_v2"]);
    rep.declare(O_RT, "LengthDelimitedCodec::{encode,decode_payload,encode_v2,decode_payload_v2}");
    rep.declare(O_LIM, "LengthDelimitedCodec::{encode_v2,decode_payload_v2}");
    for c in cases() {
        let res = eval(&c);
        rep.eval(!res.is_empty());
        for (ob, ok, detail) in res {
            let cc = c.clone();
            rep.check(ob, ok, &|| cc.clone(), &|| detail.clone());
        }
    }
    rep.sample(json!({"kind": "snap", "n": 1000, "fill": "zero", "max": 256, "comp": "lz4_0", "v2": true}));
    rep
}

pub fn replay(ob: &str, case: &Value) -> Result<String, String> {
    for (o, ok, detail) in eval(case) {
        if o == ob && !ok { return Err(detail); }
    }
    Ok("frame decoded back to the encoded message".to_string())
}
