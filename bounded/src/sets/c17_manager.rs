//! C17 (bounded): the gossip message handlers of `GossipMembershipManager` as callers of the
//! membership CRDT.  The CRDT mutators are proved in the V unit C17.gossip, where `update_local`
//! blindly overwrites the entry with the incarnation it is GIVEN; this set checks the call-site
//! side of that contract on the real manager: whatever sequence of gossip messages arrives, the
//! recorded incarnation of a member never decreases and a known member never vanishes.
//!
//! The node's record of ITS OWN incarnation is an atomic that is only visible in what it announces: every
//! refutation (`Alive{me, incarnation}`) the manager broadcasts is captured on a connected peer channel and
//! must carry a strictly higher incarnation than the previous one (C17.manager.self_incarnation_monotone).
//!
//! Domain (quick): every sequence of <= 3 messages over an alphabet of
//!   Sync{sender in {a,b}, states = subsets (size <= 2) of {a@inc0, a@inc2, b@inc1, c@inc1 Failed}, sender_time in {0, 7}},
//!   Suspect{reporter a, suspect in {a,b,me}, incarnation in {0,2}}, Alive{node in {a,b}, incarnation in {0,1,3}}
//! delivered to a fresh manager for node `me`; thorough: sequences <= 4.
use crate::fw::{no_panic, Report, Tier};
use serde_json::{json, Value};
use std::sync::Arc;
use tensor_chain::gossip::{GossipConfig, GossipMembershipManager, GossipMessage, GossipNodeState};
use tensor_chain::membership::NodeHealth;
use tensor_chain::network::{MemoryTransport, Message};

fn st(node: &str, health: NodeHealth, ts: u64, inc: u64) -> GossipNodeState {
    GossipNodeState::new(node.to_string(), health, ts, inc)
}

fn pool() -> Vec<GossipNodeState> {
    vec![st("a", NodeHealth::Healthy, 3, 0), st("a", NodeHealth::Healthy, 5, 2), st("b", NodeHealth::Degraded, 4, 1), st("c", NodeHealth::Failed, 6, 1)]
}

/// message alphabet; each message is described by a JSON value so that cases are replayable
fn alphabet() -> Vec<Value> {
    let mut v = vec![];
    let n = pool().len();
    let mut subsets: Vec<Vec<usize>> = vec![vec![]];
    for i in 0..n { subsets.push(vec![i]); for j in (i + 1)..n { subsets.push(vec![i, j]); } }
    for sender in ["a", "b"] {
        for s in &subsets {
            for t in [0u64, 7] {
                v.push(json!({"k": "sync", "sender": sender, "states": s, "time": t}));
            }
        }
    }
    for suspect in ["a", "b", "me"] { for inc in [0u64, 2] { v.push(json!({"k": "suspect", "reporter": "a", "suspect": suspect, "inc": inc})); } }
    for node in ["a", "b"] { for inc in [0u64, 1, 3] { v.push(json!({"k": "alive", "node": node, "inc": inc})); } }
    v
}

fn to_msg(m: &Value) -> GossipMessage {
    match m["k"].as_str().unwrap() {
        "sync" => GossipMessage::Sync {
            sender: m["sender"].as_str().unwrap().to_string(),
            states: m["states"].as_array().unwrap().iter().map(|i| pool()[i.as_u64().unwrap() as usize].clone()).collect(),
            sender_time: m["time"].as_u64().unwrap(),
        },
        "suspect" => GossipMessage::Suspect {
            reporter: m["reporter"].as_str().unwrap().to_string(),
            suspect: m["suspect"].as_str().unwrap().to_string(),
            incarnation: m["inc"].as_u64().unwrap(),
        },
        _ => GossipMessage::Alive { node_id: m["node"].as_str().unwrap().to_string(), incarnation: m["inc"].as_u64().unwrap() },
    }
}

fn view(mgr: &GossipMembershipManager) -> Vec<(String, u64)> {
    let mut v: Vec<(String, u64)> = mgr.all_states().into_iter().map(|s| (s.node_id.clone(), s.incarnation)).collect();
    v.sort();
    v
}

/// run a sequence; returns (view result, self-announcement result): Err(detail) at the first step that lowers an
/// incarnation / drops a member / panics, resp. at the first refutation that does not raise the announced incarnation
fn run_seq(seq: &[Value]) -> (Result<(), String>, Result<(), String>) {
    let rt = tokio::runtime::Handle::current();
    let transport = Arc::new(MemoryTransport::new("me".to_string()));
    let (tx, mut wire) = tokio::sync::mpsc::channel::<(String, Message)>(256);
    transport.connect_to("w".to_string(), tx);
    let mgr = GossipMembershipManager::new("me".to_string(), GossipConfig::default(), transport);
    mgr.add_peer("w".to_string());      // a gossip target, so that refutations are actually sent
    let mut before = view(&mgr);
    let mut announced: Vec<u64> = vec![];
    let mut self_res: Result<(), String> = Ok(());
    for (i, m) in seq.iter().enumerate() {
        let msg = to_msg(m);
        let r = no_panic(std::panic::AssertUnwindSafe(|| mgr.handle_gossip(msg)));
        if let Err(p) = r { return (Err(format!("step {i} {m}: handle_gossip panicked: {p}")), self_res); }
        // let the broadcast tasks spawned by this message run, then collect what `me` announced about itself
        let mut got: Vec<(String, Message)> = vec![];
        if m["k"] == "suspect" && m["suspect"] == "me" {
            // a refutation is owed: wait for it (bounded), it is sent by a spawned task
            if let Ok(Some(x)) = rt.block_on(async { tokio::time::timeout(std::time::Duration::from_millis(500), wire.recv()).await }) { got.push(x); }
        }
        while let Ok(x) = wire.try_recv() { got.push(x); }
        for (_, wm) in got {
            if let Message::Gossip(GossipMessage::Alive { node_id, incarnation }) = wm {
                if node_id == "me" {
                    if let Some(last) = announced.last() {
                        if incarnation <= *last && self_res.is_ok() {
                            self_res = Err(format!("step {i} {m}: the node announced its own incarnation {incarnation} after having announced {last} (announcements so far {announced:?})"));
                        }
                    }
                    announced.push(incarnation);
                }
            }
        }
        let after = view(&mgr);
        // a Sync must leave every delivered member at an incarnation at least as high as the delivered one
        // (merge adopts a state unless something at least as new is stored) — otherwise two nodes that
        // received the same updates through different routes disagree
        if m["k"] == "sync" {
            let delta = GossipConfig::default().max_incarnation_delta;
            for i in m["states"].as_array().unwrap() {
                let x = &pool()[i.as_u64().unwrap() as usize];
                let had = before.iter().find(|(n, _)| *n == x.node_id).map_or(0, |(_, inc)| *inc);
                if x.incarnation > had.saturating_add(delta) { continue; } // filtered as an implausible jump
                match after.iter().find(|(n, _)| *n == x.node_id) {
                    Some((_, inc2)) if *inc2 >= x.incarnation => {},
                    other => return (Err(format!("step {i} {m}: delivered state {}@inc{} but the view records {:?}", x.node_id, x.incarnation, other)), self_res),
                }
            }
        }
        for (node, inc) in &before {
            match after.iter().find(|(n, _)| n == node) {
                None => return (Err(format!("step {i} {m}: member {node} vanished from the view")), self_res),
                Some((_, inc2)) if inc2 < inc => return (Err(format!("step {i} {m}: recorded incarnation of {node} moved backwards {inc} -> {inc2}")), self_res),
                _ => {},
            }
        }
        before = after;
    }
    (Ok(()), self_res)
}

pub fn run(tier: Tier, _seed: u64) -> Report {
    // a refutation of a suspicion about the local node spawns a broadcast task: the runtime is driven after every message
    let rt = tokio::runtime::Builder::new_multi_thread().worker_threads(1).enable_all().build().expect("runtime");
    let _guard = rt.enter();
    let maxlen = if tier == Tier::Thorough { 4 } else { 3 };
    let alpha = alphabet();
    let mut rep = Report::new("c17_manager",
        &format!("every sequence of <= {maxlen} gossip messages over a {}-message alphabet (Sync from 2 senders with every <=2-subset of 4 states x 2 sender times; Suspect; Alive) delivered to a fresh GossipMembershipManager over a MemoryTransport{}",
                 alpha.len(), if tier == Tier::Thorough { " (length 4 restricted to sequences whose first two messages are Sync)" } else { "" }),
        true, &["GossipMembershipManager::handle_gossip", "handle_sync", "handle_suspect", "handle_alive"]);
    rep.declare("C17.manager.incarnation_monotone", "GossipMembershipManager::handle_gossip");
    rep.declare("C17.manager.self_incarnation_monotone", "GossipMembershipManager::handle_suspect");
    let mut seq: Vec<Value> = vec![];
    fn rec(rep: &mut Report, alpha: &[Value], seq: &mut Vec<Value>, maxlen: usize) {
        if !seq.is_empty() {
            let (r, rs) = run_seq(seq);
            rep.eval(seq.iter().any(|m| m["k"] == "sync" && !m["states"].as_array().unwrap().is_empty()));
            let s2 = seq.clone();
            rep.check("C17.manager.incarnation_monotone", r.is_ok(), &|| json!({"msgs": s2}), &|| r.clone().err().unwrap_or_default());
            if seq.iter().filter(|m| m["k"] == "suspect" && m["suspect"] == "me").count() >= 2 {
                let s3 = seq.clone();
                rep.check("C17.manager.self_incarnation_monotone", rs.is_ok(), &|| json!({"msgs": s3}), &|| rs.clone().err().unwrap_or_default());
            }
        }
        if seq.len() == maxlen { return; }
        for m in alpha {
            if maxlen == 4 && seq.len() < 2 && m["k"] != "sync" { continue; }
            seq.push(m.clone());
            rec(rep, alpha, seq, maxlen);
            seq.pop();
        }
    }
    if tier == Tier::Thorough {
        rec(&mut rep, &alpha, &mut seq, 3);
        rec(&mut rep, &alpha, &mut seq, 4);
    } else {
        rec(&mut rep, &alpha, &mut seq, maxlen);
    }
    rep.sample(json!({"msgs": [alpha[3].clone(), alpha[alpha.len() - 1].clone()]}));
    rep
}

pub fn replay(ob: &str, case: &Value) -> Result<String, String> {
    let rt = tokio::runtime::Builder::new_multi_thread().worker_threads(1).enable_all().build().expect("runtime");
    let _guard = rt.enter();
    let seq: Vec<Value> = case["msgs"].as_array().unwrap().clone();
    let (r, rs) = run_seq(&seq);
    if ob == "C17.manager.self_incarnation_monotone" { rs } else { r }.map(|()| "no incarnation moved backwards".to_string())
}
