//! C12 (bounded): 2PC key locks (`LockManager`) and the wait-for graph / deadlock detector.
//!
//! Part 1 - lock operations.  Ghost model of one manager: `key -> (tx, handle, expired?)` plus the
//! reverse index `tx -> keys` and the wait-for edge set.  Every operation sequence over the alphabet
//! below is executed from scratch on a real `LockManager` + `WaitForGraph`; the model is *observed*
//! before and after the LAST call (the prefix was checked as a shorter sequence) and the contract
//! clause of that call is evaluated on (pre, result, post) over the whole view, frame included.
//!   alphabet (3 tx x 3 keys): try_lock(tx, S), try_lock_with_wait_tracking(tx, S) for every non-empty
//!   key subset S; release(tx); release_by_handle / .._with_wait_cleanup (handle granted by the i-th
//!   call of the sequence, or a never issued handle); cleanup_expired / .._with_wait_cleanup;
//!   environment steps: expire(key) / expire(all keys of tx) (= restore from the serialisable state
//!   with `acquired_at_ms = 0`, no sleeping), restore (to_serializable -> from_serializable),
//!   add_wait(a, b).
//! Locks are taken with a one hour timeout, "expired" locks were acquired at epoch 0.
//!
//! Part 2 - cycles.  Every digraph without self loops on <= 4 transactions (quick) / 5 (thorough), 6-8
//! sampled: `detect_cycles` non-empty iff the contract's own DFS finds a cycle; every reported cycle is a
//! simple cycle of the edge set; `would_create_cycle(a, b)` iff `a == b` or `b` reaches `a`; for each
//! victim policy `DeadlockDetector::detect` reports iff a cycle exists and names a victim of the cycle.
//!
//! Part 4 - the PARTICIPANT API (`TxParticipant::{prepare, commit, abort, cleanup_stale}`), the layer that turns the
//! messages of the protocol into lock operations (parts 1-3 drive `LockManager` directly, where the caller keeps the
//! handle; here the participant keeps it in its prepared table).  Scripts over the alphabet
//!   prepare(tx, S) for every non-empty key subset S -- the same (tx, S) may be delivered a second and a third time
//!   (retransmission), also with a different key set --, commit(tx), abort(tx), cleanup_stale(0 s) (= the prepare
//!   timeout has elapsed for every prepared transaction; 0 s is the smallest timeout, so no sleeping), cleanup_stale(1 h)
//!   (= it has elapsed for nobody); a prepare by another transaction on the same keys is just another letter.
//! Ghost model: `tx -> keys` of the transactions that are prepared and not finished; a GRANTED prepare adds its keys to
//! the transaction's set (the coordinator was told Yes for them, they stay locked until the transaction finishes), a
//! refused prepare changes nothing (all-or-nothing), commit / abort / timeout remove the transaction.  After EVERY
//! step the whole public view must equal the model: `locks.is_locked` / `locks.lock_holder` per key,
//! `locks.active_lock_count`, `locks.keys_for_transaction` per transaction, `get_awaiting_decision`,
//! `prepared_count`; the vote of a prepare must be Yes iff no requested key is held by ANOTHER prepared transaction,
//! otherwise Conflict naming one of the holders; after the last step a FRESH transaction prepares each key on its own:
//! granted iff the model says the key is free (in particular every key of a committed / aborted / timed out
//! transaction that nobody else took), refused with the holder's id otherwise.
//! The participant has no wait-for graph (it calls `try_lock`, not `try_lock_with_wait_tracking`): that half of C12 is
//! not observable through this API and stays with part 1.
//!  * C12.participant.no_lock_left     scripts in which every granted re-prepare of an already prepared transaction
//!                                     asks for at least the keys it already holds (same set = retransmission, or a superset)
//!  * C12.participant.rekeyed_prepare  the same clause for the scripts in which a granted re-prepare DROPS a key the
//!                                     transaction already holds (prepare(T,{a}) .. prepare(T,{b})): T then holds {b} or
//!                                     {a,b} (the property leaves that open; the engine's choice becomes the model) and
//!                                     must hold nothing once it is finished.
use crate::fw::{no_panic, Report, Rng, Tier};
use serde_json::{json, Value};
use std::collections::{BTreeMap, BTreeSet, HashMap};
use std::time::Duration;
use tensor_chain::deadlock::{DeadlockDetector, DeadlockDetectorConfig, VictimSelectionPolicy, WaitForGraph};
use tensor_chain::distributed_tx::{KeyLock, LockManager, SerializableLockState};
use tensor_chain::{PrepareRequest, PrepareVote, Transaction, TxParticipant};
use tensor_store::{SparseVector, TensorStore};

const TXS: [u64; 3] = [1, 2, 3];
const KEYS: [&str; 3] = ["a", "b", "c"];
/// a handle the global counter (starts at 1, +1 per grant) never issues in a run
const BOGUS: u64 = u64::MAX - 7;

const GRANT: &str = "C12.lock.grant";
const WAIT: &str = "C12.lock.wait";
const RELEASE: &str = "C12.release";
const REPINV: &str = "C12.rep_inv";
const CYCLE: &str = "C12.cycle.iff";
const VICTIM: &str = "C12.victim.in_cycle";
const EXPIRY: &str = "C12.expiry.arith";
const PART: &str = "C12.participant.no_lock_left";
const PART_REKEY: &str = "C12.participant.rekeyed_prepare";

// ------------------------------------------------------------------------------------------------
// operations

#[derive(Clone, Copy, Debug, PartialEq, Eq)]
enum Op {
    Lock(u64, u8),
    LockW(u64, u8),
    Release(u64),
    /// release_by_handle(handle granted by the i-th call of the sequence; 3 = never issued handle)
    RelH(u8),
    RelHW(u8),
    Cleanup,
    CleanupW,
    ExpireKey(u8),
    ExpireTx(u64),
    Restore,
    AddWait(u64, u64),
}

fn op_json(op: Op) -> Value {
    match op {
        Op::Lock(t, m) => json!(["try_lock", t, m]),
        Op::LockW(t, m) => json!(["try_lock_with_wait_tracking", t, m]),
        Op::Release(t) => json!(["release", t]),
        Op::RelH(i) => json!(["release_by_handle", i]),
        Op::RelHW(i) => json!(["release_by_handle_with_wait_cleanup", i]),
        Op::Cleanup => json!(["cleanup_expired"]),
        Op::CleanupW => json!(["cleanup_expired_with_wait_cleanup"]),
        Op::ExpireKey(k) => json!(["expire_key", k]),
        Op::ExpireTx(t) => json!(["expire_tx", t]),
        Op::Restore => json!(["restore"]),
        Op::AddWait(a, b) => json!(["add_wait", a, b]),
    }
}

fn op_parse(v: &Value) -> Result<Op, String> {
    let a = v.as_array().ok_or("op must be an array")?;
    let name = a.first().and_then(Value::as_str).ok_or("op name")?;
    let n = |i: usize| a.get(i).and_then(Value::as_u64).ok_or_else(|| format!("op {name}: argument {i}"));
    Ok(match name {
        "try_lock" => Op::Lock(n(1)?, n(2)? as u8),
        "try_lock_with_wait_tracking" => Op::LockW(n(1)?, n(2)? as u8),
        "release" => Op::Release(n(1)?),
        "release_by_handle" => Op::RelH(n(1)? as u8),
        "release_by_handle_with_wait_cleanup" => Op::RelHW(n(1)? as u8),
        "cleanup_expired" => Op::Cleanup,
        "cleanup_expired_with_wait_cleanup" => Op::CleanupW,
        "expire_key" => Op::ExpireKey(n(1)? as u8),
        "expire_tx" => Op::ExpireTx(n(1)?),
        "restore" => Op::Restore,
        "add_wait" => Op::AddWait(n(1)?, n(2)?),
        _ => return Err(format!("unknown op {name}")),
    })
}

fn keys_of(mask: u8) -> Vec<String> {
    (0..KEYS.len()).filter(|i| mask & (1 << i) != 0).map(|i| KEYS[i].to_string()).collect()
}

/// full alphabet over `ntx` transactions and `nkeys` keys; handle references 0..nh plus the bogus one
fn alphabet(ntx: usize, nkeys: usize, nh: u8) -> Vec<Op> {
    let mut v = vec![];
    let txs = &TXS[..ntx];
    for &t in txs { for m in 1u8..(1 << nkeys) { v.push(Op::Lock(t, m)); } }
    for &t in txs { for m in 1u8..(1 << nkeys) { v.push(Op::LockW(t, m)); } }
    for &t in txs { v.push(Op::Release(t)); }
    for i in (0..nh).chain([3]) { v.push(Op::RelH(i)); }
    for i in (0..nh).chain([3]) { v.push(Op::RelHW(i)); }
    v.push(Op::Cleanup);
    v.push(Op::CleanupW);
    for k in 0..nkeys { v.push(Op::ExpireKey(k as u8)); }
    for &t in txs { v.push(Op::ExpireTx(t)); }
    v.push(Op::Restore);
    for &a in txs { for &b in txs { if a != b { v.push(Op::AddWait(a, b)); } } }
    v
}

// ------------------------------------------------------------------------------------------------
// the real objects and their observed view

struct World { lm: LockManager, wg: WaitForGraph, handles: Vec<Option<u64>> }

enum Out {
    Granted(u64),
    Refused(u64),
    RefusedW { blocker: u64, keys: Vec<String> },
    Count(usize),
    Unit,
    /// the sequence refers to a handle that was not granted: not a case of the domain
    Invalid,
}

impl World {
    fn new() -> Self {
        Self { lm: LockManager::with_default_timeout(Duration::from_secs(3600)), wg: WaitForGraph::new(), handles: vec![] }
    }
    fn resolve(&self, i: u8) -> Option<u64> {
        if i == 3 { Some(BOGUS) } else { self.handles.get(i as usize).copied().flatten() }
    }
    /// "time passes": the selected locks were acquired at epoch 0 (one hour timeout => expired)
    fn expire(&mut self, sel: &dyn Fn(&str, &KeyLock) -> bool) {
        let s = self.lm.to_serializable();
        let locks: HashMap<String, KeyLock> = s.locks().iter().map(|(k, l)| {
            let mut l = l.clone();
            if sel(k, &l) { l.acquired_at_ms = 0; }
            (k.clone(), l)
        }).collect();
        self.lm = LockManager::from_serializable(SerializableLockState::new(locks, s.tx_locks().clone(), s.default_timeout_ms()));
    }
    fn exec(&mut self, op: Op) -> Out {
        let out = match op {
            Op::Lock(t, m) => match self.lm.try_lock(t, &keys_of(m)) { Ok(h) => Out::Granted(h), Err(b) => Out::Refused(b) },
            Op::LockW(t, m) => match self.lm.try_lock_with_wait_tracking(t, &keys_of(m), &self.wg, None) {
                Ok(h) => Out::Granted(h),
                Err(wi) => Out::RefusedW { blocker: wi.blocking_tx_id, keys: wi.conflicting_keys },
            },
            Op::Release(t) => { self.lm.release(t); Out::Unit },
            Op::RelH(i) => match self.resolve(i) { Some(h) => { self.lm.release_by_handle(h); Out::Unit }, None => Out::Invalid },
            Op::RelHW(i) => match self.resolve(i) {
                Some(h) => { self.lm.release_by_handle_with_wait_cleanup(h, &self.wg); Out::Unit },
                None => Out::Invalid,
            },
            Op::Cleanup => Out::Count(self.lm.cleanup_expired()),
            Op::CleanupW => Out::Count(self.lm.cleanup_expired_with_wait_cleanup(&self.wg)),
            Op::ExpireKey(k) => { let key = KEYS[k as usize]; self.expire(&|kk, _| kk == key); Out::Unit },
            Op::ExpireTx(t) => { self.expire(&|_, l| l.tx_id == t); Out::Unit },
            Op::Restore => { self.lm = LockManager::from_serializable(self.lm.to_serializable()); Out::Unit },
            Op::AddWait(a, b) => { self.wg.add_wait(a, b, None); Out::Unit },
        };
        self.handles.push(if let Out::Granted(h) = out { Some(h) } else { None });
        out
    }
}

type Table = BTreeMap<String, (u64, u64, bool)>;
type Edges = BTreeSet<(u64, u64)>;

#[derive(Clone, PartialEq, Eq, Debug)]
struct View {
    /// key -> (tx, handle, expired?)  (expired? = acquired at epoch 0; all other locks have a 1 h timeout)
    table: Table,
    /// reverse index as a set, empty entries dropped
    rev: BTreeMap<u64, BTreeSet<String>>,
    edges: Edges,
    /// every stored KeyLock names the key it is stored under
    key_field_ok: bool,
}

fn observe(w: &World) -> View {
    let s = w.lm.to_serializable();
    let mut key_field_ok = true;
    let table: Table = s.locks().iter().map(|(k, l)| {
        if &l.key != k { key_field_ok = false; }
        (k.clone(), (l.tx_id, l.lock_handle, l.acquired_at_ms == 0))
    }).collect();
    let mut rev = BTreeMap::new();
    for t in TXS {
        let ks: BTreeSet<String> = w.lm.keys_for_transaction(t).into_iter().collect();
        if !ks.is_empty() { rev.insert(t, ks); }
    }
    let mut edges = Edges::new();
    for a in TXS { for b in w.wg.waiting_for(a) { edges.insert((a, b)); } }
    View { table, rev, edges, key_field_ok }
}

/// the public query view of a manager: (is_locked, lock_holder) per key, active_lock_count, reverse index
fn public_view(lm: &LockManager) -> (Vec<(bool, Option<u64>)>, usize, Vec<BTreeSet<String>>) {
    (KEYS.iter().map(|k| (lm.is_locked(k), lm.lock_holder(k))).collect(), lm.active_lock_count(),
     TXS.iter().map(|&t| lm.keys_for_transaction(t).into_iter().collect()).collect())
}

fn not_incident(e: &Edges, txs: &BTreeSet<u64>) -> Edges {
    e.iter().copied().filter(|(a, b)| !txs.contains(a) && !txs.contains(b)).collect()
}

fn rev_others_unchanged(pre: &View, post: &View, subject: u64) -> bool {
    TXS.iter().filter(|&&t| t != subject).all(|t| pre.rev.get(t) == post.rev.get(t))
}

type Verdicts = Vec<(&'static str, bool, String)>;

/// Execute `seq` from scratch and evaluate the contract of its LAST call.  None = not a case of the domain.
fn eval_seq(seq: &[Op]) -> Option<(Verdicts, bool)> {
    let (&last, prefix) = seq.split_last()?;
    let mut w = World::new();
    for &op in prefix { if let Out::Invalid = w.exec(op) { return None; } }
    let pre = observe(&w);
    let out = w.exec(last);
    if let Out::Invalid = out { return None; }
    let post = observe(&w);
    let mut v: Verdicts = vec![];
    let mut add = |oid: &'static str, ok: bool, d: &dyn Fn() -> String| v.push((oid, ok, if ok { String::new() } else { d() }));
    let show = |pre: &View, post: &View| format!("pre {:?} edges {:?}; post {:?} rev {:?} edges {:?}", pre.table, pre.edges, post.table, post.rev, post.edges);

    // unexpired holders other than tx among the requested keys
    let blockers = |tx: u64, keys: &[String]| -> BTreeSet<u64> {
        keys.iter().filter_map(|k| pre.table.get(k)).filter(|(t, _, e)| !*e && *t != tx).map(|x| x.0).collect()
    };
    match (last, &out) {
        (Op::Lock(tx, m) | Op::LockW(tx, m), Out::Granted(h)) => {
            let keys = keys_of(m);
            let bl = blockers(tx, &keys);
            let mut expect = pre.table.clone();
            for k in &keys { expect.insert(k.clone(), (tx, *h, false)); }
            let ok = bl.is_empty() && post.table == expect && rev_others_unchanged(&pre, &post, tx)
                && (matches!(last, Op::LockW(..)) || post.edges == pre.edges);
            add(GRANT, ok, &|| format!("Ok({h}) for tx {tx} keys {keys:?}: blockers {bl:?}, expected table {expect:?}; {}", show(&pre, &post)));
            if let Op::LockW(..) = last {
                let me: BTreeSet<u64> = [tx].into();
                let ok = !post.edges.iter().any(|(a, _)| *a == tx)
                    && not_incident(&post.edges, &me) == not_incident(&pre.edges, &me)
                    && post.edges.is_subset(&pre.edges);
                add(WAIT, ok, &|| format!("granted tx {tx} must no longer wait, other edges unchanged; {}", show(&pre, &post)));
            }
        },
        (Op::Lock(tx, m), Out::Refused(b)) => {
            let keys = keys_of(m);
            let bl = blockers(tx, &keys);
            let ok = bl.contains(b) && post == pre;
            add(GRANT, ok, &|| format!("Err({b}) for tx {tx} keys {keys:?}: blockers {bl:?}, table/index/graph must be unchanged; {}", show(&pre, &post)));
        },
        (Op::LockW(tx, m), Out::RefusedW { blocker, keys: ck }) => {
            let keys = keys_of(m);
            let bl = blockers(tx, &keys);
            let ok = bl.contains(blocker) && post.table == pre.table && post.rev == pre.rev;
            add(GRANT, ok, &|| format!("Err(blocker {blocker}) for tx {tx} keys {keys:?}: blockers {bl:?}, table must be unchanged; {}", show(&pre, &post)));
            let mut expect = pre.edges.clone();
            for b in &bl { expect.insert((tx, *b)); }
            let conflicting: BTreeSet<&String> = keys.iter().filter(|k| pre.table.get(*k).is_some_and(|(t, _, e)| !*e && *t != tx)).collect();
            let ok = post.edges == expect && ck.iter().collect::<BTreeSet<_>>() == conflicting && ck.len() == conflicting.len();
            add(WAIT, ok, &|| format!("conflict of tx {tx} on {keys:?}: expected edges {expect:?}, conflicting keys {conflicting:?}; got keys {ck:?}; {}", show(&pre, &post)));
        },
        (Op::Release(tx), _) => {
            let expect: Table = pre.table.iter().filter(|(_, l)| l.0 != tx).map(|(k, l)| (k.clone(), *l)).collect();
            let ok = post.table == expect && !post.rev.contains_key(&tx) && rev_others_unchanged(&pre, &post, tx) && post.edges == pre.edges;
            add(RELEASE, ok, &|| format!("release({tx}): expected table {expect:?}, no reverse entry for {tx}; {}", show(&pre, &post)));
        },
        (Op::RelH(i) | Op::RelHW(i), _) => {
            let h = w.resolve(i).unwrap_or(BOGUS);
            let owners: BTreeSet<u64> = pre.table.values().filter(|l| l.1 == h).map(|l| l.0).collect();
            let expect: Table = pre.table.iter().filter(|(_, l)| l.1 != h).map(|(k, l)| (k.clone(), *l)).collect();
            let expect_edges = if let Op::RelHW(_) = last { not_incident(&pre.edges, &owners) } else { pre.edges.clone() };
            let rev_ok = TXS.iter().all(|t| {
                let (a, b) = (pre.rev.get(t), post.rev.get(t));
                if owners.contains(t) { b.is_none_or(|b| a.is_some_and(|a| b.is_subset(a))) } else { a == b }
            });
            let ok = owners.len() <= 1 && post.table == expect && post.edges == expect_edges && rev_ok;
            add(RELEASE, ok, &|| format!("{:?} handle {h} (owner tx {owners:?}): expected table {expect:?} edges {expect_edges:?}; {}", last, show(&pre, &post)));
        },
        (Op::Cleanup | Op::CleanupW, Out::Count(n)) => {
            let expired_txs: BTreeSet<u64> = pre.table.values().filter(|l| l.2).map(|l| l.0).collect();
            let n_exp = pre.table.values().filter(|l| l.2).count();
            let expect: Table = pre.table.iter().filter(|(_, l)| !l.2).map(|(k, l)| (k.clone(), *l)).collect();
            let expect_edges = if last == Op::CleanupW { not_incident(&pre.edges, &expired_txs) } else { pre.edges.clone() };
            let rev_ok = TXS.iter().all(|t| {
                let (a, b) = (pre.rev.get(t), post.rev.get(t));
                if expired_txs.contains(t) { b.is_none_or(|b| a.is_some_and(|a| b.is_subset(a))) } else { a == b }
            });
            let ok = *n == n_exp && post.table == expect && post.edges == expect_edges && rev_ok;
            add(RELEASE, ok, &|| format!("{:?} returned {n} (expired {n_exp}, of tx {expired_txs:?}): expected table {expect:?} edges {expect_edges:?}; {}", last, show(&pre, &post)));
        },
        (Op::Restore, _) => {
            add(REPINV, post == pre, &|| format!("to_serializable -> from_serializable changed the view; {}", show(&pre, &post)));
        },
        _ => {},
    }

    // representation invariant of the post state + serialise/restore identity on the observable view
    let mut bad = vec![];
    if !post.key_field_ok { bad.push("a KeyLock is stored under a different key".to_string()); }
    for k in KEYS {
        let want = post.table.get(k).filter(|l| !l.2).map(|l| l.0);
        if w.lm.lock_holder(k) != want || w.lm.is_locked(k) != want.is_some() {
            bad.push(format!("key {k}: is_locked {} lock_holder {:?}, table says {want:?}", w.lm.is_locked(k), w.lm.lock_holder(k)));
        }
    }
    if w.lm.active_lock_count() != post.table.len() { bad.push(format!("active_lock_count {} != {} table entries", w.lm.active_lock_count(), post.table.len())); }
    for (k, l) in &post.table {
        if !TXS.contains(&l.0) { bad.push(format!("key {k} held by unknown tx {}", l.0)); }
        if !post.rev.get(&l.0).is_some_and(|s| s.contains(k)) { bad.push(format!("key {k} held by tx {} but missing from keys_for_transaction", l.0)); }
    }
    for t in TXS {
        if w.lm.lock_count_for_transaction(t) != w.lm.keys_for_transaction(t).len() { bad.push(format!("lock_count_for_transaction({t}) inconsistent")); }
    }
    for a in TXS { for b in TXS {
        if w.wg.waiting_on(b).contains(&a) != post.edges.contains(&(a, b)) { bad.push(format!("waiting_on({b}) and waiting_for({a}) disagree")); }
    } }
    if w.wg.edge_count() != post.edges.len() { bad.push(format!("edge_count {} != {} edges", w.wg.edge_count(), post.edges.len())); }
    // a restore hands back exactly the saved locks: a lock acquired at a past instant keeps that instant (its lease is not re-armed), so a
    // lease that ran out before the snapshot is still over afterwards ("times out -> none of its locks remain", serialize-restore sequences)
    {
        let s0 = w.lm.to_serializable();
        let aged: HashMap<String, KeyLock> = s0.locks().iter().map(|(k, l)| { let mut l = l.clone(); l.acquired_at_ms = 1_000; (k.clone(), l) }).collect();
        let r = LockManager::from_serializable(SerializableLockState::new(aged.clone(), s0.tx_locks().clone(), s0.default_timeout_ms()));
        let s1 = r.to_serializable();
        if s1.locks().len() != aged.len() { bad.push(format!("restore of {} aged locks holds {}", aged.len(), s1.locks().len())); }
        for (k, l) in &aged {
            match s1.locks().get(k) {
                Some(m) if m.acquired_at_ms == l.acquired_at_ms && m.timeout_ms == l.timeout_ms && m.tx_id == l.tx_id && m.lock_handle == l.lock_handle && m.key == l.key => {},
                other => bad.push(format!("key {k}: saved lock (tx {}, handle {}, acquired_at_ms {}, timeout_ms {}) restored as {:?}", l.tx_id, l.lock_handle, l.acquired_at_ms, l.timeout_ms,
                    other.map(|m| (m.tx_id, m.lock_handle, m.acquired_at_ms, m.timeout_ms)))),
            }
            if r.is_locked(k) || r.lock_holder(k).is_some() { bad.push(format!("key {k}: a lock acquired at epoch + 1 s with a lease of {} ms is live after the restore", l.timeout_ms)); }
        }
        if r.cleanup_expired() != aged.len() || r.active_lock_count() != 0 { bad.push("expiry sweep after the restore left a timed-out lock behind".to_string()); }
    }
    let restored = LockManager::from_serializable(w.lm.to_serializable());
    if public_view(&restored) != public_view(&w.lm) { bad.push(format!("restored view {:?} != {:?}", public_view(&restored), public_view(&w.lm))); }
    let w2 = World { lm: restored, wg: WaitForGraph::new(), handles: vec![] };
    if observe(&w2).table != post.table { bad.push("restored table differs".into()); }
    add(REPINV, bad.is_empty(), &|| format!("{bad:?}; {}", show(&pre, &post)));

    let nontrivial = !pre.table.is_empty() || !pre.edges.is_empty();
    Some((v, nontrivial))
}

fn seq_json(seq: &[Op]) -> Value { json!({"ops": seq.iter().map(|o| op_json(*o)).collect::<Vec<_>>()}) }

fn feed(rep: &mut Report, seq: &[Op]) -> bool {
    let Some((verdicts, nontrivial)) = eval_seq(seq) else { return false };
    rep.eval(nontrivial);
    for (oid, ok, detail) in verdicts {
        rep.check(oid, ok, &|| seq_json(seq), &|| detail.clone());
    }
    true
}

fn dfs(rep: &mut Report, alpha: &[Op], cur: &mut Vec<Op>, maxlen: usize, min_report: usize) {
    for &op in alpha {
        // a handle reference must point at an earlier call
        if let Op::RelH(i) | Op::RelHW(i) = op { if i != 3 && i as usize >= cur.len() { continue; } }
        cur.push(op);
        // sequences shorter than min_report were already evaluated by a wider enumeration
        let valid = if cur.len() >= min_report { feed(rep, cur) } else { true };
        if valid && cur.len() < maxlen { dfs(rep, alpha, cur, maxlen, min_report); }
        cur.pop();
    }
}

// ------------------------------------------------------------------------------------------------
// cycles

fn pairs(n: u64) -> Vec<(u64, u64)> {
    let mut v = vec![];
    for a in 1..=n { for b in 1..=n { if a != b { v.push((a, b)); } } }
    v
}

fn edges_of(n: u64, mask: u64) -> Vec<(u64, u64)> {
    pairs(n).into_iter().enumerate().filter(|(i, _)| mask >> i & 1 == 1).map(|(_, e)| e).collect()
}

/// the contract's own DFS: set of nodes reachable from `s` by >= 1 edge (bit i = node i)
fn reach_from(adj: &[u16; 16], s: u64) -> u16 {
    let mut seen = 0u16;
    let mut stack = vec![s];
    while let Some(x) = stack.pop() {
        let mut nb = adj[x as usize] & !seen;
        seen |= nb;
        while nb != 0 { let y = nb.trailing_zeros(); nb &= nb - 1; stack.push(u64::from(y)); }
    }
    seen
}

fn adjacency(edges: &[(u64, u64)]) -> [u16; 16] {
    let mut adj = [0u16; 16];
    for &(a, b) in edges { adj[a as usize] |= 1 << b; }
    adj
}

fn spec_cycle_exists(n: u64, adj: &[u16; 16]) -> bool { (1..=n).any(|a| reach_from(adj, a) >> a & 1 == 1) }

fn is_real_cycle(c: &[u64], adj: &[u16; 16]) -> bool {
    if c.is_empty() { return false; }
    let distinct = c.iter().collect::<BTreeSet<_>>().len() == c.len();
    distinct && c.iter().all(|&x| x < 16) && (0..c.len()).all(|i| adj[c[i] as usize] >> c[(i + 1) % c.len()] & 1 == 1)
}

const POLICIES: [(VictimSelectionPolicy, bool, &str); 5] = [
    (VictimSelectionPolicy::Youngest, false, "Youngest"),
    (VictimSelectionPolicy::Oldest, false, "Oldest"),
    (VictimSelectionPolicy::LowestPriority, false, "LowestPriority"),
    (VictimSelectionPolicy::MostLocks, false, "MostLocks(no lock count fn)"),
    (VictimSelectionPolicy::MostLocks, true, "MostLocks(lock count fn)"),
];

/// cycle.iff on one digraph: (detect_cycles verdict, would_create_cycle verdict)
fn eval_graph(n: u64, mask: u64) -> (bool, String, bool, String) {
    let edges = edges_of(n, mask);
    let adj = adjacency(&edges);
    let spec = spec_cycle_exists(n, &adj);
    let g = WaitForGraph::new();
    for &(a, b) in &edges { g.add_wait(a, b, None); }
    let cycles = g.detect_cycles();
    let ok1 = cycles.is_empty() != spec && cycles.iter().all(|c| is_real_cycle(c, &adj));
    let d1 = if ok1 { String::new() } else { format!("edges {edges:?}: detect_cycles = {cycles:?}, spec_cycle_exists = {spec}") };
    let mut wrong = vec![];
    for a in 1..=n { for b in 1..=n {
        let want = a == b || reach_from(&adj, b) >> a & 1 == 1;
        let got = g.would_create_cycle(a, b);
        if got != want { wrong.push((a, b, got, want)); }
    } }
    let d2 = if wrong.is_empty() { String::new() } else { format!("edges {edges:?}: would_create_cycle (a, b, got, want) = {wrong:?}") };
    (ok1, d1, wrong.is_empty(), d2)
}

/// detector on one digraph under policy `p`: (reports-iff verdict, victim-in-cycle verdict)
fn eval_victim(n: u64, mask: u64, p: usize) -> (bool, String, bool, String) {
    let edges = edges_of(n, mask);
    let adj = adjacency(&edges);
    let spec = spec_cycle_exists(n, &adj);
    let (policy, with_fn, name) = POLICIES[p];
    let mut det = DeadlockDetector::new(DeadlockDetectorConfig::default().with_policy(policy));
    if with_fn { det.set_lock_count_fn(|tx| ((tx * 5) % 7) as usize); }
    for &(a, b) in &edges {
        let prio = if policy == VictimSelectionPolicy::LowestPriority { Some(((a * 3) % 5) as u32) } else { None };
        det.graph().add_wait(a, b, prio);
    }
    let infos = det.detect();
    let ok1 = infos.is_empty() != spec && infos.iter().all(|i| is_real_cycle(&i.cycle, &adj));
    let d1 = if ok1 { String::new() } else { format!("policy {name}, edges {edges:?}: detect = {infos:?}, spec_cycle_exists = {spec}") };
    let mut bad = vec![];
    for i in &infos {
        if !i.cycle.contains(&i.victim_tx_id) || i.victim_policy != policy { bad.push(format!("detect: victim {} for cycle {:?}", i.victim_tx_id, i.cycle)); }
        let v = det.select_victim(&i.cycle);
        if !i.cycle.contains(&v) { bad.push(format!("select_victim({:?}) = {v}", i.cycle)); }
    }
    for c in det.graph().detect_cycles() {
        let v = det.select_victim(&c);
        if !c.contains(&v) { bad.push(format!("select_victim({c:?}) = {v}")); }
    }
    let d2 = if bad.is_empty() { String::new() } else { format!("policy {name}, edges {edges:?}: {bad:?}") };
    (ok1, d1, bad.is_empty(), d2)
}

fn feed_graph(rep: &mut Report, n: u64, mask: u64) {
    let case = || json!({"n": n, "mask": mask});
    let (ok1, d1, ok2, d2) = eval_graph(n, mask);
    rep.eval(mask != 0);
    rep.check(CYCLE, ok1, &case, &|| d1.clone());
    rep.check(CYCLE, ok2, &case, &|| d2.clone());
    for p in 0..POLICIES.len() {
        let case = || json!({"n": n, "mask": mask, "policy": p});
        let (ok1, d1, ok2, d2) = eval_victim(n, mask, p);
        rep.eval(mask != 0);
        rep.check(CYCLE, ok1, &case, &|| d1.clone());
        rep.check(VICTIM, ok2, &case, &|| d2.clone());
    }
}

// ------------------------------------------------------------------------------------------------
// expiry arithmetic (no wall-clock boundary: acquired long ago or in the far future)

const ACQ: [u64; 4] = [0, 1, u64::MAX - 1, u64::MAX];
const TMO: [u64; 5] = [0, 1, 3_600_000, u64::MAX / 2, u64::MAX];

fn eval_expiry(acq: u64, tmo: u64) -> (bool, String) {
    let l = KeyLock { key: "a".into(), tx_id: 1, lock_handle: 1, acquired_at_ms: acq, timeout_ms: tmo };
    let got = no_panic(move || l.is_expired());
    // acquired at the epoch: expired unless the timeout is astronomically long; acquired in the future
    // (clock went backwards): elapsed time is 0, never expired, no underflow
    let want = acq <= 1 && tmo <= 3_600_000;
    (got == Ok(want), format!("is_expired(acquired {acq}, timeout {tmo}) = {got:?}, expected {want}"))
}


// ------------------------------------------------------------------------------------------------
// part 4: the participant API

#[derive(Clone, Copy, Debug, PartialEq, Eq)]
enum POp {
    Prepare(u64, u8),
    Commit(u64),
    Abort(u64),
    /// cleanup_stale(0 s): the prepare timeout has elapsed for every prepared transaction
    Timeout,
    /// cleanup_stale(3600 s): it has elapsed for nobody
    NoTimeout,
}

fn pop_json(op: POp) -> Value {
    match op {
        POp::Prepare(t, m) => json!(["prepare", t, m]),
        POp::Commit(t) => json!(["commit", t]),
        POp::Abort(t) => json!(["abort", t]),
        POp::Timeout => json!(["cleanup_stale", 0]),
        POp::NoTimeout => json!(["cleanup_stale", 3600]),
    }
}

fn pop_parse(v: &Value) -> Result<POp, String> {
    let a = v.as_array().ok_or("op must be an array")?;
    let name = a.first().and_then(Value::as_str).ok_or("op name")?;
    let n = |i: usize| a.get(i).and_then(Value::as_u64).ok_or_else(|| format!("op {name}: argument {i}"));
    Ok(match name {
        "prepare" => { let m = n(2)?; if m == 0 || m >= 1 << KEYS.len() { return Err("prepare: key mask must be 1..=7".into()); } POp::Prepare(n(1)?, m as u8) },
        "commit" => POp::Commit(n(1)?),
        "abort" => POp::Abort(n(1)?),
        "cleanup_stale" => if n(1)? == 0 { POp::Timeout } else { POp::NoTimeout },
        _ => return Err(format!("unknown participant op {name}")),
    })
}

fn palphabet(ntx: usize, nkeys: usize) -> Vec<POp> {
    let mut v = vec![];
    let txs = &TXS[..ntx];
    for &t in txs { for m in 1u8..(1 << nkeys) { v.push(POp::Prepare(t, m)); } }
    for &t in txs { v.push(POp::Commit(t)); }
    for &t in txs { v.push(POp::Abort(t)); }
    v.push(POp::Timeout);
    v.push(POp::NoTimeout);
    v
}

/// ids of the fresh transactions that probe the keys after the last step
const PROBE_TX: u64 = 100;

type PModel = BTreeMap<u64, BTreeSet<String>>;

#[derive(PartialEq, Eq, Debug)]
struct PView {
    /// (is_locked, lock_holder) per key
    keys: Vec<(bool, Option<u64>)>,
    active: usize,
    /// keys_for_transaction per transaction of TXS, as a set
    rev: Vec<BTreeSet<String>>,
    awaiting: BTreeSet<u64>,
    prepared_count: usize,
}

fn p_holder(m: &PModel, k: &str) -> Option<u64> { m.iter().find(|(_, ks)| ks.contains(k)).map(|(t, _)| *t) }

fn p_expect(m: &PModel) -> PView {
    let keys: Vec<(bool, Option<u64>)> = KEYS.iter().map(|k| { let h = p_holder(m, k); (h.is_some(), h) }).collect();
    PView { active: keys.iter().filter(|x| x.0).count(), keys,
            rev: TXS.iter().map(|t| m.get(t).cloned().unwrap_or_default()).collect(),
            awaiting: m.keys().copied().collect(), prepared_count: m.len() }
}

fn p_observe(p: &TxParticipant) -> PView {
    PView { keys: KEYS.iter().map(|k| (p.locks.is_locked(k), p.locks.lock_holder(k))).collect(),
            active: p.locks.active_lock_count(),
            rev: TXS.iter().map(|&t| p.locks.keys_for_transaction(t).into_iter().collect()).collect(),
            awaiting: p.get_awaiting_decision().into_iter().collect(), prepared_count: p.prepared_count() }
}

fn p_request(tx: u64, keys: &[String]) -> PrepareRequest {
    PrepareRequest { tx_id: tx, coordinator: "coord".to_string(),
                     operations: keys.iter().map(|k| Transaction::Put { key: k.clone(), data: vec![tx as u8] }).collect(),
                     delta_embedding: SparseVector::from_dense(&[1.0, 0.0]), timeout_ms: 5000 }
}

struct PEval { ok: bool, detail: String, rekeyed: bool, nontrivial: bool }

/// Execute the script on a fresh participant (over `store`, emptied first) and evaluate the clause of its LAST step.
/// None = a proper prefix already diverges from the model (that prefix is its own, shorter case).
fn eval_pseq(store: &TensorStore, seq: &[POp]) -> Option<PEval> {
    for k in store.scan("") { store.delete(&k).expect("reset store"); }
    let p = TxParticipant::new(store.clone());
    let mut m = PModel::new();
    let mut rekeyed = false;
    let mut nontrivial = false;
    let last = seq.len().checked_sub(1)?;
    for (i, &op) in seq.iter().enumerate() {
        let pre = m.clone();
        let mut why: Vec<String> = vec![];
        if i == last { nontrivial = !pre.is_empty(); }
        match op {
            POp::Prepare(tx, mask) => {
                let keys = keys_of(mask);
                let blockers: BTreeSet<u64> = keys.iter().filter_map(|k| p_holder(&pre, k)).filter(|h| *h != tx).collect();
                let vote = p.prepare(p_request(tx, &keys));
                match (&vote, blockers.is_empty()) {
                    (PrepareVote::Yes { .. }, true) => {
                        let drops = pre.get(&tx).is_some_and(|held| !held.iter().all(|k| keys.contains(k)));
                        if drops {
                            // The property does not say whether a transaction that is prepared again with OTHER keys keeps the
                            // keys only its earlier request locked (union) or gives them back at once (latest request only): both
                            // are accepted, whichever the engine shows now is the model from here on.
                            rekeyed = true;
                            let mut latest = m.clone();
                            latest.insert(tx, keys.iter().cloned().collect());
                            if p_observe(&p) == p_expect(&latest) { m = latest; } else { m.entry(tx).or_default().extend(keys.iter().cloned()); }
                        } else {
                            m.entry(tx).or_default().extend(keys.iter().cloned());
                        }
                    },
                    (PrepareVote::Conflict { conflicting_tx, .. }, false) if blockers.contains(conflicting_tx) => {},
                    _ => why.push(format!("prepare({tx}, {keys:?}) voted {}, the keys are held by other prepared transactions {blockers:?}: expected {}",
                                          match &vote { PrepareVote::Yes { .. } => "Yes".to_string(), PrepareVote::Conflict { conflicting_tx, .. } => format!("Conflict({conflicting_tx})"), o => format!("{o:?}") },
                                          if blockers.is_empty() { "Yes".to_string() } else { "Conflict with one of them".to_string() })),
                }
            },
            POp::Commit(tx) => {
                let r = p.commit(tx);
                if pre.contains_key(&tx) && !r.success { why.push(format!("commit({tx}) of a prepared transaction failed: {:?}", r.error)); }
                m.remove(&tx);
            },
            POp::Abort(tx) => { let _ = p.abort(tx); m.remove(&tx); },
            POp::Timeout => {
                let got: BTreeSet<u64> = p.cleanup_stale(Duration::ZERO).into_iter().collect();
                let want: BTreeSet<u64> = pre.keys().copied().collect();
                if got != want { why.push(format!("cleanup_stale(0 s) timed out {got:?}, prepared were {want:?}")); }
                m.clear();
            },
            POp::NoTimeout => {
                let got = p.cleanup_stale(Duration::from_secs(3600));
                if !got.is_empty() { why.push(format!("cleanup_stale(3600 s) timed out {got:?}")); }
            },
        }
        let (real, want) = (p_observe(&p), p_expect(&m));
        if real != want { why.push(format!("after step #{i} {}: view {real:?} != model {want:?}", pop_json(op))); }
        if i < last {
            if !why.is_empty() { return None; }
            continue;
        }
        // a fresh transaction on every key: granted iff the key is free
        {
            for (ki, k) in KEYS.iter().enumerate() {
                let holder = p_holder(&m, k);
                let vote = p.prepare(p_request(PROBE_TX + ki as u64, &[(*k).to_string()]));
                let good = match (&vote, holder) {
                    (PrepareVote::Yes { .. }, None) => true,
                    (PrepareVote::Conflict { conflicting_tx, .. }, Some(h)) => *conflicting_tx == h,
                    _ => false,
                };
                if !good {
                    why.push(format!("after step #{i} {}: a fresh transaction preparing key {k:?} got {}, the model says the key is {}",
                                     pop_json(op), match &vote { PrepareVote::Yes { .. } => "Yes".to_string(), PrepareVote::Conflict { conflicting_tx, .. } => format!("Conflict({conflicting_tx})"), o => format!("{o:?}") },
                                     holder.map_or("free (its holder committed / aborted / timed out, or it was never locked)".to_string(), |h| format!("held by prepared transaction {h}"))));
                }
            }
        }
        return Some(PEval { ok: why.is_empty(), detail: why.join(" | "), rekeyed, nontrivial });
    }
    None
}

fn pseq_json(seq: &[POp]) -> Value { json!({"pops": seq.iter().map(|o| pop_json(*o)).collect::<Vec<_>>()}) }

/// true = the script is a case and its clause holds (only such scripts are extended)
fn pfeed(rep: &mut Report, store: &TensorStore, seq: &[POp]) -> bool {
    let Some(e) = eval_pseq(store, seq) else { return false };
    rep.eval(e.nontrivial);
    rep.check(if e.rekeyed { PART_REKEY } else { PART }, e.ok, &|| pseq_json(seq), &|| e.detail.clone());
    e.ok
}

fn pdfs(rep: &mut Report, store: &TensorStore, alpha: &[POp], cur: &mut Vec<POp>, maxlen: usize, min_report: usize) {
    for &op in alpha {
        cur.push(op);
        // scripts shorter than min_report were already evaluated by a wider enumeration
        let go = if cur.len() >= min_report { pfeed(rep, store, cur) } else { true };
        if go && cur.len() < maxlen { pdfs(rep, store, alpha, cur, maxlen, min_report); }
        cur.pop();
    }
}

// ------------------------------------------------------------------------------------------------

pub fn run(tier: Tier, seed: u64) -> Report {
    let thorough = tier == Tier::Thorough;
    let dom = if thorough {
        "lock ops: every call sequence of length <= 4 over the full alphabet (68 ops: 3 tx x 3 keys, all 7 key subsets, try_lock / try_lock_with_wait_tracking / release / release_by_handle[_with_wait_cleanup] on each earlier grant or an unknown handle / cleanup_expired[_with_wait_cleanup] / expire key / expire tx / restore / add_wait), contract evaluated on the last call; plus 100000 seeded random sequences of length 5-8 (every prefix evaluated; not exhaustive). cycles: every digraph without self loops on <= 5 transactions (2^20) x 5 victim policies; 20000 seeded digraphs each on 6, 7, 8 transactions (not exhaustive). expiry: 4 acquisition times x 5 timeouts"
    } else {
        "lock ops: every call sequence of length <= 3 over the full alphabet (68 ops: 3 tx x 3 keys, all 7 key subsets, try_lock / try_lock_with_wait_tracking / release / release_by_handle[_with_wait_cleanup] on each earlier grant or an unknown handle / cleanup_expired[_with_wait_cleanup] / expire key / expire tx / restore / add_wait) and every sequence of length 4 over the 3 tx x 2 keys sub-alphabet (43 ops), contract evaluated on the last call. cycles: every digraph without self loops on <= 4 transactions (4096 + 64 + 4 + 1) x 5 victim policies. expiry: 4 acquisition times x 5 timeouts"
    };
    let dom = &format!("{dom}. participant: every script of length <= {} over the full participant alphabet (29 letters: prepare(tx, S) for 3 tx x 7 key subsets, commit / abort per tx, cleanup_stale(0 s), cleanup_stale(3600 s)), of length <= {} over the 3 tx x 2 keys sub-alphabet (17 letters) and of length <= {} over the 2 tx x 2 keys sub-alphabet (12 letters), a script being extended only while its clause holds; whole public view compared with the ghost model after every step, a fresh transaction prepares each key after the last step{}",
        if thorough { 4 } else { 3 }, if thorough { 5 } else { 4 }, if thorough { 6 } else { 5 },
        if thorough { "; plus 100000 seeded random scripts of length 6-10 over the full alphabet (every prefix evaluated; not exhaustive)" } else { "" });
    let mut rep = Report::new("c12_locks", dom, true, &[
        "tensor_chain::distributed_tx::LockManager::{with_default_timeout, try_lock, try_lock_with_wait_tracking, release, release_by_handle, release_by_handle_with_wait_cleanup, cleanup_expired, cleanup_expired_with_wait_cleanup, is_locked, lock_holder, active_lock_count, keys_for_transaction, lock_count_for_transaction, to_serializable, from_serializable}",
        "tensor_chain::distributed_tx::KeyLock::is_expired",
        "tensor_chain::deadlock::WaitForGraph::{add_wait, remove_transaction, detect_cycles, would_create_cycle, waiting_for, waiting_on, edge_count}",
        "tensor_chain::deadlock::DeadlockDetector::{detect, select_victim}",
        "tensor_chain::distributed_tx::TxParticipant::{new, prepare, commit, abort, cleanup_stale, get_awaiting_decision, prepared_count}",
    ]);
    rep.declare(GRANT, "LockManager::{try_lock, try_lock_with_wait_tracking}");
    rep.declare(WAIT, "LockManager::try_lock_with_wait_tracking");
    rep.declare(RELEASE, "LockManager::{release, release_by_handle, release_by_handle_with_wait_cleanup, cleanup_expired, cleanup_expired_with_wait_cleanup}");
    rep.declare(REPINV, "LockManager (all operations) + to_serializable/from_serializable");
    rep.declare(CYCLE, "WaitForGraph::{detect_cycles, would_create_cycle}, DeadlockDetector::detect");
    rep.declare(VICTIM, "DeadlockDetector::{detect, select_victim}");
    rep.declare(EXPIRY, "KeyLock::is_expired");
    rep.declare(PART, "TxParticipant::{prepare, commit, abort, cleanup_stale} + LockManager::{is_locked, lock_holder, active_lock_count, keys_for_transaction}");
    rep.declare(PART_REKEY, "TxParticipant::{prepare, commit, abort, cleanup_stale} after a re-prepare that drops a held key");

    // part 1: lock operations
    let full = alphabet(3, 3, 3);
    let mut cur = vec![];
    if thorough {
        for len in 1..=4 { dfs(&mut rep, &full, &mut cur, len, len); }
        let mut rng = Rng(seed ^ 0xC12);
        for _ in 0..100_000 {
            let len = 5 + rng.below(4) as usize;
            let mut seq: Vec<Op> = vec![];
            while seq.len() < len {
                let op = full[rng.below(full.len() as u64) as usize];
                seq.push(op);
                if !feed(&mut rep, &seq) { seq.pop(); }
            }
        }
    } else {
        // shortest sequences first, so that the first recorded failing cases are minimal
        for len in 1..=3 { dfs(&mut rep, &full, &mut cur, len, len); }
        dfs(&mut rep, &alphabet(3, 2, 3), &mut cur, 4, 4);
    }
    rep.sample(seq_json(&[Op::Lock(1, 0b011), Op::ExpireKey(0), Op::LockW(2, 0b111)]));
    rep.sample(seq_json(&[Op::Lock(1, 0b001), Op::Lock(2, 0b010), Op::LockW(1, 0b010), Op::RelHW(0)]));

    // part 2: cycles
    let nmax = if thorough { 5 } else { 4 };
    for n in 1..=nmax {
        let m = n * (n - 1);
        for mask in 0..(1u64 << m) { feed_graph(&mut rep, n, mask); }
    }
    if thorough {
        let mut rng = Rng(seed ^ 0xC12C);
        for n in 6..=8u64 {
            let m = n * (n - 1);
            for i in 0..20_000 {
                // sparse and dense graphs alike: and two or three random words for the sparse ones
                let mut mask = rng.next();
                for _ in 0..(i % 3) { mask &= rng.next(); }
                feed_graph(&mut rep, n, mask & ((1u64 << m) - 1));
            }
        }
    }
    rep.sample(json!({"n": 3, "mask": 0b010_010, "policy": 2}));

    // part 3: expiry arithmetic
    for acq in ACQ { for tmo in TMO {
        let (ok, d) = eval_expiry(acq, tmo);
        rep.eval(true);
        rep.check(EXPIRY, ok, &|| json!({"acquired_at_ms": acq.to_string(), "timeout_ms": tmo.to_string()}), &|| d.clone());
    } }

    // part 4: the participant API (one store, emptied before every script: creating a TensorStore is slow)
    {
        let store = TensorStore::new();
        let mut cur = vec![];
        let (l3, l32, l22) = if thorough { (4, 5, 6) } else { (3, 4, 5) };
        // shortest scripts first, so that the first recorded failing cases are minimal
        for len in 1..=l3 { pdfs(&mut rep, &store, &palphabet(3, 3), &mut cur, len, len); }
        pdfs(&mut rep, &store, &palphabet(3, 2), &mut cur, l32, l3 + 1);
        for len in (l32 + 1)..=l22 { pdfs(&mut rep, &store, &palphabet(2, 2), &mut cur, len, len); }
        if thorough {
            let full = palphabet(3, 3);
            let mut rng = Rng(seed ^ 0xC12_9A87);
            for _ in 0..100_000 {
                let len = 6 + rng.below(5) as usize;
                let mut seq: Vec<POp> = vec![];
                while seq.len() < len {
                    seq.push(full[rng.below(full.len() as u64) as usize]);
                    if !pfeed(&mut rep, &store, &seq) { break; }
                }
            }
        }
        rep.sample(pseq_json(&[POp::Prepare(1, 0b011), POp::Prepare(1, 0b011), POp::Prepare(1, 0b011), POp::Commit(1), POp::Prepare(2, 0b001)]));
        rep.sample(pseq_json(&[POp::Prepare(1, 0b001), POp::Prepare(2, 0b010), POp::Timeout, POp::Prepare(3, 0b011)]));
    }
    rep
}

pub fn replay(ob: &str, case: &Value) -> Result<String, String> {
    if let Some(ops) = case.get("pops") {
        let seq: Vec<POp> = ops.as_array().ok_or("pops must be an array")?.iter().map(pop_parse).collect::<Result<_, _>>()?;
        if seq.is_empty() { return Err("empty script".into()); }
        let e = eval_pseq(&TensorStore::new(), &seq).ok_or("a proper prefix of this script already diverges from the model (it is its own case)")?;
        let mine = if e.rekeyed { PART_REKEY } else { PART };
        if ob != mine { return Err(format!("this script belongs to obligation {mine}, not {ob}")); }
        return if e.ok { Ok(format!("view == model after every step of {} and the fresh prepares are granted exactly on the free keys", pseq_json(&seq))) } else { Err(e.detail) };
    }
    if let Some(ops) = case.get("ops") {
        let seq: Vec<Op> = ops.as_array().ok_or("ops must be an array")?.iter().map(op_parse).collect::<Result<_, _>>()?;
        let (verdicts, _) = eval_seq(&seq).ok_or("the sequence refers to a handle that was never granted")?;
        let mine: Vec<_> = verdicts.iter().filter(|(o, _, _)| *o == ob).collect();
        if mine.is_empty() { return Err(format!("obligation {ob} does not apply to the last call of this sequence")); }
        match mine.iter().find(|(_, ok, _)| !ok) {
            Some((_, _, d)) => Err(d.clone()),
            None => Ok(format!("{} clause(s) of {ob} hold after {:?}", mine.len(), seq.last())),
        }
    } else if let Some(n) = case.get("n").and_then(Value::as_u64) {
        let mask = case["mask"].as_u64().ok_or("mask")?;
        if !(1..=8).contains(&n) { return Err("n must be 1..=8".into()); }
        let mut res = vec![];
        if let Some(p) = case.get("policy").and_then(Value::as_u64) {
            let (ok1, d1, ok2, d2) = eval_victim(n, mask, (p as usize) % POLICIES.len());
            if ob == VICTIM { res.push((ok2, d2)); } else { res.push((ok1, d1)); }
        } else {
            let (ok1, d1, ok2, d2) = eval_graph(n, mask);
            res.push((ok1, d1));
            res.push((ok2, d2));
        }
        match res.iter().find(|(ok, _)| !ok) {
            Some((_, d)) => Err(d.clone()),
            None => Ok(format!("{ob} holds on digraph n={n} edges {:?}", edges_of(n, mask))),
        }
    } else {
        let p = |k: &str| case[k].as_str().and_then(|s| s.parse::<u64>().ok()).ok_or_else(|| format!("field {k}"));
        let (ok, d) = eval_expiry(p("acquired_at_ms")?, p("timeout_ms")?);
        if ok { Ok(d) } else { Err(d) }
    }
}
