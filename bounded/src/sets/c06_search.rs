//! C06 (bounded): similarity search returns the true nearest stored vectors.
//!
//! Code under contract: `VectorEngine::{store_embedding, get_embedding, delete_embedding,
//! search_similar, search_similar_with_metric, build_and_cache_index, build_hnsw_index,
//! search_with_hnsw}` and `HNSWIndex::{insert, search, search_with_ef}`.
//!
//! A *scenario* is (base store, op sequence); a *probe* is (api, query, k).  The contract keeps its
//! own model (key -> vector), applies every op to the model and to the real engine and then judges
//! the real search result against the model:
//!   * no approximate index built from the current data  => EXACT clause (`pred_exact`): exactly
//!     min(k, #stored vectors of the query's dimension) results, keys distinct, each currently
//!     stored with the query's dimension, each score equal (1e-5 relative) to the metric recomputed
//!     by `ref_*` (straight-line f32, same accumulation order as the engine: 8 lanes + tail),
//!     scores non-increasing, no non-returned eligible key scores better than the last returned.
//!   * index built from exactly the current data => APPROXIMATE clause (`pred_approx`): <= k,
//!     distinct, ordered, each key currently stored, of the query's dimension, true cosine score
//!     (|d| <= 1e-5 absolute: the index reports 1-(1-cos), scale is [-1,1]).
//! Score tolerance beyond that and HNSW recall are NOT covered.
//!
//! Input classes that the property quantifies over but that fail for a reason of their own are kept
//! under separate ids so that the main obligations stay attributable:
//!   C06.hnsw.cache.other_writers  data changed after the build by store_embedding_with_metadata /
//!                                 batch_store / batch_delete / clear (EXACT clause must hold)
//!   C06.hnsw.results.query_dim    fresh index, query of another dimension than the indexed vectors
//!   C06.hnsw.results.keys         fresh index, keys of unusual shape ("emb:x", "", unicode)
//!   C06.hnsw.results.index_api    HNSWIndex::{insert,search,search_with_ef} directly, 3 metrics
//!   C06.search.structure.underflow_query  non-zero query whose squared norm underflows in f32
//!   C06.store.negzero_numeric     vectors with -0.0 components: numeric equality only (sign of
//!                                 zero may be lost by the sparse representation; reported as sample)
//!
//! Domain (quick): alphabet {0, 1, -1, 0.5, 1e-20}; per-dimension vector pools (dim 1: all 5,
//! dim 2: 12, dim 3: 8, dim 8: 9 incl. 87.5 %-sparse, dim 64: 5 incl. 98 %/97 %-sparse), every
//! multiset of <= 5 (dim 1) / 4 (dims 2,3,8) / 3 (dim 64) pool vectors, mixed-dimension multisets
//! of <= 4 out of 8; every non-zero pool vector as query; k in {1,2,n,n+1}; search_similar and
//! search_similar_with_metric x {Cosine, Euclidean, DotProduct}; every op sequence of length <= 3
//! over {store(a|b|c, 5 vectors), delete(a|b|c), build_and_cache_index} from 2 base stores.
use crate::fw::{Report, Rng, Tier};
use serde_json::{json, Value};
use std::collections::{BTreeMap, BTreeSet, HashMap};
use std::panic::{catch_unwind, AssertUnwindSafe};
use tensor_store::{HNSWConfig, HNSWDistanceMetric, HNSWIndex, ScalarValue, TensorValue};
use vector_engine::{DistanceMetric, EmbeddingInput, SearchResult, VectorEngine};

const T: f32 = 1e-20;
const ALPHA: [f32; 5] = [0.0, 1.0, -1.0, 0.5, T];

const OB_STORE: &str = "C06.store.exact";
const OB_NEGZ: &str = "C06.store.negzero_numeric";
const OB_STRUCT: &str = "C06.search.structure";
const OB_STALE: &str = "C06.search.no_stale";
const OB_HRES: &str = "C06.hnsw.results";
const OB_HDIRECT: &str = "C06.hnsw.results.index_api";
const OB_HDIM: &str = "C06.hnsw.results.query_dim";
const OB_HKEYS: &str = "C06.hnsw.results.keys";
const OB_TINYQ: &str = "C06.search.structure.underflow_query";
const OB_HCACHE: &str = "C06.hnsw.cache";
const OB_HOTHER: &str = "C06.hnsw.cache.other_writers";

// ---------------------------------------------------------------- reference metric (contract side)

/// 8 lanes over full chunks, lanes summed in order, then the tail: the accumulation order of the
/// engine's kernel; for dim < 16 this is the plain left-to-right loop.
fn ref_dot(a: &[f32], b: &[f32]) -> f32 {
    let chunks = a.len() / 8;
    let mut lanes = [0f32; 8];
    for c in 0..chunks { for j in 0..8 { lanes[j] += a[c * 8 + j] * b[c * 8 + j]; } }
    let mut r = 0f32;
    for l in lanes { r += l; }
    for i in chunks * 8..a.len() { r += a[i] * b[i]; }
    r
}
fn ref_mag(v: &[f32]) -> f32 { ref_dot(v, v).sqrt() }
fn ref_cos(q: &[f32], v: &[f32]) -> f32 {
    let (d, mq, mv) = (ref_dot(q, v), ref_mag(q), ref_mag(v));
    if mq == 0.0 || mv == 0.0 { 0.0 } else { d / (mq * mv) }
}
fn ref_dist_seq(q: &[f32], v: &[f32]) -> f32 {
    let mut s = 0f32;
    for i in 0..q.len() { let d = q[i] - v[i]; s += d * d; }
    s.sqrt()
}
fn ref_dist_lanes(a: &[f32], b: &[f32]) -> f32 {
    let chunks = a.len() / 8;
    let mut lanes = [0f32; 8];
    for c in 0..chunks { for j in 0..8 { let d = a[c * 8 + j] - b[c * 8 + j]; lanes[j] += d * d; } }
    let mut r = 0f32;
    for l in lanes { r += l; }
    for i in chunks * 8..a.len() { let d = a[i] - b[i]; r += d * d; }
    r.sqrt()
}
fn cos64(q: &[f32], v: &[f32]) -> f64 {
    let (mut d, mut a, mut b) = (0f64, 0f64, 0f64);
    for i in 0..q.len() { let (x, y) = (f64::from(q[i]), f64::from(v[i])); d += x * y; a += x * x; b += y * y; }
    if a == 0.0 || b == 0.0 { 0.0 } else { d / (a.sqrt() * b.sqrt()) }
}

#[derive(Clone, Copy, PartialEq, Debug)]
enum Api { Similar, Metric(DistanceMetric) }
const APIS: [Api; 4] = [Api::Similar, Api::Metric(DistanceMetric::Cosine), Api::Metric(DistanceMetric::Euclidean), Api::Metric(DistanceMetric::DotProduct)];
impl Api {
    fn name(self) -> &'static str {
        match self { Api::Similar => "similar", Api::Metric(DistanceMetric::Cosine) => "cosine",
                     Api::Metric(DistanceMetric::Euclidean) => "euclidean", Api::Metric(DistanceMetric::DotProduct) => "dot" }
    }
    fn parse(s: &str) -> Api { APIS.into_iter().find(|a| a.name() == s).unwrap_or(Api::Similar) }
    fn score(self, q: &[f32], v: &[f32]) -> f32 {
        match self {
            Api::Similar | Api::Metric(DistanceMetric::Cosine) => ref_cos(q, v),
            Api::Metric(DistanceMetric::Euclidean) => 1.0 / (1.0 + ref_dist_seq(q, v)),
            Api::Metric(DistanceMetric::DotProduct) => ref_dot(q, v),
        }
    }
}

fn close_rel(got: f32, exp: f32) -> bool { got == exp || (got - exp).abs() <= 1e-5 * exp.abs() }
fn close_abs(got: f32, exp: f32) -> bool { got == exp || (got - exp).abs() <= 1e-5 * exp.abs().max(1.0) }

type Model = BTreeMap<String, Vec<f32>>;

fn pred_exact(model: &Model, api: Api, q: &[f32], k: usize, res: &[SearchResult]) -> Result<(), String> {
    let elig: Vec<(&String, &Vec<f32>)> = model.iter().filter(|(_, v)| v.len() == q.len()).collect();
    let want = k.min(elig.len());
    let mut seen = BTreeSet::new();
    for r in res {
        if !seen.insert(r.key.clone()) { return Err(format!("key {:?} returned twice: {res:?}", r.key)); }
        let Some(v) = model.get(&r.key) else { return Err(format!("key {:?} is not currently stored (deleted or never stored): {res:?}", r.key)); };
        if v.len() != q.len() { return Err(format!("key {:?} has dimension {} but the query has {}", r.key, v.len(), q.len())); }
        let e = api.score(q, v);
        if !close_rel(r.score, e) { return Err(format!("key {:?} reported with score {:e}, but the metric on its current vector {v:?} is {e:e}", r.key, r.score)); }
    }
    if res.len() != want { return Err(format!("{} results, expected min(k={k}, eligible={}) = {want}: {res:?}", res.len(), elig.len())); }
    for w in res.windows(2) { if !(w[0].score >= w[1].score) { return Err(format!("scores not non-increasing: {res:?}")); } }
    if let Some(last) = res.last() {
        for (key, v) in &elig {
            if seen.contains(*key) { continue; }
            let e = api.score(q, v);
            if !(e <= last.score + 1e-5 * e.abs().max(last.score.abs())) {
                return Err(format!("non-returned key {key:?} (vector {v:?}) scores {e:e} > last returned {:e}: {res:?}", last.score));
            }
        }
    }
    Ok(())
}

fn pred_approx(model: &Model, q: &[f32], k: usize, res: &[SearchResult]) -> Result<(), String> {
    if res.len() > k { return Err(format!("{} results > k={k}", res.len())); }
    let mut seen = BTreeSet::new();
    for r in res {
        if !seen.insert(r.key.clone()) { return Err(format!("key {:?} returned twice: {res:?}", r.key)); }
        let Some(v) = model.get(&r.key) else { return Err(format!("key {:?} is not a currently stored key: {res:?}", r.key)); };
        if v.len() != q.len() { return Err(format!("key {:?} has dimension {} but the query has {} (no true score exists): {res:?}", r.key, v.len(), q.len())); }
        let e = ref_cos(q, v);
        if !close_abs(r.score, e) { return Err(format!("key {:?} reported with score {:e}, true cosine on its current vector {v:?} is {e:e}", r.key, r.score)); }
    }
    for w in res.windows(2) { if !(w[0].score >= w[1].score) { return Err(format!("scores not non-increasing: {res:?}")); } }
    Ok(())
}

fn pred_no_stale(model: &Model, api: Api, q: &[f32], res: &[SearchResult]) -> Result<(), String> {
    for r in res {
        let Some(v) = model.get(&r.key) else { return Err(format!("deleted/unknown key {:?} returned: {res:?}", r.key)); };
        if v.len() == q.len() && !close_rel(r.score, api.score(q, v)) {
            return Err(format!("key {:?} scored {:e}, its current (overwritten) vector {v:?} gives {:e}", r.key, r.score, api.score(q, v)));
        }
    }
    Ok(())
}

// ---------------------------------------------------------------- scenarios

#[derive(Clone, Debug)]
enum Op {
    Store(String, Vec<f32>),
    Delete(String),
    Build,
    StoreMeta(String, Vec<f32>),
    BatchStore(Vec<(String, Vec<f32>)>),
    BatchDelete(Vec<String>),
    Clear,
}

fn fv(v: &[f32]) -> Value { Value::Array(v.iter().map(|x| json!(f64::from(*x))).collect()) }
fn pv(v: &Value) -> Vec<f32> { v.as_array().map(|a| a.iter().map(|x| x.as_f64().unwrap_or(0.0) as f32).collect()).unwrap_or_default() }
fn kv_json(items: &[(String, Vec<f32>)]) -> Value { Value::Array(items.iter().map(|(k, v)| json!([k, fv(v)])).collect()) }
fn kv_parse(v: &Value) -> Vec<(String, Vec<f32>)> {
    v.as_array().map(|a| a.iter().map(|e| (e[0].as_str().unwrap_or("").to_string(), pv(&e[1]))).collect()).unwrap_or_default()
}

impl Op {
    fn to_json(&self) -> Value {
        match self {
            Op::Store(k, v) => json!({"op": "store", "key": k, "v": fv(v)}),
            Op::Delete(k) => json!({"op": "delete", "key": k}),
            Op::Build => json!({"op": "build_and_cache_index"}),
            Op::StoreMeta(k, v) => json!({"op": "store_with_metadata", "key": k, "v": fv(v)}),
            Op::BatchStore(items) => json!({"op": "batch_store", "items": kv_json(items)}),
            Op::BatchDelete(keys) => json!({"op": "batch_delete", "keys": keys}),
            Op::Clear => json!({"op": "clear"}),
        }
    }
    fn parse(j: &Value) -> Op {
        let key = || j["key"].as_str().unwrap_or("").to_string();
        match j["op"].as_str().unwrap_or("") {
            "store" => Op::Store(key(), pv(&j["v"])),
            "delete" => Op::Delete(key()),
            "store_with_metadata" => Op::StoreMeta(key(), pv(&j["v"])),
            "batch_store" => Op::BatchStore(kv_parse(&j["items"])),
            "batch_delete" => Op::BatchDelete(j["keys"].as_array().map(|a| a.iter().map(|s| s.as_str().unwrap_or("").to_string()).collect()).unwrap_or_default()),
            "clear" => Op::Clear,
            _ => Op::Build,
        }
    }
}

#[derive(Default)]
struct Spec {
    model: Model,
    built: bool,  // an index was built and cached at some point
    fresh: bool,  // ... and the data did not change since
    other: bool,  // data changed since the build through a writer other than store_embedding/delete_embedding
    touched: bool, // some existing key was deleted or overwritten with a different vector
}

impl Spec {
    fn put(&mut self, k: &str, v: &[f32], other: bool) {
        let old = self.model.insert(k.to_string(), v.to_vec());
        let changed = old.as_deref().map(|o| bits(o) != bits(v)).unwrap_or(true);
        if old.is_some() && changed { self.touched = true; }
        if changed { self.fresh = false; if other && self.built { self.other = true; } }
    }
    fn del(&mut self, k: &str, other: bool) {
        if self.model.remove(k).is_some() { self.touched = true; self.fresh = false; if other && self.built { self.other = true; } }
    }
}

fn bits(v: &[f32]) -> Vec<u32> { v.iter().map(|x| x.to_bits()).collect() }

fn apply(e: &VectorEngine, s: &mut Spec, op: &Op) -> Result<(), String> {
    match op {
        Op::Store(k, v) => { e.store_embedding(k, v.clone()).map_err(|x| format!("store_embedding({k:?},{v:?}) = Err({x})"))?; s.put(k, v, false); },
        Op::Delete(k) => {
            let had = s.model.contains_key(k);
            let r = e.delete_embedding(k);
            if r.is_ok() != had { return Err(format!("delete_embedding({k:?}) = {r:?} but key stored = {had}")); }
            s.del(k, false);
        },
        Op::Build => {
            // Err is legitimate (mixed dimensions): then no index is cached
            if e.build_and_cache_index(HNSWConfig::default()).is_ok() { s.built = true; s.fresh = true; s.other = false; }
        },
        Op::StoreMeta(k, v) => {
            let mut m = HashMap::new();
            m.insert("tag".to_string(), TensorValue::Scalar(ScalarValue::Int(1)));
            e.store_embedding_with_metadata(k, v.clone(), m).map_err(|x| format!("store_embedding_with_metadata = Err({x})"))?;
            s.put(k, v, true);
        },
        Op::BatchStore(items) => {
            e.batch_store_embeddings(items.iter().map(|(k, v)| EmbeddingInput::new(k.clone(), v.clone())).collect()).map_err(|x| format!("batch_store_embeddings = Err({x})"))?;
            for (k, v) in items { s.put(k, v, true); }
        },
        Op::BatchDelete(keys) => {
            e.batch_delete_embeddings(keys.clone()).map_err(|x| format!("batch_delete_embeddings = Err({x})"))?;
            for k in keys { s.del(k, true); }
        },
        Op::Clear => {
            e.clear().map_err(|x| format!("clear = Err({x})"))?;
            let keys: Vec<String> = s.model.keys().cloned().collect();
            for k in keys { s.del(&k, true); }
        },
    }
    Ok(())
}

fn reset(e: &VectorEngine) {
    e.store().clear();
    e.invalidate_hnsw_cache("_default");
}

fn setup(e: &VectorEngine, base: &[(String, Vec<f32>)], ops: &[Op]) -> Result<Spec, String> {
    let mut s = Spec::default();
    for (k, v) in base { apply(e, &mut s, &Op::Store(k.clone(), v.clone()))?; }
    s.touched = false;
    for op in ops { apply(e, &mut s, op)?; }
    Ok(s)
}

fn do_search(e: &VectorEngine, api: Api, q: &[f32], k: usize) -> Result<Vec<SearchResult>, String> {
    let r = catch_unwind(AssertUnwindSafe(|| match api {
        Api::Similar => e.search_similar(q, k),
        Api::Metric(m) => e.search_similar_with_metric(q, k, m),
    }));
    match r {
        Ok(Ok(v)) => Ok(v),
        Ok(Err(x)) => Err(format!("search returned Err({x})")),
        Err(p) => Err(format!("search panicked: {}", p.downcast_ref::<String>().cloned().or_else(|| p.downcast_ref::<&str>().map(|s| (*s).to_string())).unwrap_or_default())),
    }
}

/// Which obligations a probe decides, and the verdicts.
/// `class`: "" (regular), "keys" (keys of unusual shape under a fresh index), "underflow" (non-zero query whose f32 squared norm underflows)
fn judge(e: &VectorEngine, s: &Spec, api: Api, q: &[f32], k: usize, class: &str) -> Vec<(&'static str, Result<(), String>)> {
    let res = do_search(e, api, q, k);
    let mut out = vec![];
    if api == Api::Similar && s.built && s.fresh {
        let dim_ok = s.model.values().all(|v| v.len() == q.len());
        let ob = if class == "keys" { OB_HKEYS } else if dim_ok { OB_HRES } else { OB_HDIM };
        out.push((ob, res.and_then(|r| pred_approx(&s.model, q, k, &r))));
    } else if api == Api::Similar && s.built {
        out.push((if s.other { OB_HOTHER } else { OB_HCACHE }, res.and_then(|r| pred_exact(&s.model, api, q, k, &r))));
    } else if class == "underflow" {
        out.push((OB_TINYQ, res.and_then(|r| pred_exact(&s.model, api, q, k, &r))));
    } else {
        if s.touched { out.push((OB_STALE, res.clone().and_then(|r| pred_no_stale(&s.model, api, q, &r)))); }
        out.push((OB_STRUCT, res.and_then(|r| pred_exact(&s.model, api, q, k, &r))));
    }
    out
}

fn scn_json(base: &[(String, Vec<f32>)], ops: &[Op], api: Api, q: &[f32], k: usize, class: &str) -> Value {
    let mut j = json!({"kind": "search", "base": kv_json(base), "ops": ops.iter().map(Op::to_json).collect::<Vec<_>>(), "api": api.name(), "q": fv(q), "k": k});
    if !class.is_empty() { j["class"] = json!(class); }
    j
}

struct Ctx { rep: Report, engine: VectorEngine, divergences: u64, max_dev64: f64, max_dev_case: Value }

impl Ctx {
    /// record a verdict; a failure seen on the shared (reset) engine is confirmed on a fresh engine
    fn record(&mut self, ob: &'static str, r: &Result<(), String>, case: &dyn Fn() -> Value) {
        match r {
            Ok(()) => self.rep.check(ob, true, case, &String::new),
            Err(d) => {
                let nfail = self.rep.obligations.get(ob).map(|o| o.failures.len()).unwrap_or(0);
                if nfail < 25 {
                    let c = case();
                    match replay(ob, &c) {
                        Err(d2) => self.rep.check(ob, false, &|| c.clone(), &|| d2.clone()),
                        Ok(_) => { self.divergences += 1; self.rep.check(ob, true, case, &String::new); let _ = d; },
                    }
                } else { self.rep.check(ob, false, case, &|| d.clone()); }
            },
        }
    }

    fn scenario(&mut self, base: &[(String, Vec<f32>)], ops: &[Op], queries: &[Vec<f32>], apis: &[Api], class: &str) {
        reset(&self.engine);
        let spec = match setup(&self.engine, base, ops) {
            Ok(s) => s,
            Err(d) => { self.rep.check(OB_STRUCT, false, &|| scn_json(base, ops, Api::Similar, &[], 0, class), &|| format!("setup failed: {d}")); return; },
        };
        let n = spec.model.len();
        let mut ks = vec![1usize, 2, n, n + 1];
        ks.retain(|k| *k > 0);
        ks.sort_unstable();
        ks.dedup();
        for q in queries {
            for &api in apis {
                for &k in &ks {
                    let verdicts = judge(&self.engine, &spec, api, q, k, class);
                    let nontrivial = spec.model.values().any(|v| v.len() == q.len());
                    self.rep.eval(nontrivial);
                    for (ob, r) in &verdicts { self.record(ob, r, &|| scn_json(base, ops, api, q, k, class)); }
                }
            }
            // observation: deviation of the f32 cosine from the f64 value (not an obligation)
            for v in spec.model.values().filter(|v| v.len() == q.len()) {
                let (a, b) = (f64::from(ref_cos(q, v)), cos64(q, v));
                let dev = (a - b).abs();
                if dev > self.max_dev64 { self.max_dev64 = dev; self.max_dev_case = json!({"q": fv(q), "v": fv(v), "cos_f32": a, "cos_f64": b}); }
            }
        }
    }
}

// ---------------------------------------------------------------- domain

fn pool(dim: usize, tier: Tier) -> Vec<Vec<f32>> {
    let all = |d: usize| -> Vec<Vec<f32>> {
        let mut out = vec![vec![]];
        for _ in 0..d { out = out.into_iter().flat_map(|p: Vec<f32>| ALPHA.iter().map(move |a| { let mut x = p.clone(); x.push(*a); x })).collect(); }
        out
    };
    let e = |d: usize, p: usize, x: f32| { let mut v = vec![0f32; d]; v[p] = x; v };
    match dim {
        1 => all(1),
        2 if tier == Tier::Thorough => all(2),
        2 => vec![vec![0.0, 0.0], vec![1.0, 0.0], vec![0.0, 1.0], vec![1.0, 1.0], vec![-1.0, 0.0], vec![1.0, -1.0], vec![0.5, 1.0],
                  vec![T, 0.0], vec![T, 1.0], vec![0.5, 0.5], vec![-1.0, -1.0], vec![T, T]],
        3 => {
            let mut p = vec![vec![0.0, 0.0, 0.0], vec![1.0, 0.0, 0.0], vec![0.0, 0.0, 1.0], vec![1.0, 1.0, 1.0], vec![-1.0, 0.5, 0.0],
                             vec![T, 0.0, 1.0], vec![0.5, 0.5, -1.0], vec![0.0, T, 0.0]];
            if tier == Tier::Thorough { p.extend([vec![-1.0, -1.0, -1.0], vec![0.5, 0.0, 0.5], vec![T, T, T], vec![1.0, -1.0, T]]); }
            p
        },
        8 => {
            let mut p = vec![vec![0.0; 8], e(8, 0, 1.0), e(8, 7, 1.0), vec![1.0; 8], (0..8).map(|i| if i % 2 == 0 { 1.0 } else { -1.0 }).collect(),
                             vec![0.5; 8], e(8, 0, T), vec![T; 8], vec![1.0, 0.5, 0.0, -1.0, T, 0.0, 0.0, 1.0]];
            if tier == Tier::Thorough { p.extend([e(8, 3, -1.0), e(8, 7, 0.5), vec![-1.0; 8]]); }
            p
        },
        _ => {
            let mut two = vec![0f32; 64];
            two[10] = 0.5;
            two[63] = -1.0;
            let mut p = vec![vec![0.0; 64], e(64, 0, 1.0), two, (0..64).map(|i| ALPHA[(i * 3 + 1) % 5]).collect::<Vec<f32>>(), vec![1.0; 64]];
            if tier == Tier::Thorough { p.extend([e(64, 63, T), (0..64).map(|i| ALPHA[(i * 2 + 3) % 5]).collect::<Vec<f32>>()]); }
            p
        },
    }
}

fn multisets(n: usize, max: usize) -> Vec<Vec<usize>> {
    fn rec(n: usize, max: usize, from: usize, cur: &mut Vec<usize>, out: &mut Vec<Vec<usize>>) {
        out.push(cur.clone());
        if cur.len() == max { return; }
        for i in from..n { cur.push(i); rec(n, max, i, cur, out); cur.pop(); }
    }
    let mut out = vec![];
    rec(n, max, 0, &mut vec![], &mut out);
    out
}

fn is_zero(v: &[f32]) -> bool { v.iter().all(|x| *x == 0.0) }
fn keyed(vs: &[Vec<f32>]) -> Vec<(String, Vec<f32>)> { vs.iter().enumerate().map(|(i, v)| (format!("k{i}"), v.clone())).collect() }

// ---------------------------------------------------------------- store.exact

fn store_vectors() -> Vec<Vec<f32>> {
    let mut out = vec![];
    for d in 1..=3usize {
        let mut cur = vec![vec![]];
        for _ in 0..d { cur = cur.into_iter().flat_map(|p: Vec<f32>| ALPHA.iter().map(move |a| { let mut x = p.clone(); x.push(*a); x })).collect(); }
        out.extend(cur);
    }
    for d in [8usize, 64] {
        let ps: Vec<usize> = if d == 8 { (0..8).collect() } else { vec![0, 1, 31, 62, 63] };
        for &p in &ps { for x in &ALPHA[1..] { let mut v = vec![0f32; d]; v[p] = *x; out.push(v); } }           // 87.5 % / 98.4 % sparse
        for (p1, p2) in [(0usize, d - 1), (d / 2, d / 2 + 1)] { for (x, y) in [(1.0, -1.0), (0.5, T), (T, T), (-1.0, 0.5)] { let mut v = vec![0f32; d]; v[p1] = x; v[p2] = y; out.push(v); } } // 96.9 % sparse at d=64
        if d == 64 { for o in 0..4usize { let mut v = vec![0f32; 64]; for j in 0..6 { v[(o * 7 + j * 11) % 64] = ALPHA[1 + (o + j) % 4]; } out.push(v); } } // 6 non-zeros: 90.6 % sparse
        for o in 0..5usize { for s in 1..5usize { out.push((0..d).map(|i| ALPHA[(o + i * s) % 5]).collect()); } }   // dense / mixed
        for a in ALPHA { out.push(vec![a; d]); }
        out.push((0..d).map(|i| if i % 2 == 0 { 1.0 } else { 0.0 }).collect());                                 // exactly 50 % zeros (representation boundary)
        out.push((0..d).map(|i| if i % 2 == 0 || i == 1 { 0.5 } else { 0.0 }).collect());                       // just below 50 %
        out.push((0..d).map(|i| if i % 2 == 0 { 1.0 } else { T }).collect());                                   // tiny values count as "zero" for the choice
    }
    out
}

fn negzero_vectors() -> Vec<Vec<f32>> {
    let z = -0.0f32;
    let mut v64 = vec![0f32; 64];
    v64[5] = z;
    v64[6] = 1.0;
    vec![vec![z], vec![z, 1.0], vec![1.0, z], vec![z, 1.0, 1.0], vec![z, z, 1.0, 1.0], vec![1.0, z, 0.0, 0.0],
         vec![z; 8], vec![1.0, 1.0, 1.0, 1.0, 1.0, z, 1.0, 1.0], v64]
}

fn store_case(e: &VectorEngine, v: &[f32], pre: Option<&[f32]>) -> Result<Vec<f32>, String> {
    let other = vec![0.5f32, -1.0, T];
    e.store_embedding("y", other.clone()).map_err(|x| format!("store y: {x}"))?;
    if let Some(p) = pre { e.store_embedding("x", p.to_vec()).map_err(|x| format!("pre-store: {x}"))?; }
    e.store_embedding("x", v.to_vec()).map_err(|x| format!("store_embedding = Err({x})"))?;
    let got = e.get_embedding("x").map_err(|x| format!("get_embedding = Err({x})"))?;
    let y = e.get_embedding("y").map_err(|x| format!("get_embedding(y) = Err({x})"))?;
    if bits(&y) != bits(&other) { return Err(format!("frame: other key y changed to {y:?}")); }
    if e.count() != 2 || !e.exists("x") { return Err(format!("frame: count {} exists(x) {}", e.count(), e.exists("x"))); }
    Ok(got)
}

fn store_verdict(ob: &str, v: &[f32], got: &Result<Vec<f32>, String>) -> Result<String, String> {
    let g = got.as_ref().map_err(Clone::clone)?;
    if ob == OB_NEGZ {
        let ok = g.len() == v.len() && g.iter().zip(v).all(|(a, b)| if *b == 0.0 { *a == 0.0 } else { a.to_bits() == b.to_bits() });
        let lost = g.iter().zip(v).filter(|(a, b)| a.to_bits() != b.to_bits()).count();
        if ok { Ok(format!("numerically equal; {lost} component(s) read back with a different sign of zero")) } else { Err(format!("stored {v:?}, read back {g:?}")) }
    } else if bits(g) == bits(v) { Ok("bit-identical".into()) } else { Err(format!("stored {v:?} (bits {:x?}), read back {g:?} (bits {:x?})", bits(v), bits(g))) }
}

// ---------------------------------------------------------------- direct HNSWIndex

fn hm_name(m: HNSWDistanceMetric) -> &'static str { match m { HNSWDistanceMetric::Cosine => "cosine", HNSWDistanceMetric::Euclidean => "euclidean", HNSWDistanceMetric::DotProduct => "dot" } }
fn hm_parse(s: &str) -> HNSWDistanceMetric { match s { "euclidean" => HNSWDistanceMetric::Euclidean, "dot" => HNSWDistanceMetric::DotProduct, _ => HNSWDistanceMetric::Cosine } }

fn hnsw_direct(m: HNSWDistanceMetric, vs: &[Vec<f32>], q: &[f32], k: usize, ef: Option<usize>) -> Result<(), String> {
    let idx = HNSWIndex::with_config(HNSWConfig::default().with_distance_metric(m));
    for (i, v) in vs.iter().enumerate() {
        let id = idx.insert(v.clone());
        if id != i { return Err(format!("insert #{i} returned id {id}")); }
    }
    let r = catch_unwind(AssertUnwindSafe(|| match ef { Some(ef) => idx.search_with_ef(q, k, ef), None => idx.search(q, k) }))
        .map_err(|_| "search panicked".to_string())?;
    if r.len() > k { return Err(format!("{} results > k={k}", r.len())); }
    let mut seen = BTreeSet::new();
    for (id, s) in &r {
        if *id >= vs.len() { return Err(format!("id {id} was never inserted: {r:?}")); }
        if !seen.insert(*id) { return Err(format!("id {id} returned twice: {r:?}")); }
        let v = &vs[*id];
        let e = match m {
            HNSWDistanceMetric::Cosine => { let c = ref_cos(q, v); let d = if ref_mag(q) == 0.0 || ref_mag(v) == 0.0 { 1.0 } else { 1.0 - c }; 1.0 - d },
            HNSWDistanceMetric::Euclidean => 1.0 / (1.0 + ref_dist_lanes(v, q)),
            HNSWDistanceMetric::DotProduct => ref_dot(v, q),
        };
        if !close_abs(*s, e) { return Err(format!("id {id} reported {s:e}, metric recomputed on {v:?} = {e:e}")); }
    }
    for w in r.windows(2) { if !(w[0].1 >= w[1].1) { return Err(format!("not ordered best-first: {r:?}")); } }
    if ef.map(|e| e >= vs.len()).unwrap_or(true) && vs.len() <= 5 && r.is_empty() && !vs.is_empty() { return Err("non-empty index returned nothing".into()); }
    Ok(())
}

/// `build_hnsw_index` + `search_with_hnsw` (the explicit, un-cached way to use an index)
fn hnsw_explicit(e: &VectorEngine, model: &Model, q: &[f32], k: usize) -> Result<(), String> {
    let (idx, keys) = e.build_hnsw_index(HNSWConfig::default()).map_err(|x| format!("build_hnsw_index = Err({x})"))?;
    let r = catch_unwind(AssertUnwindSafe(|| e.search_with_hnsw(&idx, &keys, q, k))).map_err(|_| "search_with_hnsw panicked".to_string())?
        .map_err(|x| format!("search_with_hnsw = Err({x})"))?;
    pred_approx(model, q, k, &r)
}

// ---------------------------------------------------------------- run

pub fn run(tier: Tier, seed: u64) -> Report {
    let th = tier == Tier::Thorough;
    let rep = Report::new("c06_search",
        &format!("alphabet {{0,1,-1,0.5,1e-20}}; store/read-back: all vectors of dim 1..3, structured dense / 87-98 %-sparse / boundary vectors of dim 8 and 64, each fresh and as overwrite of a dense resp. sparse value; \
search without index: every multiset of <= {} pool vectors per dimension (pools: dim1 5, dim2 {}, dim3 {}, dim8 {}, dim64 {}) and mixed-dimension multisets of <= 4 of 8, every non-zero pool vector as query, k in {{1,2,n,n+1}}, search_similar + search_similar_with_metric x 3 metrics; \
op sequences: all of length <= {} over store(a|b|c x 5 vectors incl. zero and a 3-dim one) / delete(a|b|c) / build_and_cache_index from 2 base stores, queries incl. other-dimension ones; other writers (store_with_metadata, batch_store, batch_delete, clear) after a build; HNSWIndex insert/search/search_with_ef x 3 metrics on multisets of <= 3{}",
                 if th { "5" } else { "5/4/4/4/3" }, pool(2, tier).len(), pool(3, tier).len(), pool(8, tier).len(), pool(64, tier).len(),
                 if th { 4 } else { 3 }, if th { "; plus 20000 seeded random scenarios (not exhaustive)" } else { "" }),
        true,
        &["VectorEngine::store_embedding", "get_embedding", "delete_embedding", "search_similar", "search_similar_with_metric", "build_and_cache_index",
          "build_hnsw_index", "search_with_hnsw", "store_embedding_with_metadata", "batch_store_embeddings", "batch_delete_embeddings", "clear",
          "HNSWIndex::insert", "HNSWIndex::search", "HNSWIndex::search_with_ef"]);
    let mut cx = Ctx { rep, engine: VectorEngine::new(), divergences: 0, max_dev64: 0.0, max_dev_case: Value::Null };
    cx.rep.declare(OB_STORE, "VectorEngine::store_embedding/get_embedding");
    cx.rep.declare(OB_NEGZ, "VectorEngine::store_embedding/get_embedding");
    cx.rep.declare(OB_STRUCT, "VectorEngine::search_similar/search_similar_with_metric");
    cx.rep.declare(OB_STALE, "VectorEngine::search_similar/search_similar_with_metric");
    cx.rep.declare(OB_HRES, "VectorEngine::build_and_cache_index + search_similar, build_hnsw_index + search_with_hnsw");
    cx.rep.declare(OB_HDIRECT, "HNSWIndex::insert/search/search_with_ef");
    cx.rep.declare(OB_HDIM, "VectorEngine::search_similar with a cached index, query of another dimension");
    cx.rep.declare(OB_HKEYS, "VectorEngine::build_and_cache_index + search_similar, keys of unusual shape");
    cx.rep.declare(OB_TINYQ, "VectorEngine::search_similar/search_similar_with_metric, non-zero query with |q|^2 < f32 min");
    cx.rep.declare(OB_HCACHE, "VectorEngine::store_embedding/delete_embedding after build_and_cache_index");
    cx.rep.declare(OB_HOTHER, "VectorEngine::store_embedding_with_metadata/batch_*/clear after build_and_cache_index");

    // ---- A. read-back
    let mut negz_obs = vec![];
    for v in store_vectors() {
        for pre in [None, Some(vec![1.0f32; 3]), Some(vec![0.0, 0.0, 0.0, 1.0])] {
            reset(&cx.engine);
            let got = store_case(&cx.engine, &v, pre.as_deref());
            cx.rep.eval(v.iter().any(|x| *x == 0.0) || pre.is_some());
            let r = store_verdict(OB_STORE, &v, &got);
            cx.rep.check(OB_STORE, r.is_ok(), &|| json!({"kind": "store", "v": fv(&v), "pre": pre.as_deref().map(fv)}), &|| r.clone().err().unwrap_or_default());
        }
    }
    for v in negzero_vectors() {
        reset(&cx.engine);
        let got = store_case(&cx.engine, &v, None);
        cx.rep.eval(true);
        let r = store_verdict(OB_NEGZ, &v, &got);
        if let (Ok(g), Ok(_)) = (&got, &r) { negz_obs.push(json!({"stored": format!("{v:?}"), "read_back": format!("{g:?}"), "bit_identical": bits(g) == bits(&v)})); }
        cx.rep.check(OB_NEGZ, r.is_ok(), &|| json!({"kind": "store", "v": fv(&v), "pre": Value::Null}), &|| r.clone().err().unwrap_or_default());
    }
    cx.rep.sample(json!({"observation": "-0.0 components (not a failure: property does not forbid; numeric equality is checked)", "cases": negz_obs}));

    // ---- B. search without index over multisets
    let dims: [(usize, usize); 5] = if th { [(1, 5), (2, 4), (3, 5), (8, 5), (64, 4)] } else { [(1, 5), (2, 4), (3, 4), (8, 4), (64, 3)] };
    for (d, maxn) in dims {
        let p = pool(d, tier);
        let queries: Vec<Vec<f32>> = p.iter().filter(|v| !is_zero(v)).cloned().collect();
        for ms in multisets(p.len(), maxn) {
            let vs: Vec<Vec<f32>> = ms.iter().map(|i| p[*i].clone()).collect();
            cx.scenario(&keyed(&vs), &[], &queries, &APIS, "");
        }
    }
    {   // mixed dimensions
        let p: Vec<Vec<f32>> = vec![vec![1.0], vec![-1.0], vec![1.0, 0.0], vec![0.5, 1.0], vec![1.0, 0.0, 0.0], vec![0.0, T, 1.0], pool(8, tier)[1].clone(), pool(8, tier)[8].clone()];
        let queries = vec![vec![1.0], vec![0.5, 1.0], vec![T, 0.0], vec![1.0, 1.0, 0.0], pool(8, tier)[3].clone(), vec![1.0; 4]];
        for ms in multisets(p.len(), if th { 5 } else { 4 }) {
            let vs: Vec<Vec<f32>> = ms.iter().map(|i| p[*i].clone()).collect();
            cx.scenario(&keyed(&vs), &[], &queries, &APIS, "");
        }
    }
    cx.rep.sample(scn_json(&keyed(&[vec![1.0, 0.0], vec![T, 1.0]]), &[], Api::Metric(DistanceMetric::Euclidean), &[0.5, 1.0], 2, ""));

    // ---- C/E. op sequences (store / overwrite / delete / build) before the search
    let keys = ["a", "b", "c"];
    let opvecs: Vec<Vec<f32>> = vec![vec![1.0, 0.0], vec![0.0, 1.0], vec![-1.0, 0.5], vec![0.0, 0.0], vec![1.0, 0.0, 0.0]];
    let mut ops: Vec<Op> = vec![Op::Build];
    for k in keys { ops.push(Op::Delete(k.into())); for v in &opvecs { ops.push(Op::Store(k.into(), v.clone())); } }
    let bases: Vec<Vec<(String, Vec<f32>)>> = vec![vec![], vec![("a".into(), vec![1.0, 0.0]), ("b".into(), vec![0.5, 1.0])]];
    let seq_queries = vec![vec![1.0, 0.0], vec![0.5, 1.0], vec![1.0, 0.0, 0.0], vec![1.0]];
    let maxlen = if th { 4 } else { 3 };
    for base in &bases {
        let mut idx = vec![];
        loop {
            let seq: Vec<Op> = idx.iter().map(|i: &usize| ops[*i].clone()).collect();
            // thorough length-4 sequences: only those that contain a build (the others add nothing over length 3)
            if seq.len() < 4 || seq.iter().any(|o| matches!(o, Op::Build)) { cx.scenario(base, &seq, &seq_queries, &APIS, ""); }
            // next sequence (odometer over lengths 0..=maxlen)
            let mut i = idx.len();
            loop {
                if i == 0 { idx = vec![0; idx.len() + 1]; break; }
                i -= 1;
                if idx[i] + 1 < ops.len() { idx[i] += 1; for j in i + 1..idx.len() { idx[j] = 0; } break; }
            }
            if idx.len() > maxlen { break; }
        }
    }
    cx.rep.sample(scn_json(&bases[1], &[Op::Build, Op::Delete("a".into())], Api::Similar, &[1.0, 0.0], 2, ""));

    // ---- E'. other writers after a build
    let others: Vec<Op> = vec![
        Op::StoreMeta("n".into(), vec![1.0, 0.0]), Op::StoreMeta("a".into(), vec![0.0, 1.0]), Op::StoreMeta("a".into(), vec![-1.0, 0.0]),
        Op::BatchStore(vec![("n".into(), vec![1.0, 0.0])]), Op::BatchStore(vec![("a".into(), vec![-1.0, 0.0]), ("m".into(), vec![0.5, 1.0])]),
        Op::BatchDelete(vec!["a".into()]), Op::BatchDelete(vec!["a".into(), "b".into()]), Op::BatchDelete(vec!["zz".into()]), Op::Clear];
    let follow: Vec<Option<Op>> = vec![None, Some(Op::Store("c".into(), vec![1.0, 1.0])), Some(Op::Delete("b".into())), Some(Op::Build)];
    let obases: Vec<Vec<(String, Vec<f32>)>> = vec![
        vec![("a".into(), vec![1.0, 0.0])], vec![("a".into(), vec![1.0, 0.0]), ("b".into(), vec![0.5, 1.0])],
        vec![("a".into(), vec![1.0, 0.0]), ("b".into(), vec![0.5, 1.0]), ("c".into(), vec![0.0, -1.0])]];
    for base in &obases { for o in &others { for f in &follow {
        let mut seq = vec![Op::Build, o.clone()];
        if let Some(f) = f { seq.push(f.clone()); }
        cx.scenario(base, &seq, &[vec![1.0, 0.0], vec![0.5, 1.0], vec![-1.0, T]], &[Api::Similar], "");
    } } }

    // ---- D. fresh index: engine level (cached and explicit) and HNSWIndex level
    let hd: [(usize, usize); 5] = if th { [(1, 5), (2, 3), (3, 4), (8, 4), (64, 3)] } else { [(1, 4), (2, 3), (3, 3), (8, 3), (64, 3)] };
    for (d, maxn) in hd {
        let p = pool(d, tier);
        let mut queries: Vec<Vec<f32>> = p.iter().filter(|v| !is_zero(v)).cloned().collect();
        let other_dim_queries = vec![vec![1.0f32; d + 1], vec![1.0f32; d.max(2) - 1]];
        for ms in multisets(p.len(), maxn) {
            if ms.is_empty() { continue; }
            let vs: Vec<Vec<f32>> = ms.iter().map(|i| p[*i].clone()).collect();
            let base = keyed(&vs);
            cx.scenario(&base, &[Op::Build], &queries, &[Api::Similar], "");
            if d != 1 || other_dim_queries[1].len() != d { cx.scenario(&base, &[Op::Build], &other_dim_queries, &[Api::Similar], ""); }
            // explicit index + HNSWIndex API
            reset(&cx.engine);
            let Ok(spec) = setup(&cx.engine, &base, &[]) else { continue; };
            for q in &queries {
                for k in [1usize, 2, vs.len(), vs.len() + 1] {
                    let r = hnsw_explicit(&cx.engine, &spec.model, q, k);
                    cx.rep.eval(true);
                    cx.rep.check(OB_HRES, r.is_ok(), &|| json!({"kind": "hnsw_explicit", "base": kv_json(&base), "q": fv(q), "k": k}), &|| r.clone().err().unwrap_or_default());
                }
            }
            if vs.len() <= 3 {
                for m in [HNSWDistanceMetric::Cosine, HNSWDistanceMetric::Euclidean, HNSWDistanceMetric::DotProduct] {
                    for q in &queries {
                        for k in [1usize, 2, vs.len() + 1] {
                            for ef in [None, Some(1usize), Some(k), Some(50)] {
                                let r = hnsw_direct(m, &vs, q, k, ef);
                                cx.rep.eval(true);
                                cx.rep.check(OB_HDIRECT, r.is_ok(), &|| json!({"kind": "hnsw_direct", "metric": hm_name(m), "vectors": vs.iter().map(|v| fv(v)).collect::<Vec<_>>(), "q": fv(q), "k": k, "ef": ef}),
                                             &|| r.clone().err().unwrap_or_default());
                            }
                        }
                    }
                }
            }
        }
        queries.clear();
    }
    // keys of unusual shape under a fresh index
    for ks in [vec!["emb:x", "y"], vec!["", "a:b"], vec!["coll:c:emb:k", "\u{e9}\u{4e16}"], vec!["emb:", "emb:emb:z"]] {
        let base: Vec<(String, Vec<f32>)> = ks.iter().enumerate().map(|(i, k)| ((*k).to_string(), if i == 0 { vec![1.0, 0.0] } else { vec![0.5, 1.0] })).collect();
        cx.scenario(&base, &[Op::Build], &[vec![1.0, 0.0], vec![0.0, 1.0]], &[Api::Similar], "keys");
        cx.scenario(&base, &[], &[vec![1.0, 0.0], vec![0.0, 1.0]], &APIS, "");
    }

    // non-zero queries whose squared norm underflows in f32 (outside the stated alphabet, kept apart)
    for base in [vec![vec![1.0f32]], vec![vec![1.0], vec![-1.0]], vec![vec![1.0, 0.0], vec![0.0, 1.0], vec![T, T]]] {
        let d = base[0].len();
        let qs: Vec<Vec<f32>> = [1e-23f32, -1e-23, 1e-30].iter().map(|x| { let mut q = vec![0f32; d]; q[0] = *x; q }).chain([vec![1e-25f32; d]]).collect();
        cx.scenario(&keyed(&base), &[], &qs, &APIS, "underflow");
    }

    // ---- thorough: seeded random scenarios beyond the exhaustive core
    if th {
        let mut rng = Rng(seed ^ 0xC06);
        let rv = |rng: &mut Rng, d: usize| -> Vec<f32> {
            let sparse = rng.below(3) == 0;
            (0..d).map(|_| if sparse && rng.below(10) != 0 { 0.0 } else { ALPHA[rng.below(5) as usize] }).collect()
        };
        for _ in 0..20000 {
            let d = [1usize, 2, 3, 8, 64][rng.below(5) as usize];
            let d2 = if rng.below(4) == 0 { [1usize, 2, 3, 8][rng.below(4) as usize] } else { d };
            let n = rng.below(6) as usize;
            let base: Vec<(String, Vec<f32>)> = (0..n).map(|i| { let dd = if rng.below(5) == 0 { d2 } else { d }; (format!("k{i}"), rv(&mut rng, dd)) }).collect();
            let nops = rng.below(5) as usize;
            let seq: Vec<Op> = (0..nops).map(|_| match rng.below(7) {
                0 | 1 => Op::Build,
                2 | 3 => Op::Delete(format!("k{}", rng.below(6))),
                _ => { let dd = if rng.below(6) == 0 { d2 } else { d }; Op::Store(format!("k{}", rng.below(6)), rv(&mut rng, dd)) },
            }).collect();
            let mut qs = vec![];
            for _ in 0..3 { let q = rv(&mut rng, d); if !is_zero(&q) { qs.push(q); } }
            cx.scenario(&base, &seq, &qs, &APIS, "");
        }
    }

    cx.rep.sample(json!({"observation": "largest |cos_f32 - cos_f64| over all probed pairs (numerical accuracy is not an obligation)", "max_abs_dev": cx.max_dev64, "at": cx.max_dev_case}));
    if cx.divergences > 0 { cx.rep.sample(json!({"observation": "verdicts that failed on the shared engine but held on a fresh one (counted as held)", "count": cx.divergences})); }
    cx.rep
}

// ---------------------------------------------------------------- replay

pub fn replay(ob: &str, case: &Value) -> Result<String, String> {
    match case["kind"].as_str().unwrap_or("search") {
        "store" => {
            let v = pv(&case["v"]);
            let pre = if case["pre"].is_null() { None } else { Some(pv(&case["pre"])) };
            let e = VectorEngine::new();
            let got = store_case(&e, &v, pre.as_deref());
            store_verdict(if ob == OB_NEGZ { OB_NEGZ } else { OB_STORE }, &v, &got)
        },
        "hnsw_direct" => {
            let vs: Vec<Vec<f32>> = case["vectors"].as_array().map(|a| a.iter().map(pv).collect()).unwrap_or_default();
            let ef = case["ef"].as_u64().map(|x| x as usize);
            hnsw_direct(hm_parse(case["metric"].as_str().unwrap_or("")), &vs, &pv(&case["q"]), case["k"].as_u64().unwrap_or(1) as usize, ef).map(|()| "holds".to_string())
        },
        "hnsw_explicit" => {
            let e = VectorEngine::new();
            let spec = setup(&e, &kv_parse(&case["base"]), &[])?;
            hnsw_explicit(&e, &spec.model, &pv(&case["q"]), case["k"].as_u64().unwrap_or(1) as usize).map(|()| "holds".to_string())
        },
        _ => {
            let base = kv_parse(&case["base"]);
            let ops: Vec<Op> = case["ops"].as_array().map(|a| a.iter().map(Op::parse).collect()).unwrap_or_default();
            let e = VectorEngine::new();
            let spec = setup(&e, &base, &ops).map_err(|d| format!("setup failed: {d}"))?;
            let verdicts = judge(&e, &spec, Api::parse(case["api"].as_str().unwrap_or("similar")), &pv(&case["q"]), case["k"].as_u64().unwrap_or(1) as usize,
                                 case["class"].as_str().unwrap_or(""));
            match verdicts.into_iter().find(|(o, _)| *o == ob) {
                Some((_, Ok(()))) => Ok("holds".into()),
                Some((_, Err(d))) => Err(d),
                None => Ok(format!("obligation {ob} is not decided by this case")),
            }
        },
    }
}
