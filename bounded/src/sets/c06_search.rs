//! C06 (bounded): similarity search returns the true nearest stored vectors.
//!
//! Code under contract: `VectorEngine::{store_embedding, get_embedding, delete_embedding,
//! search_similar, search_similar_with_metric, build_and_cache_index, build_hnsw_index,
//! search_with_hnsw}` and `HNSWIndex::{insert, search, search_with_ef}`.
//!
//! A *scenario* is (base store, op sequence); a *probe* is (api, query, k).  The contract keeps its
//! own model (key -> vector), applies every op to the model and to the real engine and then judges
//! the real search result against the model:
//!   * no approximate index built from the current data  => EXACT clause (`pred_exact`): exactly
//!     min(k, #stored vectors of the query's dimension) results, keys distinct, each currently
//!     stored with the query's dimension, each score equal (1e-5 relative) to the metric recomputed
//!     by `ref_*` (straight-line f32, same accumulation order as the engine: 8 lanes + tail),
//!     scores non-increasing, no non-returned eligible key scores better than the last returned.
//!   * index built from exactly the current data => APPROXIMATE clause (`pred_approx`): <= k,
//!     distinct, ordered, each key currently stored, of the query's dimension, true cosine score
//!     (|d| <= 1e-5 absolute: the index reports 1-(1-cos), scale is [-1,1]).
//! Score tolerance beyond that and HNSW recall are NOT covered.  The exact-search domain includes un-normalised
//! near-duplicate vectors of large norm (where an algebraically equivalent distance formula cancels).
//!
//! Input classes that the property quantifies over but that fail for a reason of their own are kept
//! under separate ids so that the main obligations stay attributable:
//!   C06.hnsw.cache.other_writers  data changed after the build by store_embedding_with_metadata /
//!                                 batch_store / batch_delete / clear (EXACT clause must hold)
//!   C06.hnsw.results.query_dim    fresh index, query of another dimension than the indexed vectors
//!   C06.hnsw.results.keys         fresh index, keys of unusual shape ("emb:x", "", unicode)
//!   C06.hnsw.results.index_api    HNSWIndex::{insert,search,search_with_ef} directly, 3 metrics
//!   C06.search.structure.underflow_query  non-zero query whose squared norm underflows in f32
//!   C06.store.negzero_numeric     vectors with -0.0 components: numeric equality only (sign of
//!                                 zero may be lost by the sparse representation; reported as sample)
//!
//! Other exact-search entry points and the named collections (`family_collections`, both tiers).  A scenario is a
//! *space* (the default collection, a named collection -- never created / created with metric Cosine, Euclidean or
//! DotProduct --, or the unified entity mode), a sequence of put / delete ops (put = store_embedding[_with_metadata] /
//! store_in_collection[_with_metadata] / set_entity_embedding, a later put of the same key overwrites vector AND metadata)
//! and "noise": every query vector itself is stored under other keys in the OTHER spaces (default collection, a sibling
//! collection, an entity), so that a result leaking from another space would rank first.  The oracle (`pred_top`) is
//! computed from the harness's own model: eligible = currently stored items of the space with the query's dimension that
//! satisfy the filter (zero vectors ARE eligible: cosine 0.0 by the engine's own convention for a zero norm, dot 0,
//! euclidean 1/(1+|q|)); expected = the eligible scores sorted best first, cut to k, then to the page [skip, skip+limit);
//! the clause demands exactly that many results, distinct keys, each key exactly a stored user key of this space that
//! satisfies the filter, its score equal (1e-5 relative) to the metric on its CURRENT vector, and position i carrying the
//! (skip+i)-th best eligible score (which decides "the k best" also under ties).
//!   C06.collection.exact     search_in_collection; metric = the collection's configured metric (cosine if never created)
//!   C06.collection.filtered  search_filtered_in_collection (cosine collections) and search_similar_filtered, strategies
//!                            auto / pre-filter / post-filter; filters over an Int metadata field "tag" (true, exists, eq,
//!                            lt, ge, in, and, or; an item without the field satisfies none of the comparisons).
//!                            Precondition (on the INPUT only): strategy = pre-filter, or k x oversample_factor >= number
//!                            of stored vectors of the query's dimension (the post-filter candidate window covers them all)
//!   C06.collection.filtered.window  the same calls when the window is smaller (post-filter / auto): the property still
//!                            demands the k best matching vectors (all if fewer)
//!   C06.collection.filtered.metric  search_filtered_in_collection in a collection configured with Euclidean / DotProduct
//!                            (same window precondition): the scores and the ranking must be those of the collection's
//!                            metric, whichever strategy is chosen
//!   C06.search.variants      search_similar / search_similar_with_metric on an engine with parallel_threshold = 1 (the
//!                            parallel scan), search_similar_paginated, search_entities, search_entities_paginated
//!
//! Domain (quick): alphabet {0, 1, -1, 0.5, 1e-20}; per-dimension vector pools (dim 1: all 5,
//! dim 2: 12, dim 3: 8, dim 8: 9 incl. 87.5 %-sparse, dim 64: 5 incl. 98 %/97 %-sparse), every
//! multiset of <= 5 (dim 1) / 4 (dims 2,3,8) / 3 (dim 64) pool vectors, mixed-dimension multisets
//! of <= 4 out of 8; every non-zero pool vector as query; k in {1,2,n,n+1}; search_similar and
//! search_similar_with_metric x {Cosine, Euclidean, DotProduct}; every op sequence of length <= 3
//! over {store(a|b|c, 5 vectors), delete(a|b|c), build_and_cache_index} from 2 base stores.
use crate::fw::{Report, Rng, Tier};
use serde_json::{json, Value};
use std::collections::{BTreeMap, BTreeSet, HashMap};
use std::panic::{catch_unwind, AssertUnwindSafe};
use tensor_store::{HNSWConfig, HNSWDistanceMetric, HNSWIndex, ScalarValue, TensorValue};
use vector_engine::{DistanceMetric, EmbeddingInput, FilterCondition, FilterValue, FilteredSearchConfig, Pagination, SearchResult,
                    VectorCollectionConfig, VectorEngine, VectorEngineConfig};

const T: f32 = 1e-20;
const ALPHA: [f32; 5] = [0.0, 1.0, -1.0, 0.5, T];

const OB_STORE: &str = "C06.store.exact";
const OB_NEGZ: &str = "C06.store.negzero_numeric";
const OB_STRUCT: &str = "C06.search.structure";
const OB_STALE: &str = "C06.search.no_stale";
const OB_HRES: &str = "C06.hnsw.results";
const OB_HDIRECT: &str = "C06.hnsw.results.index_api";
const OB_HDIM: &str = "C06.hnsw.results.query_dim";
const OB_HKEYS: &str = "C06.hnsw.results.keys";
const OB_TINYQ: &str = "C06.search.structure.underflow_query";
const OB_HCACHE: &str = "C06.hnsw.cache";
const OB_HOTHER: &str = "C06.hnsw.cache.other_writers";
const OB_CEXACT: &str = "C06.collection.exact";
const OB_CFILT: &str = "C06.collection.filtered";
const OB_CFWIN: &str = "C06.collection.filtered.window";
const OB_CFMET: &str = "C06.collection.filtered.metric";
const OB_VARIANTS: &str = "C06.search.variants";

// ---------------------------------------------------------------- reference metric (contract side)

/// 8 lanes over full chunks, lanes summed in order, then the tail: the accumulation order of the
/// engine's kernel; for dim < 16 this is the plain left-to-right loop.
fn ref_dot(a: &[f32], b: &[f32]) -> f32 {
    let chunks = a.len() / 8;
    let mut lanes = [0f32; 8];
    for c in 0..chunks { for j in 0..8 { lanes[j] += a[c * 8 + j] * b[c * 8 + j]; } }
    let mut r = 0f32;
    for l in lanes { r += l; }
    for i in chunks * 8..a.len() { r += a[i] * b[i]; }
    r
}
fn ref_mag(v: &[f32]) -> f32 { ref_dot(v, v).sqrt() }
fn ref_cos(q: &[f32], v: &[f32]) -> f32 {
    let (d, mq, mv) = (ref_dot(q, v), ref_mag(q), ref_mag(v));
    if mq == 0.0 || mv == 0.0 { 0.0 } else { d / (mq * mv) }
}
fn ref_dist_seq(q: &[f32], v: &[f32]) -> f32 {
    let mut s = 0f32;
    for i in 0..q.len() { let d = q[i] - v[i]; s += d * d; }
    s.sqrt()
}
fn ref_dist_lanes(a: &[f32], b: &[f32]) -> f32 {
    let chunks = a.len() / 8;
    let mut lanes = [0f32; 8];
    for c in 0..chunks { for j in 0..8 { let d = a[c * 8 + j] - b[c * 8 + j]; lanes[j] += d * d; } }
    let mut r = 0f32;
    for l in lanes { r += l; }
    for i in chunks * 8..a.len() { let d = a[i] - b[i]; r += d * d; }
    r.sqrt()
}
fn cos64(q: &[f32], v: &[f32]) -> f64 {
    let (mut d, mut a, mut b) = (0f64, 0f64, 0f64);
    for i in 0..q.len() { let (x, y) = (f64::from(q[i]), f64::from(v[i])); d += x * y; a += x * x; b += y * y; }
    if a == 0.0 || b == 0.0 { 0.0 } else { d / (a.sqrt() * b.sqrt()) }
}

#[derive(Clone, Copy, PartialEq, Debug)]
enum Api { Similar, Metric(DistanceMetric) }
const APIS: [Api; 4] = [Api::Similar, Api::Metric(DistanceMetric::Cosine), Api::Metric(DistanceMetric::Euclidean), Api::Metric(DistanceMetric::DotProduct)];
impl Api {
    fn name(self) -> &'static str {
        match self { Api::Similar => "similar", Api::Metric(DistanceMetric::Cosine) => "cosine",
                     Api::Metric(DistanceMetric::Euclidean) => "euclidean", Api::Metric(DistanceMetric::DotProduct) => "dot" }
    }
    fn parse(s: &str) -> Api { APIS.into_iter().find(|a| a.name() == s).unwrap_or(Api::Similar) }
    fn score(self, q: &[f32], v: &[f32]) -> f32 {
        match self {
            Api::Similar | Api::Metric(DistanceMetric::Cosine) => ref_cos(q, v),
            Api::Metric(DistanceMetric::Euclidean) => 1.0 / (1.0 + ref_dist_seq(q, v)),
            Api::Metric(DistanceMetric::DotProduct) => ref_dot(q, v),
        }
    }
}

fn close_rel(got: f32, exp: f32) -> bool { got == exp || (got - exp).abs() <= 1e-5 * exp.abs() }
fn close_abs(got: f32, exp: f32) -> bool { got == exp || (got - exp).abs() <= 1e-5 * exp.abs().max(1.0) }

type Model = BTreeMap<String, Vec<f32>>;

fn pred_exact(model: &Model, api: Api, q: &[f32], k: usize, res: &[SearchResult]) -> Result<(), String> {
    let elig: Vec<(&String, &Vec<f32>)> = model.iter().filter(|(_, v)| v.len() == q.len()).collect();
    let want = k.min(elig.len());
    let mut seen = BTreeSet::new();
    for r in res {
        if !seen.insert(r.key.clone()) { return Err(format!("key {:?} returned twice: {res:?}", r.key)); }
        let Some(v) = model.get(&r.key) else { return Err(format!("key {:?} is not currently stored (deleted or never stored): {res:?}", r.key)); };
        if v.len() != q.len() { return Err(format!("key {:?} has dimension {} but the query has {}", r.key, v.len(), q.len())); }
        let e = api.score(q, v);
        if !close_rel(r.score, e) { return Err(format!("key {:?} reported with score {:e}, but the metric on its current vector {v:?} is {e:e}", r.key, r.score)); }
    }
    if res.len() != want { return Err(format!("{} results, expected min(k={k}, eligible={}) = {want}: {res:?}", res.len(), elig.len())); }
    for w in res.windows(2) { if !(w[0].score >= w[1].score) { return Err(format!("scores not non-increasing: {res:?}")); } }
    if let Some(last) = res.last() {
        for (key, v) in &elig {
            if seen.contains(*key) { continue; }
            let e = api.score(q, v);
            if !(e <= last.score + 1e-5 * e.abs().max(last.score.abs())) {
                return Err(format!("non-returned key {key:?} (vector {v:?}) scores {e:e} > last returned {:e}: {res:?}", last.score));
            }
        }
    }
    Ok(())
}

fn pred_approx(model: &Model, q: &[f32], k: usize, res: &[SearchResult]) -> Result<(), String> {
    if res.len() > k { return Err(format!("{} results > k={k}", res.len())); }
    let mut seen = BTreeSet::new();
    for r in res {
        if !seen.insert(r.key.clone()) { return Err(format!("key {:?} returned twice: {res:?}", r.key)); }
        let Some(v) = model.get(&r.key) else { return Err(format!("key {:?} is not a currently stored key: {res:?}", r.key)); };
        if v.len() != q.len() { return Err(format!("key {:?} has dimension {} but the query has {} (no true score exists): {res:?}", r.key, v.len(), q.len())); }
        let e = ref_cos(q, v);
        if !close_abs(r.score, e) { return Err(format!("key {:?} reported with score {:e}, true cosine on its current vector {v:?} is {e:e}", r.key, r.score)); }
    }
    for w in res.windows(2) { if !(w[0].score >= w[1].score) { return Err(format!("scores not non-increasing: {res:?}")); } }
    Ok(())
}

fn pred_no_stale(model: &Model, api: Api, q: &[f32], res: &[SearchResult]) -> Result<(), String> {
    for r in res {
        let Some(v) = model.get(&r.key) else { return Err(format!("deleted/unknown key {:?} returned: {res:?}", r.key)); };
        if v.len() == q.len() && !close_rel(r.score, api.score(q, v)) {
            return Err(format!("key {:?} scored {:e}, its current (overwritten) vector {v:?} gives {:e}", r.key, r.score, api.score(q, v)));
        }
    }
    Ok(())
}

// ---------------------------------------------------------------- scenarios

#[derive(Clone, Debug)]
enum Op {
    Store(String, Vec<f32>),
    Delete(String),
    Build,
    StoreMeta(String, Vec<f32>),
    BatchStore(Vec<(String, Vec<f32>)>),
    BatchDelete(Vec<String>),
    Clear,
}

fn fv(v: &[f32]) -> Value { Value::Array(v.iter().map(|x| json!(f64::from(*x))).collect()) }
fn pv(v: &Value) -> Vec<f32> { v.as_array().map(|a| a.iter().map(|x| x.as_f64().unwrap_or(0.0) as f32).collect()).unwrap_or_default() }
fn kv_json(items: &[(String, Vec<f32>)]) -> Value { Value::Array(items.iter().map(|(k, v)| json!([k, fv(v)])).collect()) }
fn kv_parse(v: &Value) -> Vec<(String, Vec<f32>)> {
    v.as_array().map(|a| a.iter().map(|e| (e[0].as_str().unwrap_or("").to_string(), pv(&e[1]))).collect()).unwrap_or_default()
}

impl Op {
    fn to_json(&self) -> Value {
        match self {
            Op::Store(k, v) => json!({"op": "store", "key": k, "v": fv(v)}),
            Op::Delete(k) => json!({"op": "delete", "key": k}),
            Op::Build => json!({"op": "build_and_cache_index"}),
            Op::StoreMeta(k, v) => json!({"op": "store_with_metadata", "key": k, "v": fv(v)}),
            Op::BatchStore(items) => json!({"op": "batch_store", "items": kv_json(items)}),
            Op::BatchDelete(keys) => json!({"op": "batch_delete", "keys": keys}),
            Op::Clear => json!({"op": "clear"}),
        }
    }
    fn parse(j: &Value) -> Op {
        let key = || j["key"].as_str().unwrap_or("").to_string();
        match j["op"].as_str().unwrap_or("") {
            "store" => Op::Store(key(), pv(&j["v"])),
            "delete" => Op::Delete(key()),
            "store_with_metadata" => Op::StoreMeta(key(), pv(&j["v"])),
            "batch_store" => Op::BatchStore(kv_parse(&j["items"])),
            "batch_delete" => Op::BatchDelete(j["keys"].as_array().map(|a| a.iter().map(|s| s.as_str().unwrap_or("").to_string()).collect()).unwrap_or_default()),
            "clear" => Op::Clear,
            _ => Op::Build,
        }
    }
}

#[derive(Default)]
struct Spec {
    model: Model,
    built: bool,  // an index was built and cached at some point
    fresh: bool,  // ... and the data did not change since
    other: bool,  // data changed since the build through a writer other than store_embedding/delete_embedding
    touched: bool, // some existing key was deleted or overwritten with a different vector
}

impl Spec {
    fn put(&mut self, k: &str, v: &[f32], other: bool) {
        let old = self.model.insert(k.to_string(), v.to_vec());
        let changed = old.as_deref().map(|o| bits(o) != bits(v)).unwrap_or(true);
        if old.is_some() && changed { self.touched = true; }
        if changed { self.fresh = false; if other && self.built { self.other = true; } }
    }
    fn del(&mut self, k: &str, other: bool) {
        if self.model.remove(k).is_some() { self.touched = true; self.fresh = false; if other && self.built { self.other = true; } }
    }
}

fn bits(v: &[f32]) -> Vec<u32> { v.iter().map(|x| x.to_bits()).collect() }

fn apply(e: &VectorEngine, s: &mut Spec, op: &Op) -> Result<(), String> {
    match op {
        Op::Store(k, v) => { e.store_embedding(k, v.clone()).map_err(|x| format!("store_embedding({k:?},{v:?}) = Err({x})"))?; s.put(k, v, false); },
        Op::Delete(k) => {
            let had = s.model.contains_key(k);
            let r = e.delete_embedding(k);
            if r.is_ok() != had { return Err(format!("delete_embedding({k:?}) = {r:?} but key stored = {had}")); }
            s.del(k, false);
        },
        Op::Build => {
            // Err is legitimate (mixed dimensions): then no index is cached
            if e.build_and_cache_index(HNSWConfig::default()).is_ok() { s.built = true; s.fresh = true; s.other = false; }
        },
        Op::StoreMeta(k, v) => {
            let mut m = HashMap::new();
            m.insert("tag".to_string(), TensorValue::Scalar(ScalarValue::Int(1)));
            e.store_embedding_with_metadata(k, v.clone(), m).map_err(|x| format!("store_embedding_with_metadata = Err({x})"))?;
            s.put(k, v, true);
        },
        Op::BatchStore(items) => {
            e.batch_store_embeddings(items.iter().map(|(k, v)| EmbeddingInput::new(k.clone(), v.clone())).collect()).map_err(|x| format!("batch_store_embeddings = Err({x})"))?;
            for (k, v) in items { s.put(k, v, true); }
        },
        Op::BatchDelete(keys) => {
            e.batch_delete_embeddings(keys.clone()).map_err(|x| format!("batch_delete_embeddings = Err({x})"))?;
            for k in keys { s.del(k, true); }
        },
        Op::Clear => {
            e.clear().map_err(|x| format!("clear = Err({x})"))?;
            let keys: Vec<String> = s.model.keys().cloned().collect();
            for k in keys { s.del(&k, true); }
        },
    }
    Ok(())
}

fn reset(e: &VectorEngine) {
    e.store().clear();
    e.invalidate_hnsw_cache("_default");
}

fn setup(e: &VectorEngine, base: &[(String, Vec<f32>)], ops: &[Op]) -> Result<Spec, String> {
    let mut s = Spec::default();
    for (k, v) in base { apply(e, &mut s, &Op::Store(k.clone(), v.clone()))?; }
    s.touched = false;
    for op in ops { apply(e, &mut s, op)?; }
    Ok(s)
}

fn do_search(e: &VectorEngine, api: Api, q: &[f32], k: usize) -> Result<Vec<SearchResult>, String> {
    let r = catch_unwind(AssertUnwindSafe(|| match api {
        Api::Similar => e.search_similar(q, k),
        Api::Metric(m) => e.search_similar_with_metric(q, k, m),
    }));
    match r {
        Ok(Ok(v)) => Ok(v),
        Ok(Err(x)) => Err(format!("search returned Err({x})")),
        Err(p) => Err(format!("search panicked: {}", p.downcast_ref::<String>().cloned().or_else(|| p.downcast_ref::<&str>().map(|s| (*s).to_string())).unwrap_or_default())),
    }
}

/// Which obligations a probe decides, and the verdicts.
/// `class`: "" (regular), "keys" (keys of unusual shape under a fresh index), "underflow" (non-zero query whose f32 squared norm underflows)
fn judge(e: &VectorEngine, s: &Spec, api: Api, q: &[f32], k: usize, class: &str) -> Vec<(&'static str, Result<(), String>)> {
    let res = do_search(e, api, q, k);
    let mut out = vec![];
    if api == Api::Similar && s.built && s.fresh {
        let dim_ok = s.model.values().all(|v| v.len() == q.len());
        let ob = if class == "keys" { OB_HKEYS } else if dim_ok { OB_HRES } else { OB_HDIM };
        out.push((ob, res.and_then(|r| pred_approx(&s.model, q, k, &r))));
    } else if api == Api::Similar && s.built {
        out.push((if s.other { OB_HOTHER } else { OB_HCACHE }, res.and_then(|r| pred_exact(&s.model, api, q, k, &r))));
    } else if class == "underflow" {
        out.push((OB_TINYQ, res.and_then(|r| pred_exact(&s.model, api, q, k, &r))));
    } else {
        if s.touched { out.push((OB_STALE, res.clone().and_then(|r| pred_no_stale(&s.model, api, q, &r)))); }
        out.push((OB_STRUCT, res.and_then(|r| pred_exact(&s.model, api, q, k, &r))));
    }
    out
}

fn scn_json(base: &[(String, Vec<f32>)], ops: &[Op], api: Api, q: &[f32], k: usize, class: &str) -> Value {
    let mut j = json!({"kind": "search", "base": kv_json(base), "ops": ops.iter().map(Op::to_json).collect::<Vec<_>>(), "api": api.name(), "q": fv(q), "k": k});
    if !class.is_empty() { j["class"] = json!(class); }
    j
}

struct Ctx { rep: Report, engine: VectorEngine, engine_par: VectorEngine, divergences: u64, max_dev64: f64, max_dev_case: Value }

impl Ctx {
    /// record a verdict; a failure seen on the shared (reset) engine is confirmed on a fresh engine
    fn record(&mut self, ob: &'static str, r: &Result<(), String>, case: &dyn Fn() -> Value) {
        match r {
            Ok(()) => self.rep.check(ob, true, case, &String::new),
            Err(d) => {
                let nfail = self.rep.obligations.get(ob).map(|o| o.failures.len()).unwrap_or(0);
                if nfail < 25 {
                    let c = case();
                    match replay(ob, &c) {
                        Err(d2) => self.rep.check(ob, false, &|| c.clone(), &|| d2.clone()),
                        Ok(_) => { self.divergences += 1; self.rep.check(ob, true, case, &String::new); let _ = d; },
                    }
                } else { self.rep.check(ob, false, case, &|| d.clone()); }
            },
        }
    }

    fn scenario(&mut self, base: &[(String, Vec<f32>)], ops: &[Op], queries: &[Vec<f32>], apis: &[Api], class: &str) {
        reset(&self.engine);
        let spec = match setup(&self.engine, base, ops) {
            Ok(s) => s,
            Err(d) => { self.rep.check(OB_STRUCT, false, &|| scn_json(base, ops, Api::Similar, &[], 0, class), &|| format!("setup failed: {d}")); return; },
        };
        let n = spec.model.len();
        let mut ks = vec![1usize, 2, n, n + 1];
        ks.retain(|k| *k > 0);
        ks.sort_unstable();
        ks.dedup();
        for q in queries {
            for &api in apis {
                for &k in &ks {
                    let verdicts = judge(&self.engine, &spec, api, q, k, class);
                    let nontrivial = spec.model.values().any(|v| v.len() == q.len());
                    self.rep.eval(nontrivial);
                    for (ob, r) in &verdicts { self.record(ob, r, &|| scn_json(base, ops, api, q, k, class)); }
                }
            }
            // observation: deviation of the f32 cosine from the f64 value (not an obligation)
            for v in spec.model.values().filter(|v| v.len() == q.len()) {
                let (a, b) = (f64::from(ref_cos(q, v)), cos64(q, v));
                let dev = (a - b).abs();
                if dev > self.max_dev64 { self.max_dev64 = dev; self.max_dev_case = json!({"q": fv(q), "v": fv(v), "cos_f32": a, "cos_f64": b}); }
            }
        }
    }
}

// ---------------------------------------------------------------- domain

fn pool(dim: usize, tier: Tier) -> Vec<Vec<f32>> {
    let all = |d: usize| -> Vec<Vec<f32>> {
        let mut out = vec![vec![]];
        for _ in 0..d { out = out.into_iter().flat_map(|p: Vec<f32>| ALPHA.iter().map(move |a| { let mut x = p.clone(); x.push(*a); x })).collect(); }
        out
    };
    let e = |d: usize, p: usize, x: f32| { let mut v = vec![0f32; d]; v[p] = x; v };
    match dim {
        1 => all(1),
        2 if tier == Tier::Thorough => all(2),
        2 => vec![vec![0.0, 0.0], vec![1.0, 0.0], vec![0.0, 1.0], vec![1.0, 1.0], vec![-1.0, 0.0], vec![1.0, -1.0], vec![0.5, 1.0],
                  vec![T, 0.0], vec![T, 1.0], vec![0.5, 0.5], vec![-1.0, -1.0], vec![T, T]],
        3 => {
            let mut p = vec![vec![0.0, 0.0, 0.0], vec![1.0, 0.0, 0.0], vec![0.0, 0.0, 1.0], vec![1.0, 1.0, 1.0], vec![-1.0, 0.5, 0.0],
                             vec![T, 0.0, 1.0], vec![0.5, 0.5, -1.0], vec![0.0, T, 0.0]];
            if tier == Tier::Thorough { p.extend([vec![-1.0, -1.0, -1.0], vec![0.5, 0.0, 0.5], vec![T, T, T], vec![1.0, -1.0, T]]); }
            p
        },
        8 => {
            let mut p = vec![vec![0.0; 8], e(8, 0, 1.0), e(8, 7, 1.0), vec![1.0; 8], (0..8).map(|i| if i % 2 == 0 { 1.0 } else { -1.0 }).collect(),
                             vec![0.5; 8], e(8, 0, T), vec![T; 8], vec![1.0, 0.5, 0.0, -1.0, T, 0.0, 0.0, 1.0]];
            if tier == Tier::Thorough { p.extend([e(8, 3, -1.0), e(8, 7, 0.5), vec![-1.0; 8]]); }
            p
        },
        _ => {
            let mut two = vec![0f32; 64];
            two[10] = 0.5;
            two[63] = -1.0;
            let mut p = vec![vec![0.0; 64], e(64, 0, 1.0), two, (0..64).map(|i| ALPHA[(i * 3 + 1) % 5]).collect::<Vec<f32>>(), vec![1.0; 64]];
            if tier == Tier::Thorough { p.extend([e(64, 63, T), (0..64).map(|i| ALPHA[(i * 2 + 3) % 5]).collect::<Vec<f32>>()]); }
            p
        },
    }
}

fn multisets(n: usize, max: usize) -> Vec<Vec<usize>> {
    fn rec(n: usize, max: usize, from: usize, cur: &mut Vec<usize>, out: &mut Vec<Vec<usize>>) {
        out.push(cur.clone());
        if cur.len() == max { return; }
        for i in from..n { cur.push(i); rec(n, max, i, cur, out); cur.pop(); }
    }
    let mut out = vec![];
    rec(n, max, 0, &mut vec![], &mut out);
    out
}

fn is_zero(v: &[f32]) -> bool { v.iter().all(|x| *x == 0.0) }
fn keyed(vs: &[Vec<f32>]) -> Vec<(String, Vec<f32>)> { vs.iter().enumerate().map(|(i, v)| (format!("k{i}"), v.clone())).collect() }

// ---------------------------------------------------------------- store.exact

fn store_vectors() -> Vec<Vec<f32>> {
    let mut out = vec![];
    for d in 1..=3usize {
        let mut cur = vec![vec![]];
        for _ in 0..d { cur = cur.into_iter().flat_map(|p: Vec<f32>| ALPHA.iter().map(move |a| { let mut x = p.clone(); x.push(*a); x })).collect(); }
        out.extend(cur);
    }
    for d in [8usize, 64] {
        let ps: Vec<usize> = if d == 8 { (0..8).collect() } else { vec![0, 1, 31, 62, 63] };
        for &p in &ps { for x in &ALPHA[1..] { let mut v = vec![0f32; d]; v[p] = *x; out.push(v); } }           // 87.5 % / 98.4 % sparse
        for (p1, p2) in [(0usize, d - 1), (d / 2, d / 2 + 1)] { for (x, y) in [(1.0, -1.0), (0.5, T), (T, T), (-1.0, 0.5)] { let mut v = vec![0f32; d]; v[p1] = x; v[p2] = y; out.push(v); } } // 96.9 % sparse at d=64
        if d == 64 { for o in 0..4usize { let mut v = vec![0f32; 64]; for j in 0..6 { v[(o * 7 + j * 11) % 64] = ALPHA[1 + (o + j) % 4]; } out.push(v); } } // 6 non-zeros: 90.6 % sparse
        for o in 0..5usize { for s in 1..5usize { out.push((0..d).map(|i| ALPHA[(o + i * s) % 5]).collect()); } }   // dense / mixed
        for a in ALPHA { out.push(vec![a; d]); }
        out.push((0..d).map(|i| if i % 2 == 0 { 1.0 } else { 0.0 }).collect());                                 // exactly 50 % zeros (representation boundary)
        out.push((0..d).map(|i| if i % 2 == 0 || i == 1 { 0.5 } else { 0.0 }).collect());                       // just below 50 %
        out.push((0..d).map(|i| if i % 2 == 0 { 1.0 } else { T }).collect());                                   // tiny values count as "zero" for the choice
    }
    out
}

fn negzero_vectors() -> Vec<Vec<f32>> {
    let z = -0.0f32;
    let mut v64 = vec![0f32; 64];
    v64[5] = z;
    v64[6] = 1.0;
    vec![vec![z], vec![z, 1.0], vec![1.0, z], vec![z, 1.0, 1.0], vec![z, z, 1.0, 1.0], vec![1.0, z, 0.0, 0.0],
         vec![z; 8], vec![1.0, 1.0, 1.0, 1.0, 1.0, z, 1.0, 1.0], v64]
}

fn store_case(e: &VectorEngine, v: &[f32], pre: Option<&[f32]>) -> Result<Vec<f32>, String> {
    let other = vec![0.5f32, -1.0, T];
    e.store_embedding("y", other.clone()).map_err(|x| format!("store y: {x}"))?;
    if let Some(p) = pre { e.store_embedding("x", p.to_vec()).map_err(|x| format!("pre-store: {x}"))?; }
    e.store_embedding("x", v.to_vec()).map_err(|x| format!("store_embedding = Err({x})"))?;
    let got = e.get_embedding("x").map_err(|x| format!("get_embedding = Err({x})"))?;
    let y = e.get_embedding("y").map_err(|x| format!("get_embedding(y) = Err({x})"))?;
    if bits(&y) != bits(&other) { return Err(format!("frame: other key y changed to {y:?}")); }
    if e.count() != 2 || !e.exists("x") { return Err(format!("frame: count {} exists(x) {}", e.count(), e.exists("x"))); }
    Ok(got)
}

fn store_verdict(ob: &str, v: &[f32], got: &Result<Vec<f32>, String>) -> Result<String, String> {
    let g = got.as_ref().map_err(Clone::clone)?;
    if ob == OB_NEGZ {
        let ok = g.len() == v.len() && g.iter().zip(v).all(|(a, b)| if *b == 0.0 { *a == 0.0 } else { a.to_bits() == b.to_bits() });
        let lost = g.iter().zip(v).filter(|(a, b)| a.to_bits() != b.to_bits()).count();
        if ok { Ok(format!("numerically equal; {lost} component(s) read back with a different sign of zero")) } else { Err(format!("stored {v:?}, read back {g:?}")) }
    } else if bits(g) == bits(v) { Ok("bit-identical".into()) } else { Err(format!("stored {v:?} (bits {:x?}), read back {g:?} (bits {:x?})", bits(v), bits(g))) }
}

// ---------------------------------------------------------------- direct HNSWIndex

fn hm_name(m: HNSWDistanceMetric) -> &'static str { match m { HNSWDistanceMetric::Cosine => "cosine", HNSWDistanceMetric::Euclidean => "euclidean", HNSWDistanceMetric::DotProduct => "dot" } }
fn hm_parse(s: &str) -> HNSWDistanceMetric { match s { "euclidean" => HNSWDistanceMetric::Euclidean, "dot" => HNSWDistanceMetric::DotProduct, _ => HNSWDistanceMetric::Cosine } }

fn hnsw_direct(m: HNSWDistanceMetric, vs: &[Vec<f32>], q: &[f32], k: usize, ef: Option<usize>) -> Result<(), String> {
    let idx = HNSWIndex::with_config(HNSWConfig::default().with_distance_metric(m));
    for (i, v) in vs.iter().enumerate() {
        let id = idx.insert(v.clone());
        if id != i { return Err(format!("insert #{i} returned id {id}")); }
    }
    let r = catch_unwind(AssertUnwindSafe(|| match ef { Some(ef) => idx.search_with_ef(q, k, ef), None => idx.search(q, k) }))
        .map_err(|_| "search panicked".to_string())?;
    if r.len() > k { return Err(format!("{} results > k={k}", r.len())); }
    let mut seen = BTreeSet::new();
    for (id, s) in &r {
        if *id >= vs.len() { return Err(format!("id {id} was never inserted: {r:?}")); }
        if !seen.insert(*id) { return Err(format!("id {id} returned twice: {r:?}")); }
        let v = &vs[*id];
        let e = match m {
            HNSWDistanceMetric::Cosine => { let c = ref_cos(q, v); let d = if ref_mag(q) == 0.0 || ref_mag(v) == 0.0 { 1.0 } else { 1.0 - c }; 1.0 - d },
            HNSWDistanceMetric::Euclidean => 1.0 / (1.0 + ref_dist_lanes(v, q)),
            HNSWDistanceMetric::DotProduct => ref_dot(v, q),
        };
        if !close_abs(*s, e) { return Err(format!("id {id} reported {s:e}, metric recomputed on {v:?} = {e:e}")); }
    }
    for w in r.windows(2) { if !(w[0].1 >= w[1].1) { return Err(format!("not ordered best-first: {r:?}")); } }
    if ef.map(|e| e >= vs.len()).unwrap_or(true) && vs.len() <= 5 && r.is_empty() && !vs.is_empty() { return Err("non-empty index returned nothing".into()); }
    Ok(())
}

/// `build_hnsw_index` + `search_with_hnsw` (the explicit, un-cached way to use an index)
fn hnsw_explicit(e: &VectorEngine, model: &Model, q: &[f32], k: usize) -> Result<(), String> {
    let (idx, keys) = e.build_hnsw_index(HNSWConfig::default()).map_err(|x| format!("build_hnsw_index = Err({x})"))?;
    let r = catch_unwind(AssertUnwindSafe(|| e.search_with_hnsw(&idx, &keys, q, k))).map_err(|_| "search_with_hnsw panicked".to_string())?
        .map_err(|x| format!("search_with_hnsw = Err({x})"))?;
    pred_approx(model, q, k, &r)
}

// ---------------------------------------------------------------- named collections, filtered / paginated / entity / parallel search

/// filter over the Int metadata field "tag"
#[derive(Clone, Debug)]
enum F { True, Exists, Eq(i64), Lt(i64), Ge(i64), In(Vec<i64>), And(Box<F>, Box<F>), Or(Box<F>, Box<F>) }

impl F {
    fn holds(&self, tag: Option<i64>) -> bool {
        match self {
            F::True => true,
            F::Exists => tag.is_some(),
            F::Eq(x) => tag == Some(*x),
            F::Lt(x) => tag.is_some_and(|t| t < *x),
            F::Ge(x) => tag.is_some_and(|t| t >= *x),
            F::In(xs) => tag.is_some_and(|t| xs.contains(&t)),
            F::And(a, b) => a.holds(tag) && b.holds(tag),
            F::Or(a, b) => a.holds(tag) || b.holds(tag),
        }
    }
    fn cond(&self) -> FilterCondition {
        let t = || "tag".to_string();
        match self {
            F::True => FilterCondition::True,
            F::Exists => FilterCondition::Exists(t()),
            F::Eq(x) => FilterCondition::Eq(t(), FilterValue::Int(*x)),
            F::Lt(x) => FilterCondition::Lt(t(), FilterValue::Int(*x)),
            F::Ge(x) => FilterCondition::Ge(t(), FilterValue::Int(*x)),
            F::In(xs) => FilterCondition::In(t(), xs.iter().map(|x| FilterValue::Int(*x)).collect()),
            F::And(a, b) => a.cond().and(b.cond()),
            F::Or(a, b) => a.cond().or(b.cond()),
        }
    }
    fn to_json(&self) -> Value {
        match self {
            F::True => json!({"true": 1}), F::Exists => json!({"exists": 1}), F::Eq(x) => json!({"eq": x}), F::Lt(x) => json!({"lt": x}), F::Ge(x) => json!({"ge": x}),
            F::In(xs) => json!({"in": xs}), F::And(a, b) => json!({"and": [a.to_json(), b.to_json()]}), F::Or(a, b) => json!({"or": [a.to_json(), b.to_json()]}),
        }
    }
    fn parse(j: &Value) -> F {
        let i = |k: &str| j[k].as_i64().unwrap_or(0);
        if j.get("exists").is_some() { F::Exists } else if j.get("eq").is_some() { F::Eq(i("eq")) } else if j.get("lt").is_some() { F::Lt(i("lt")) }
        else if j.get("ge").is_some() { F::Ge(i("ge")) } else if let Some(a) = j.get("in").and_then(Value::as_array) { F::In(a.iter().filter_map(Value::as_i64).collect()) }
        else if j.get("and").is_some() { F::And(Box::new(F::parse(&j["and"][0])), Box::new(F::parse(&j["and"][1]))) }
        else if j.get("or").is_some() { F::Or(Box::new(F::parse(&j["or"][0])), Box::new(F::parse(&j["or"][1]))) } else { F::True }
    }
}

#[derive(Clone, Debug)]
struct Item { key: String, v: Vec<f32>, tag: Option<i64> }

#[derive(Clone, Debug)]
enum COp { Put(Item), Del(String) }

#[derive(Clone, Copy, PartialEq, Eq, Debug)]
enum Space { Default, Coll, Entity }

/// `coll` / `cmetric` only matter for Space::Coll (`cmetric` None = the collection is never created: implicit default config);
/// `par` = engine with parallel_threshold 1
#[derive(Clone, Debug)]
struct CScn { space: Space, coll: String, cmetric: Option<DistanceMetric>, par: bool, noise: Vec<Vec<f32>>, ops: Vec<COp> }

#[derive(Clone, Copy, PartialEq, Eq, Debug)]
enum Strat { Auto, Pre, Post(usize) }

#[derive(Clone, Debug)]
enum CApi { InColl, FiltColl(Strat, F), Similar, Metric(DistanceMetric), Filt(Strat, F), Paged(usize, Option<usize>), Ent, EntPaged(usize, Option<usize>) }

fn metric_name(m: DistanceMetric) -> &'static str { Api::Metric(m).name() }
fn metric_parse(s: &str) -> Option<DistanceMetric> { match s { "cosine" => Some(DistanceMetric::Cosine), "euclidean" => Some(DistanceMetric::Euclidean), "dot" => Some(DistanceMetric::DotProduct), _ => None } }

fn par_engine() -> VectorEngine { VectorEngine::with_config(VectorEngineConfig::default().with_parallel_threshold(1)).expect("valid config") }

type CModel = BTreeMap<String, Item>;

fn cscn_json(s: &CScn, api: &CApi, q: &[f32], k: usize) -> Value {
    let ops: Vec<Value> = s.ops.iter().map(|o| match o {
        COp::Put(i) => json!({"op": "put", "key": i.key, "v": fv(&i.v), "tag": i.tag}),
        COp::Del(k) => json!({"op": "del", "key": k}),
    }).collect();
    let mut j = json!({"kind": "coll", "space": match s.space { Space::Default => "default", Space::Coll => "collection", Space::Entity => "entity" },
                       "noise": s.noise.iter().map(|v| fv(v)).collect::<Vec<_>>(), "ops": ops, "q": fv(q), "k": k});
    if s.space == Space::Coll { j["coll"] = json!(s.coll); j["cmetric"] = json!(s.cmetric.map(metric_name)); }
    if s.par { j["par"] = json!(true); }
    let strat = |j: &mut Value, st: Strat, f: &F| {
        j["filter"] = f.to_json();
        match st { Strat::Auto => j["strategy"] = json!("auto"), Strat::Pre => j["strategy"] = json!("pre"), Strat::Post(o) => { j["strategy"] = json!("post"); j["oversample"] = json!(o); } }
    };
    match api {
        CApi::InColl => j["api"] = json!("in_collection"),
        CApi::FiltColl(st, f) => { j["api"] = json!("filtered_in_collection"); strat(&mut j, *st, f); },
        CApi::Similar => j["api"] = json!("similar"),
        CApi::Metric(m) => j["api"] = json!(metric_name(*m)),
        CApi::Filt(st, f) => { j["api"] = json!("filtered"); strat(&mut j, *st, f); },
        CApi::Paged(sk, li) => { j["api"] = json!("paginated"); j["skip"] = json!(sk); j["limit"] = json!(li); },
        CApi::Ent => j["api"] = json!("entities"),
        CApi::EntPaged(sk, li) => { j["api"] = json!("entities_paginated"); j["skip"] = json!(sk); j["limit"] = json!(li); },
    }
    j
}

fn cscn_parse(j: &Value) -> (CScn, CApi, Vec<f32>, usize) {
    let space = match j["space"].as_str().unwrap_or("") { "collection" => Space::Coll, "entity" => Space::Entity, _ => Space::Default };
    let ops = j["ops"].as_array().map(|a| a.iter().map(|o| {
        let key = o["key"].as_str().unwrap_or("").to_string();
        if o["op"].as_str() == Some("del") { COp::Del(key) } else { COp::Put(Item { key, v: pv(&o["v"]), tag: o["tag"].as_i64() }) }
    }).collect()).unwrap_or_default();
    let scn = CScn { space, coll: j["coll"].as_str().unwrap_or("cc").to_string(), cmetric: j["cmetric"].as_str().and_then(metric_parse),
                     par: j["par"].as_bool().unwrap_or(false), noise: j["noise"].as_array().map(|a| a.iter().map(pv).collect()).unwrap_or_default(), ops };
    let st = match j["strategy"].as_str().unwrap_or("auto") { "pre" => Strat::Pre, "post" => Strat::Post(j["oversample"].as_u64().unwrap_or(3) as usize), _ => Strat::Auto };
    let (sk, li) = (j["skip"].as_u64().unwrap_or(0) as usize, j["limit"].as_u64().map(|x| x as usize));
    let api = match j["api"].as_str().unwrap_or("") {
        "in_collection" => CApi::InColl, "filtered_in_collection" => CApi::FiltColl(st, F::parse(&j["filter"])), "filtered" => CApi::Filt(st, F::parse(&j["filter"])),
        "paginated" => CApi::Paged(sk, li), "entities" => CApi::Ent, "entities_paginated" => CApi::EntPaged(sk, li),
        m => metric_parse(m).map_or(CApi::Similar, CApi::Metric),
    };
    (scn, api, pv(&j["q"]), j["k"].as_u64().unwrap_or(1) as usize)
}

fn tag_meta(tag: Option<i64>) -> HashMap<String, TensorValue> {
    let mut m = HashMap::new();
    if let Some(t) = tag { m.insert("tag".to_string(), TensorValue::Scalar(ScalarValue::Int(t))); }
    m
}

/// clears the engine's data and builds the scenario; returns the model of the scenario's own space
fn csetup(e: &VectorEngine, s: &CScn) -> Result<CModel, String> {
    reset(e);
    let sibling = if s.coll == "zz" { "zy" } else { "zz" };
    if s.space == Space::Coll {
        let _ = e.delete_collection(&s.coll);
        if let Some(m) = s.cmetric { e.create_collection(&s.coll, VectorCollectionConfig::default().with_metric(m)).map_err(|x| format!("create_collection = Err({x})"))?; }
    }
    for (i, nv) in s.noise.iter().enumerate() {
        if s.space != Space::Default { e.store_embedding(&format!("noise{i}"), nv.clone()).map_err(|x| format!("noise: {x}"))?; }
        if s.space != Space::Entity { e.set_entity_embedding(&format!("noise:e{i}"), nv.clone()).map_err(|x| format!("noise: {x}"))?; }
        e.store_in_collection(sibling, &format!("noise{i}"), nv.clone()).map_err(|x| format!("noise: {x}"))?;
    }
    let mut model = CModel::new();
    for op in &s.ops {
        match op {
            COp::Put(it) => {
                let r = match s.space {
                    Space::Default if it.tag.is_some() => e.store_embedding_with_metadata(&it.key, it.v.clone(), tag_meta(it.tag)),
                    Space::Default => e.store_embedding(&it.key, it.v.clone()),
                    Space::Coll if it.tag.is_some() => e.store_in_collection_with_metadata(&s.coll, &it.key, it.v.clone(), tag_meta(it.tag)),
                    Space::Coll => e.store_in_collection(&s.coll, &it.key, it.v.clone()),
                    Space::Entity => e.set_entity_embedding(&it.key, it.v.clone()),
                };
                r.map_err(|x| format!("put {:?} {:?} = Err({x})", it.key, it.v))?;
                model.insert(it.key.clone(), it.clone());
            },
            COp::Del(k) => {
                let r = match s.space { Space::Default => e.delete_embedding(k), Space::Coll => e.delete_from_collection(&s.coll, k), Space::Entity => e.remove_entity_embedding(k) };
                let had = model.remove(k).is_some();
                if r.is_ok() != had { return Err(format!("delete {k:?} = {r:?} but the key was stored = {had}")); }
            },
        }
    }
    // read-back through the space's own getter: exactly as written
    for it in model.values() {
        let g = match s.space { Space::Default => e.get_embedding(&it.key), Space::Coll => e.get_from_collection(&s.coll, &it.key), Space::Entity => e.get_entity_embedding(&it.key) };
        match g { Ok(g) if bits(&g) == bits(&it.v) => {}, other => return Err(format!("key {:?} stored as {:?} reads back as {other:?}", it.key, it.v)) }
    }
    Ok(model)
}

fn fcfg(st: Strat) -> Option<FilteredSearchConfig> {
    match st { Strat::Auto => None, Strat::Pre => Some(FilteredSearchConfig::pre_filter()), Strat::Post(o) => Some(FilteredSearchConfig::post_filter().with_oversample(o)) }
}

fn cdo(e: &VectorEngine, s: &CScn, api: &CApi, q: &[f32], k: usize) -> Result<Vec<SearchResult>, String> {
    let r = catch_unwind(AssertUnwindSafe(|| match api {
        CApi::InColl => e.search_in_collection(&s.coll, q, k),
        CApi::FiltColl(st, f) => e.search_filtered_in_collection(&s.coll, q, k, &f.cond(), fcfg(*st)),
        CApi::Similar => e.search_similar(q, k),
        CApi::Metric(m) => e.search_similar_with_metric(q, k, *m),
        CApi::Filt(st, f) => e.search_similar_filtered(q, k, &f.cond(), fcfg(*st)),
        CApi::Paged(sk, li) => e.search_similar_paginated(q, k, Pagination { skip: *sk, limit: *li, count_total: false }).map(|p| p.items),
        CApi::Ent => e.search_entities(q, k),
        CApi::EntPaged(sk, li) => e.search_entities_paginated(q, k, Pagination { skip: *sk, limit: *li, count_total: true }).map(|p| p.items),
    }));
    match r {
        Ok(Ok(v)) => Ok(v),
        Ok(Err(x)) => Err(format!("search returned Err({x})")),
        Err(_) => Err("search panicked".into()),
    }
}

/// the exact-search clause against the model (see the module doc)
#[allow(clippy::too_many_arguments)]
fn pred_top(model: &CModel, filt: Option<&F>, m: DistanceMetric, q: &[f32], k: usize, skip: usize, limit: Option<usize>, res: &[SearchResult]) -> Result<(), String> {
    let sc = |v: &[f32]| Api::Metric(m).score(q, v);
    let ok = |it: &Item| it.v.len() == q.len() && filt.map_or(true, |f| f.holds(it.tag));
    let mut best: Vec<(f32, &String)> = model.values().filter(|it| ok(it)).map(|it| (sc(&it.v), &it.key)).collect();
    best.sort_by(|a, b| b.0.partial_cmp(&a.0).unwrap_or(std::cmp::Ordering::Equal));
    let fetched = k.min(best.len());
    let hi = limit.map_or(fetched, |l| fetched.min(skip.saturating_add(l)));
    let want = hi.saturating_sub(skip);
    let mut seen = BTreeSet::new();
    for r in res {
        if !seen.insert(r.key.clone()) { return Err(format!("key {:?} returned twice: {res:?}", r.key)); }
        let Some(it) = model.get(&r.key) else { return Err(format!("key {:?} is not a key currently stored in this space (stored keys: {:?}): {res:?}", r.key, model.keys().collect::<Vec<_>>())); };
        if it.v.len() != q.len() { return Err(format!("key {:?} has dimension {} but the query has {}", r.key, it.v.len(), q.len())); }
        if !filt.map_or(true, |f| f.holds(it.tag)) { return Err(format!("key {:?} (tag {:?}) does not satisfy the filter: {res:?}", r.key, it.tag)); }
        if !close_rel(r.score, sc(&it.v)) { return Err(format!("key {:?} reported with score {:e}, but {} on its current vector {:?} is {:e}", r.key, r.score, metric_name(m), it.v, sc(&it.v))); }
    }
    if res.len() != want {
        return Err(format!("{} results, expected {want} (eligible = {} stored vectors of dimension {} satisfying the filter, k = {k}, page skip {skip} limit {limit:?}; eligible by score: {best:?}): {res:?}",
                           res.len(), best.len(), q.len()));
    }
    for w in res.windows(2) { if !(w[0].score >= w[1].score) { return Err(format!("scores not non-increasing: {res:?}")); } }
    for (i, r) in res.iter().enumerate() {
        let e = best[skip + i].0;
        if !(close_rel(r.score, e) || (r.score - e).abs() <= 1e-5 * e.abs().max(r.score.abs())) {
            return Err(format!("position {} holds key {:?} with score {:e}, but the eligible vector of rank {} is {:?} with {} score {e:e}: {res:?}", skip + i, r.key, r.score, skip + i, best[skip + i].1, metric_name(m)));
        }
    }
    Ok(())
}

/// obligation (decided by the INPUT only) and verdict of one probe
fn cjudge(e: &VectorEngine, s: &CScn, model: &CModel, api: &CApi, q: &[f32], k: usize) -> (&'static str, Result<(), String>) {
    let same_dim = model.values().filter(|it| it.v.len() == q.len()).count();
    let window = |st: Strat| match st { Strat::Pre => true, Strat::Auto => k.saturating_mul(3) >= same_dim, Strat::Post(o) => k.saturating_mul(o).max(k) >= same_dim };
    let cm = s.cmetric.unwrap_or(DistanceMetric::Cosine);
    let (ob, filt, m, skip, limit): (&'static str, Option<&F>, DistanceMetric, usize, Option<usize>) = match api {
        CApi::InColl => (OB_CEXACT, None, cm, 0, None),
        CApi::FiltColl(st, f) => (if !window(*st) { OB_CFWIN } else if cm != DistanceMetric::Cosine { OB_CFMET } else { OB_CFILT }, Some(f), cm, 0, None),
        CApi::Filt(st, f) => (if window(*st) { OB_CFILT } else { OB_CFWIN }, Some(f), DistanceMetric::Cosine, 0, None),
        CApi::Similar | CApi::Ent => (OB_VARIANTS, None, DistanceMetric::Cosine, 0, None),
        CApi::Metric(m) => (OB_VARIANTS, None, *m, 0, None),
        CApi::Paged(sk, li) | CApi::EntPaged(sk, li) => (OB_VARIANTS, None, DistanceMetric::Cosine, *sk, *li),
    };
    (ob, cdo(e, s, api, q, k).and_then(|res| pred_top(model, filt, m, q, k, skip, limit, &res)))
}

fn creplay(ob: &str, case: &Value) -> Result<String, String> {
    let (scn, api, q, k) = cscn_parse(case);
    let e = if scn.par { par_engine() } else { VectorEngine::new() };
    let model = csetup(&e, &scn).map_err(|d| format!("setup failed: {d}"))?;
    let (o, r) = cjudge(&e, &scn, &model, &api, &q, k);
    if o != ob { return Ok(format!("obligation {ob} is not decided by this case (it decides {o})")); }
    r.map(|()| "holds".to_string())
}

impl Ctx {
    /// one scenario, every query x api x k in {1, 2, n, n+1} (n = stored vectors of the query's dimension)
    fn cscenario(&mut self, scn: &CScn, queries: &[Vec<f32>], apis: &[CApi]) {
        let mut scn = scn.clone();
        scn.noise = queries.to_vec();
        let built = csetup(if scn.par { &self.engine_par } else { &self.engine }, &scn);
        let model = match built {
            Ok(m) => m,
            Err(d) => {
                let ob = cjudge_ob(&scn, &apis[0]);
                self.rep.check(ob, false, &|| cscn_json(&scn, &apis[0], &[], 0), &|| format!("setup failed: {d}"));
                return;
            },
        };
        for q in queries {
            let n = model.values().filter(|it| it.v.len() == q.len()).count();
            let mut ks = vec![1usize, 2, n, n + 1];
            ks.retain(|k| *k > 0);
            ks.sort_unstable();
            ks.dedup();
            for api in apis {
                for &k in &ks {
                    let (ob, r) = cjudge(if scn.par { &self.engine_par } else { &self.engine }, &scn, &model, api, q, k);
                    self.rep.eval(n > 0);
                    self.record(ob, &r, &|| cscn_json(&scn, api, q, k));
                }
            }
        }
    }
}

fn cjudge_ob(s: &CScn, api: &CApi) -> &'static str {
    match api {
        CApi::InColl => OB_CEXACT,
        CApi::FiltColl(..) if s.cmetric.is_some_and(|m| m != DistanceMetric::Cosine) => OB_CFMET,
        CApi::FiltColl(..) | CApi::Filt(..) => OB_CFILT,
        _ => OB_VARIANTS,
    }
}

fn multisets_of<T: Clone>(pool: &[T], max: usize) -> Vec<Vec<T>> { multisets(pool.len(), max).into_iter().map(|ms| ms.iter().map(|i| pool[*i].clone()).collect()).collect() }

fn puts(items: &[(Vec<f32>, Option<i64>)]) -> Vec<COp> {
    items.iter().enumerate().map(|(i, (v, t))| COp::Put(Item { key: format!("k{i}"), v: v.clone(), tag: *t })).collect()
}

/// the spaces every unfiltered family runs in, with the entry points of each
fn exact_spaces() -> Vec<(CScn, Vec<CApi>)> {
    use DistanceMetric::{Cosine, DotProduct, Euclidean};
    let scn = |space: Space, coll: &str, cmetric: Option<DistanceMetric>, par: bool| CScn { space, coll: coll.into(), cmetric, par, noise: vec![], ops: vec![] };
    vec![
        (scn(Space::Coll, "ci", None, false), vec![CApi::InColl]),
        (scn(Space::Coll, "cc", Some(Cosine), false), vec![CApi::InColl]),
        (scn(Space::Coll, "ce", Some(Euclidean), false), vec![CApi::InColl]),
        (scn(Space::Coll, "cd", Some(DotProduct), false), vec![CApi::InColl]),
        (scn(Space::Default, "", None, true), vec![CApi::Similar, CApi::Metric(Cosine), CApi::Metric(Euclidean), CApi::Metric(DotProduct)]),
        (scn(Space::Default, "", None, false), vec![CApi::Paged(0, None), CApi::Paged(1, Some(1)), CApi::Paged(0, Some(2)), CApi::Paged(2, None)]),
        (scn(Space::Entity, "", None, false), vec![CApi::Ent, CApi::EntPaged(1, Some(2)), CApi::EntPaged(0, None)]),
    ]
}

fn family_collections(cx: &mut Ctx) {
    use DistanceMetric::{Cosine, DotProduct, Euclidean};
    let spaces = exact_spaces();
    let with_ops = |s: &CScn, ops: Vec<COp>| { let mut s = s.clone(); s.ops = ops; s };
    let plain = |vs: &[Vec<f32>]| puts(&vs.iter().map(|v| (v.clone(), None)).collect::<Vec<_>>());

    // F1: dimension 3 -- zero vector, sparse, dense, vectors opposite to the queries (negative scores), duplicates (multisets);
    //     two stored vectors of other dimensions are always present
    let pool3: Vec<Vec<f32>> = vec![vec![0.0, 0.0, 0.0], vec![1.0, 0.0, 0.0], vec![0.0, 0.0, 1.0], vec![1.0, 1.0, 1.0], vec![-1.0, 0.0, 0.0], vec![-1.0, -1.0, -1.0],
                                    vec![0.5, 0.5, -1.0], vec![0.0, T, 0.0], vec![-1.0, 0.5, 0.0]];
    let q3: Vec<Vec<f32>> = vec![vec![1.0, 0.0, 0.0], vec![1.0, 1.0, 1.0], vec![-1.0, 0.5, T]];
    let mut e64 = vec![0f32; 64];
    e64[0] = 1.0;
    for vs in multisets_of(&pool3, 3) {
        let mut ops = plain(&vs);
        ops.push(COp::Put(Item { key: "m2".into(), v: vec![1.0, 0.0], tag: None }));
        ops.push(COp::Put(Item { key: "m64".into(), v: e64.clone(), tag: None }));
        for (s, apis) in &spaces { cx.cscenario(&with_ops(s, ops.clone()), &q3, apis); }
    }
    // F2: dimension 64 -- zero, 98 % / 97 % sparse, dense, opposite
    let mut two = vec![0f32; 64];
    two[10] = 0.5;
    two[63] = -1.0;
    let alpha64: Vec<f32> = (0..64).map(|i| ALPHA[(i * 3 + 1) % 5]).collect();
    let pool64: Vec<Vec<f32>> = vec![vec![0.0; 64], e64.clone(), two.clone(), alpha64.clone(), vec![1.0; 64], vec![-1.0; 64]];
    let q64 = vec![e64.clone(), vec![1.0; 64], alpha64, two];
    for vs in multisets_of(&pool64, 3) {
        for (s, apis) in &spaces { cx.cscenario(&with_ops(s, plain(&vs)), &q64, apis); }
    }
    // F3: mixed dimensions (incl. zero vectors of several dimensions), queries of dimensions 1, 2, 3 and 4 (no eligible vector)
    let poolm: Vec<Vec<f32>> = vec![vec![1.0], vec![-1.0], vec![0.0], vec![1.0, 0.0], vec![0.0, 0.0], vec![0.5, 1.0], vec![1.0, 0.0, 0.0], vec![0.0, 0.0, 0.0]];
    let qm = vec![vec![1.0], vec![0.5, 1.0], vec![1.0, 1.0, 0.0], vec![1.0; 4]];
    for vs in multisets_of(&poolm, 3) {
        for (s, apis) in &spaces { cx.cscenario(&with_ops(s, plain(&vs)), &qm, apis); }
    }
    // F4: op sequences of length <= 2 (store / overwrite -- also with the zero vector and with another dimension -- / delete) from two bases
    {
        let opv: Vec<Vec<f32>> = vec![vec![1.0, 0.0, 0.0], vec![0.0, 0.0, 0.0], vec![-1.0, 0.0, 0.0], vec![0.0, 1.0]];
        let mut alphabet: Vec<COp> = vec![];
        for key in ["a", "b", "c"] { alphabet.push(COp::Del(key.into())); for v in &opv { alphabet.push(COp::Put(Item { key: key.into(), v: v.clone(), tag: None })); } }
        let bases: Vec<Vec<COp>> = vec![vec![], vec![COp::Put(Item { key: "a".into(), v: vec![1.0, 0.0, 0.0], tag: None }), COp::Put(Item { key: "b".into(), v: vec![0.0, 0.0, 0.0], tag: None })]];
        let qs = vec![vec![1.0, 0.0, 0.0], vec![0.5, 1.0]];
        let mut seqs: Vec<Vec<COp>> = vec![vec![]];
        for a in &alphabet { seqs.push(vec![a.clone()]); for b in &alphabet { seqs.push(vec![a.clone(), b.clone()]); } }
        for base in &bases { for seq in &seqs {
            let ops: Vec<COp> = base.iter().chain(seq.iter()).cloned().collect();
            for (i, (s, apis)) in spaces.iter().enumerate() { if i != 0 && i != 2 { cx.cscenario(&with_ops(s, ops.clone()), &qs, &apis[..apis.len().min(2)]); } }
        } }
    }
    // F5: metadata filters -- (vector, tag) pairs over {zero, e1, -e1, ones} x {no tag, 0, 1}; strategies auto / pre-filter / post-filter.
    //     default collection and a cosine collection: every multiset of <= 3 pairs, 4 filters; parallel engine and a never-created
    //     collection: every multiset of <= 2, 6 filters; Euclidean / DotProduct collections (C06.collection.filtered.metric): <= 1 pair.
    //     (<= 3 stored vectors of the query's dimension: the default post-filter window 3k always covers them)
    let filters = vec![F::True, F::Eq(1), F::And(Box::new(F::Ge(0)), Box::new(F::Lt(1))), F::In(vec![1, 5]), F::Exists, F::Or(Box::new(F::Lt(0)), Box::new(F::Ge(1)))];
    let fapis = |coll: bool, nf: usize, strategies: &[Strat]| -> Vec<CApi> {
        let mut v = vec![];
        for f in &filters[..nf] { for st in strategies { v.push(if coll { CApi::FiltColl(*st, f.clone()) } else { CApi::Filt(*st, f.clone()) }); } }
        v
    };
    let scn = |space: Space, coll: &str, cmetric: Option<DistanceMetric>, par: bool| CScn { space, coll: coll.into(), cmetric, par, noise: vec![], ops: vec![] };
    let s3 = [Strat::Auto, Strat::Pre, Strat::Post(3)];
    // (space, entry points, largest multiset)
    let fspaces: Vec<(CScn, Vec<CApi>, usize)> = vec![
        (scn(Space::Default, "", None, false), fapis(false, 4, &s3), 3), (scn(Space::Coll, "cc", Some(Cosine), false), fapis(true, 4, &s3), 3),
        (scn(Space::Default, "", None, true), fapis(false, 6, &s3), 2), (scn(Space::Coll, "ci", None, false), fapis(true, 6, &s3), 2),
        (scn(Space::Coll, "ce", Some(Euclidean), false), fapis(true, 2, &s3), 1), (scn(Space::Coll, "cd", Some(DotProduct), false), fapis(true, 2, &s3), 1),
    ];
    let mut pairs: Vec<(Vec<f32>, Option<i64>)> = vec![];
    for v in [vec![0.0f32, 0.0, 0.0], vec![1.0, 0.0, 0.0], vec![-1.0, 0.0, 0.0], vec![1.0, 1.0, 1.0]] { for t in [None, Some(0), Some(1)] { pairs.push((v.clone(), t)); } }
    let qf = vec![vec![1.0, 0.0, 0.0], vec![-1.0, 0.5, T]];
    for ms in multisets_of(&pairs, 3) {
        let mut ops = puts(&ms);
        ops.push(COp::Put(Item { key: "m2".into(), v: vec![1.0, 0.0], tag: Some(1) }));
        // (the two non-cosine collections: one query each)
        for (i, (s, apis, maxn)) in fspaces.iter().enumerate() { if ms.len() <= *maxn { cx.cscenario(&with_ops(s, ops.clone()), if i < 4 { &qf } else { &qf[i - 4..i - 3] }, apis); } }
    }
    // F6: 12 stored vectors of dimension 2 with pairwise different scores under every metric (incl. the zero vector and vectors
    //     opposite to the query); exactly one carries tag 1 (at every rank), the others tag 0: eq 1 matches 1/12 (auto selects
    //     pre-filter), eq 0 matches 11/12 (auto selects post-filter); k in {1, 2, 12, 13}; post-filter with oversample 3 and 1
    //     (k = 1, 2: the candidate window is smaller than the stored set => C06.collection.filtered.window)
    let v12: Vec<Vec<f32>> = (0..12).map(|i| if i == 0 { vec![0.0, 0.0] } else { vec![1.125 - 0.25 * (i as f32 - 1.0), 0.5] }).collect();
    let s4 = [Strat::Auto, Strat::Pre, Strat::Post(3), Strat::Post(1)];
    let f6 = [F::Eq(1), F::Eq(0), F::In(vec![1]), F::True];
    for hot in 0..12 {
        let ops = puts(&v12.iter().enumerate().map(|(i, v)| (v.clone(), Some(i64::from(i == hot)))).collect::<Vec<_>>());
        // default collection and cosine collection: every rank; DotProduct collection: three ranks
        for (s, _, _) in [&fspaces[0], &fspaces[1], &fspaces[5]] {
            if s.cmetric == Some(DotProduct) && ![0, 1, 6].contains(&hot) { continue; }
            // (DotProduct collection: pre-filter and a post-filter window that always covers the 12 vectors)
            let sts: &[Strat] = if s.cmetric == Some(DotProduct) { &[Strat::Pre, Strat::Post(12)] } else { &s4 };
            let mut apis = vec![];
            for f in &f6 { for &st in sts { apis.push(if s.space == Space::Coll { CApi::FiltColl(st, f.clone()) } else { CApi::Filt(st, f.clone()) }); } }
            cx.cscenario(&with_ops(s, ops.clone()), &[vec![1.0, 0.0]], &apis);
        }
        for (s, apis) in &spaces { cx.cscenario(&with_ops(s, ops.clone()), &[vec![1.0, 0.0], vec![-1.0, T]], apis); }
    }
    // F7: user keys that look like storage keys (reported key = exactly the stored user key)
    for ks in [vec!["emb:doc", "doc"], vec!["emb:doc"], vec!["emb:", "e"], vec!["coll:cc:emb:k", "k"], vec!["emb:emb:z", "z", "\u{e9}\u{4e16}"], vec!["cc:emb:x", "coll:", ":"]] {
        let vs = [vec![1.0f32, 0.0, 0.0], vec![0.5, 0.5, -1.0], vec![0.0, 0.0, 0.0]];
        let ops: Vec<COp> = ks.iter().enumerate().map(|(i, k)| COp::Put(Item { key: (*k).to_string(), v: vs[i].clone(), tag: Some(1) })).collect();
        let qk = vec![vec![1.0, 0.0, 0.0], vec![0.0, 1.0, -1.0]];
        for (s, apis) in &spaces { cx.cscenario(&with_ops(s, ops.clone()), &qk, apis); }
        let kf = |coll: bool| -> Vec<CApi> { [Strat::Auto, Strat::Pre, Strat::Post(3)].into_iter().map(|st| if coll { CApi::FiltColl(st, F::Eq(1)) } else { CApi::Filt(st, F::Eq(1)) }).collect() };
        for (s, _, _) in &fspaces[..4] { cx.cscenario(&with_ops(s, ops.clone()), &qk, &kf(s.space == Space::Coll)); }
    }
}

// ---------------------------------------------------------------- run

pub fn run(tier: Tier, seed: u64) -> Report {
    let th = tier == Tier::Thorough;
    let rep = Report::new("c06_search",
        &format!("alphabet {{0,1,-1,0.5,1e-20}}; store/read-back: all vectors of dim 1..3, structured dense / 87-98 %-sparse / boundary vectors of dim 8 and 64, each fresh and as overwrite of a dense resp. sparse value; \
search without index: every multiset of <= {} pool vectors per dimension (pools: dim1 5, dim2 {}, dim3 {}, dim8 {}, dim64 {}) and mixed-dimension multisets of <= 4 of 8, every non-zero pool vector as query, k in {{1,2,n,n+1}}, search_similar + search_similar_with_metric x 3 metrics; \
op sequences: all of length <= {} over store(a|b|c x 5 vectors incl. zero and a 3-dim one) / delete(a|b|c) / build_and_cache_index from 2 base stores, queries incl. other-dimension ones; other writers (store_with_metadata, batch_store, batch_delete, clear) after a build; HNSWIndex insert/search/search_with_ef x 3 metrics on multisets of <= 3; \
named collections (never created / Cosine / Euclidean / DotProduct), default collection on an engine with parallel_threshold 1, paginated search and entity mode, each with the query vectors stored as noise in the other spaces: \
every multiset of <= 3 of 9 dim-3 vectors (zero, sparse, dense, opposite) plus 2 vectors of other dimensions, of 6 dim-64 vectors (zero, 98 % sparse, dense, opposite), of 8 mixed-dimension vectors; put/overwrite/delete sequences of length <= 2; \
filtered search (auto / pre / post-filter, 6 filters over an Int tag) on every multiset of <= 3 of 12 (vector, tag) pairs and on 12 distinct-score vectors with the single matching one at every position; user keys shaped like storage keys (emb:doc, coll:cc:emb:k, ...); k in {{1,2,n,n+1}}{}",
                 if th { "5" } else { "5/4/4/4/3" }, pool(2, tier).len(), pool(3, tier).len(), pool(8, tier).len(), pool(64, tier).len(),
                 if th { 4 } else { 3 }, if th { "; plus 20000 seeded random scenarios (not exhaustive)" } else { "" }),
        true,
        &["VectorEngine::store_embedding", "get_embedding", "delete_embedding", "search_similar", "search_similar_with_metric", "build_and_cache_index",
          "build_hnsw_index", "search_with_hnsw", "store_embedding_with_metadata", "batch_store_embeddings", "batch_delete_embeddings", "clear",
          "HNSWIndex::insert", "HNSWIndex::search", "HNSWIndex::search_with_ef",
          "search_in_collection", "search_filtered_in_collection", "search_similar_filtered", "search_similar_paginated", "search_entities", "search_entities_paginated",
          "store_in_collection", "store_in_collection_with_metadata", "delete_from_collection", "get_from_collection", "set_entity_embedding", "remove_entity_embedding"]);
    let mut cx = Ctx { rep, engine: VectorEngine::new(), engine_par: par_engine(), divergences: 0, max_dev64: 0.0, max_dev_case: Value::Null };
    cx.rep.declare(OB_STORE, "VectorEngine::store_embedding/get_embedding");
    cx.rep.declare(OB_NEGZ, "VectorEngine::store_embedding/get_embedding");
    cx.rep.declare(OB_STRUCT, "VectorEngine::search_similar/search_similar_with_metric");
    cx.rep.declare(OB_STALE, "VectorEngine::search_similar/search_similar_with_metric");
    cx.rep.declare(OB_HRES, "VectorEngine::build_and_cache_index + search_similar, build_hnsw_index + search_with_hnsw");
    cx.rep.declare(OB_HDIRECT, "HNSWIndex::insert/search/search_with_ef");
    cx.rep.declare(OB_HDIM, "VectorEngine::search_similar with a cached index, query of another dimension");
    cx.rep.declare(OB_HKEYS, "VectorEngine::build_and_cache_index + search_similar, keys of unusual shape");
    cx.rep.declare(OB_TINYQ, "VectorEngine::search_similar/search_similar_with_metric, non-zero query with |q|^2 < f32 min");
    cx.rep.declare(OB_HCACHE, "VectorEngine::store_embedding/delete_embedding after build_and_cache_index");
    cx.rep.declare(OB_HOTHER, "VectorEngine::store_embedding_with_metadata/batch_*/clear after build_and_cache_index");
    cx.rep.declare(OB_CEXACT, "VectorEngine::search_in_collection");
    cx.rep.declare(OB_CFILT, "VectorEngine::search_filtered_in_collection, search_similar_filtered");
    cx.rep.declare(OB_CFWIN, "VectorEngine::search_filtered_in_collection, search_similar_filtered (post-filter window smaller than the stored set)");
    cx.rep.declare(OB_CFMET, "VectorEngine::search_filtered_in_collection in a collection with metric Euclidean / DotProduct");
    cx.rep.declare(OB_VARIANTS, "VectorEngine::search_similar/search_similar_with_metric (parallel scan), search_similar_paginated, search_entities, search_entities_paginated");

    // ---- A. read-back
    let mut negz_obs = vec![];
    for v in store_vectors() {
        for pre in [None, Some(vec![1.0f32; 3]), Some(vec![0.0, 0.0, 0.0, 1.0])] {
            reset(&cx.engine);
            let got = store_case(&cx.engine, &v, pre.as_deref());
            cx.rep.eval(v.iter().any(|x| *x == 0.0) || pre.is_some());
            let r = store_verdict(OB_STORE, &v, &got);
            cx.rep.check(OB_STORE, r.is_ok(), &|| json!({"kind": "store", "v": fv(&v), "pre": pre.as_deref().map(fv)}), &|| r.clone().err().unwrap_or_default());
        }
    }
    for v in negzero_vectors() {
        reset(&cx.engine);
        let got = store_case(&cx.engine, &v, None);
        cx.rep.eval(true);
        let r = store_verdict(OB_NEGZ, &v, &got);
        if let (Ok(g), Ok(_)) = (&got, &r) { negz_obs.push(json!({"stored": format!("{v:?}"), "read_back": format!("{g:?}"), "bit_identical": bits(g) == bits(&v)})); }
        cx.rep.check(OB_NEGZ, r.is_ok(), &|| json!({"kind": "store", "v": fv(&v), "pre": Value::Null}), &|| r.clone().err().unwrap_or_default());
    }
    cx.rep.sample(json!({"observation": "-0.0 components (not a failure: property does not forbid; numeric equality is checked)", "cases": negz_obs}));

    // ---- B. search without index over multisets
    let dims: [(usize, usize); 5] = if th { [(1, 5), (2, 4), (3, 5), (8, 5), (64, 4)] } else { [(1, 5), (2, 4), (3, 4), (8, 4), (64, 3)] };
    for (d, maxn) in dims {
        let p = pool(d, tier);
        let queries: Vec<Vec<f32>> = p.iter().filter(|v| !is_zero(v)).cloned().collect();
        for ms in multisets(p.len(), maxn) {
            let vs: Vec<Vec<f32>> = ms.iter().map(|i| p[*i].clone()).collect();
            cx.scenario(&keyed(&vs), &[], &queries, &APIS, "");
        }
    }
    {   // mixed dimensions
        let p: Vec<Vec<f32>> = vec![vec![1.0], vec![-1.0], vec![1.0, 0.0], vec![0.5, 1.0], vec![1.0, 0.0, 0.0], vec![0.0, T, 1.0], pool(8, tier)[1].clone(), pool(8, tier)[8].clone()];
        let queries = vec![vec![1.0], vec![0.5, 1.0], vec![T, 0.0], vec![1.0, 1.0, 0.0], pool(8, tier)[3].clone(), vec![1.0; 4]];
        for ms in multisets(p.len(), if th { 5 } else { 4 }) {
            let vs: Vec<Vec<f32>> = ms.iter().map(|i| p[*i].clone()).collect();
            cx.scenario(&keyed(&vs), &[], &queries, &APIS, "");
        }
    }
    cx.rep.sample(scn_json(&keyed(&[vec![1.0, 0.0], vec![T, 1.0]]), &[], Api::Metric(DistanceMetric::Euclidean), &[0.5, 1.0], 2, ""));
    {   // un-normalised vectors whose norm is large compared with the distances being ranked (raw feature vectors, near-duplicates):
        // a score computed through ||a||^2 + ||b||^2 - 2ab cancels here, the defining sum of squared differences does not
        let near: Vec<Vec<f32>> = vec![vec![300.0, 400.0, 1200.0], vec![300.0, 400.0, 1199.6], vec![300.0, 400.0, 1200.3], vec![300.5, 399.75, 1200.0],
                                       vec![-300.0, 400.0, 1200.0], vec![3000.5, -4000.25, 12000.125], vec![3000.5, -4000.25, 12000.0]];
        let queries: Vec<Vec<f32>> = vec![vec![300.0, 400.0, 1200.0], vec![300.1, 400.0, 1199.9], vec![3000.5, -4000.25, 12000.0625]];
        for ms in multisets(near.len(), if th { 5 } else { 4 }) {
            let vs: Vec<Vec<f32>> = ms.iter().map(|i| near[*i].clone()).collect();
            cx.scenario(&keyed(&vs), &[], &queries, &APIS, "");
        }
        let wide: Vec<Vec<f32>> = (0..5).map(|j| (0..19).map(|i| 1000.0 + (i as f32) * 37.5 + if i == 7 { 0.25 * j as f32 } else { 0.0 }).collect()).collect();
        cx.scenario(&keyed(&wide), &[], &[wide[0].clone(), wide[3].clone()], &APIS, "");
    }

    // ---- C/E. op sequences (store / overwrite / delete / build) before the search
    let keys = ["a", "b", "c"];
    let opvecs: Vec<Vec<f32>> = vec![vec![1.0, 0.0], vec![0.0, 1.0], vec![-1.0, 0.5], vec![0.0, 0.0], vec![1.0, 0.0, 0.0]];
    let mut ops: Vec<Op> = vec![Op::Build];
    for k in keys { ops.push(Op::Delete(k.into())); for v in &opvecs { ops.push(Op::Store(k.into(), v.clone())); } }
    let bases: Vec<Vec<(String, Vec<f32>)>> = vec![vec![], vec![("a".into(), vec![1.0, 0.0]), ("b".into(), vec![0.5, 1.0])]];
    let seq_queries = vec![vec![1.0, 0.0], vec![0.5, 1.0], vec![1.0, 0.0, 0.0], vec![1.0]];
    let maxlen = if th { 4 } else { 3 };
    for base in &bases {
        let mut idx = vec![];
        loop {
            let seq: Vec<Op> = idx.iter().map(|i: &usize| ops[*i].clone()).collect();
            // thorough length-4 sequences: only those that contain a build (the others add nothing over length 3)
            if seq.len() < 4 || seq.iter().any(|o| matches!(o, Op::Build)) { cx.scenario(base, &seq, &seq_queries, &APIS, ""); }
            // next sequence (odometer over lengths 0..=maxlen)
            let mut i = idx.len();
            loop {
                if i == 0 { idx = vec![0; idx.len() + 1]; break; }
                i -= 1;
                if idx[i] + 1 < ops.len() { idx[i] += 1; for j in i + 1..idx.len() { idx[j] = 0; } break; }
            }
            if idx.len() > maxlen { break; }
        }
    }
    cx.rep.sample(scn_json(&bases[1], &[Op::Build, Op::Delete("a".into())], Api::Similar, &[1.0, 0.0], 2, ""));

    // ---- E'. other writers after a build
    let others: Vec<Op> = vec![
        Op::StoreMeta("n".into(), vec![1.0, 0.0]), Op::StoreMeta("a".into(), vec![0.0, 1.0]), Op::StoreMeta("a".into(), vec![-1.0, 0.0]),
        Op::BatchStore(vec![("n".into(), vec![1.0, 0.0])]), Op::BatchStore(vec![("a".into(), vec![-1.0, 0.0]), ("m".into(), vec![0.5, 1.0])]),
        Op::BatchDelete(vec!["a".into()]), Op::BatchDelete(vec!["a".into(), "b".into()]), Op::BatchDelete(vec!["zz".into()]), Op::Clear];
    let follow: Vec<Option<Op>> = vec![None, Some(Op::Store("c".into(), vec![1.0, 1.0])), Some(Op::Delete("b".into())), Some(Op::Build)];
    let obases: Vec<Vec<(String, Vec<f32>)>> = vec![
        vec![("a".into(), vec![1.0, 0.0])], vec![("a".into(), vec![1.0, 0.0]), ("b".into(), vec![0.5, 1.0])],
        vec![("a".into(), vec![1.0, 0.0]), ("b".into(), vec![0.5, 1.0]), ("c".into(), vec![0.0, -1.0])]];
    for base in &obases { for o in &others { for f in &follow {
        let mut seq = vec![Op::Build, o.clone()];
        if let Some(f) = f { seq.push(f.clone()); }
        cx.scenario(base, &seq, &[vec![1.0, 0.0], vec![0.5, 1.0], vec![-1.0, T]], &[Api::Similar], "");
    } } }

    // ---- D. fresh index: engine level (cached and explicit) and HNSWIndex level
    let hd: [(usize, usize); 5] = if th { [(1, 5), (2, 3), (3, 4), (8, 4), (64, 3)] } else { [(1, 4), (2, 3), (3, 3), (8, 3), (64, 3)] };
    for (d, maxn) in hd {
        let p = pool(d, tier);
        let mut queries: Vec<Vec<f32>> = p.iter().filter(|v| !is_zero(v)).cloned().collect();
        let other_dim_queries = vec![vec![1.0f32; d + 1], vec![1.0f32; d.max(2) - 1]];
        for ms in multisets(p.len(), maxn) {
            if ms.is_empty() { continue; }
            let vs: Vec<Vec<f32>> = ms.iter().map(|i| p[*i].clone()).collect();
            let base = keyed(&vs);
            cx.scenario(&base, &[Op::Build], &queries, &[Api::Similar], "");
            if d != 1 || other_dim_queries[1].len() != d { cx.scenario(&base, &[Op::Build], &other_dim_queries, &[Api::Similar], ""); }
            // explicit index + HNSWIndex API
            reset(&cx.engine);
            let Ok(spec) = setup(&cx.engine, &base, &[]) else { continue; };
            for q in &queries {
                for k in [1usize, 2, vs.len(), vs.len() + 1] {
                    let r = hnsw_explicit(&cx.engine, &spec.model, q, k);
                    cx.rep.eval(true);
                    cx.rep.check(OB_HRES, r.is_ok(), &|| json!({"kind": "hnsw_explicit", "base": kv_json(&base), "q": fv(q), "k": k}), &|| r.clone().err().unwrap_or_default());
                }
            }
            if vs.len() <= 3 {
                for m in [HNSWDistanceMetric::Cosine, HNSWDistanceMetric::Euclidean, HNSWDistanceMetric::DotProduct] {
                    for q in &queries {
                        for k in [1usize, 2, vs.len() + 1] {
                            for ef in [None, Some(1usize), Some(k), Some(50)] {
                                let r = hnsw_direct(m, &vs, q, k, ef);
                                cx.rep.eval(true);
                                cx.rep.check(OB_HDIRECT, r.is_ok(), &|| json!({"kind": "hnsw_direct", "metric": hm_name(m), "vectors": vs.iter().map(|v| fv(v)).collect::<Vec<_>>(), "q": fv(q), "k": k, "ef": ef}),
                                             &|| r.clone().err().unwrap_or_default());
                            }
                        }
                    }
                }
            }
        }
        queries.clear();
    }
    // keys of unusual shape under a fresh index
    for ks in [vec!["emb:x", "y"], vec!["", "a:b"], vec!["coll:c:emb:k", "\u{e9}\u{4e16}"], vec!["emb:", "emb:emb:z"]] {
        let base: Vec<(String, Vec<f32>)> = ks.iter().enumerate().map(|(i, k)| ((*k).to_string(), if i == 0 { vec![1.0, 0.0] } else { vec![0.5, 1.0] })).collect();
        cx.scenario(&base, &[Op::Build], &[vec![1.0, 0.0], vec![0.0, 1.0]], &[Api::Similar], "keys");
        cx.scenario(&base, &[], &[vec![1.0, 0.0], vec![0.0, 1.0]], &APIS, "");
    }

    // non-zero queries whose squared norm underflows in f32 (outside the stated alphabet, kept apart)
    for base in [vec![vec![1.0f32]], vec![vec![1.0], vec![-1.0]], vec![vec![1.0, 0.0], vec![0.0, 1.0], vec![T, T]]] {
        let d = base[0].len();
        let qs: Vec<Vec<f32>> = [1e-23f32, -1e-23, 1e-30].iter().map(|x| { let mut q = vec![0f32; d]; q[0] = *x; q }).chain([vec![1e-25f32; d]]).collect();
        cx.scenario(&keyed(&base), &[], &qs, &APIS, "underflow");
    }

    // ---- named collections, filtered / paginated / entity / parallel entry points
    family_collections(&mut cx);

    // ---- thorough: seeded random scenarios beyond the exhaustive core
    if th {
        let mut rng = Rng(seed ^ 0xC06);
        let rv = |rng: &mut Rng, d: usize| -> Vec<f32> {
            let sparse = rng.below(3) == 0;
            (0..d).map(|_| if sparse && rng.below(10) != 0 { 0.0 } else { ALPHA[rng.below(5) as usize] }).collect()
        };
        for _ in 0..20000 {
            let d = [1usize, 2, 3, 8, 64][rng.below(5) as usize];
            let d2 = if rng.below(4) == 0 { [1usize, 2, 3, 8][rng.below(4) as usize] } else { d };
            let n = rng.below(6) as usize;
            let base: Vec<(String, Vec<f32>)> = (0..n).map(|i| { let dd = if rng.below(5) == 0 { d2 } else { d }; (format!("k{i}"), rv(&mut rng, dd)) }).collect();
            let nops = rng.below(5) as usize;
            let seq: Vec<Op> = (0..nops).map(|_| match rng.below(7) {
                0 | 1 => Op::Build,
                2 | 3 => Op::Delete(format!("k{}", rng.below(6))),
                _ => { let dd = if rng.below(6) == 0 { d2 } else { d }; Op::Store(format!("k{}", rng.below(6)), rv(&mut rng, dd)) },
            }).collect();
            let mut qs = vec![];
            for _ in 0..3 { let q = rv(&mut rng, d); if !is_zero(&q) { qs.push(q); } }
            cx.scenario(&base, &seq, &qs, &APIS, "");
        }
    }

    cx.rep.sample(json!({"observation": "largest |cos_f32 - cos_f64| over all probed pairs (numerical accuracy is not an obligation)", "max_abs_dev": cx.max_dev64, "at": cx.max_dev_case}));
    if cx.divergences > 0 { cx.rep.sample(json!({"observation": "verdicts that failed on the shared engine but held on a fresh one (counted as held)", "count": cx.divergences})); }
    cx.rep
}

// ---------------------------------------------------------------- replay

pub fn replay(ob: &str, case: &Value) -> Result<String, String> {
    match case["kind"].as_str().unwrap_or("search") {
        "coll" => creplay(ob, case),
        "store" => {
            let v = pv(&case["v"]);
            let pre = if case["pre"].is_null() { None } else { Some(pv(&case["pre"])) };
            let e = VectorEngine::new();
            let got = store_case(&e, &v, pre.as_deref());
            store_verdict(if ob == OB_NEGZ { OB_NEGZ } else { OB_STORE }, &v, &got)
        },
        "hnsw_direct" => {
            let vs: Vec<Vec<f32>> = case["vectors"].as_array().map(|a| a.iter().map(pv).collect()).unwrap_or_default();
            let ef = case["ef"].as_u64().map(|x| x as usize);
            hnsw_direct(hm_parse(case["metric"].as_str().unwrap_or("")), &vs, &pv(&case["q"]), case["k"].as_u64().unwrap_or(1) as usize, ef).map(|()| "holds".to_string())
        },
        "hnsw_explicit" => {
            let e = VectorEngine::new();
            let spec = setup(&e, &kv_parse(&case["base"]), &[])?;
            hnsw_explicit(&e, &spec.model, &pv(&case["q"]), case["k"].as_u64().unwrap_or(1) as usize).map(|()| "holds".to_string())
        },
        _ => {
            let base = kv_parse(&case["base"]);
            let ops: Vec<Op> = case["ops"].as_array().map(|a| a.iter().map(Op::parse).collect()).unwrap_or_default();
            let e = VectorEngine::new();
            let spec = setup(&e, &base, &ops).map_err(|d| format!("setup failed: {d}"))?;
            let verdicts = judge(&e, &spec, Api::parse(case["api"].as_str().unwrap_or("similar")), &pv(&case["q"]), case["k"].as_u64().unwrap_or(1) as usize,
                                 case["class"].as_str().unwrap_or(""));
            match verdicts.into_iter().find(|(o, _)| *o == ob) {
                Some((_, Ok(()))) => Ok("holds".into()),
                Some((_, Err(d))) => Err(d),
                None => Ok(format!("obligation {ob} is not decided by this case")),
            }
        },
    }
}
