//! C04 (bounded): relational queries return exactly the rows that satisfy the condition, whatever
//! execution strategy the engine picks (scan, hash index, B-tree range, columnar/vectorised filter,
//! limit/offset, cursors, query text through the router).
//!
//! Spec function: the repository's own public `Condition::evaluate`, applied to the harness' model
//! rows (`Row { id, values }` built from the inserted values and the id returned by `insert`).
//! Every result is compared as a multiset of (row id, all (column, value) pairs), floats by bit pattern.
//!
//! One table `(i: Int?, f: Float?, s: String?)`.
//! Value alphabets: i in {Null, MIN, -1, 0, 1, MAX}; f in {Null, NaN, -inf, -0.0, 0.0, 1.5, inf};
//! s in {Null, "", "a", "é"}.
//!
//! Covering subset of table contents (the full product 168^3 does not fit in 60 s):
//!  * stage A ("focused" tables): for each column c, EVERY sequence of <= N values of c's alphabet in
//!    column c (N = 3 quick, 4 thorough), the other two columns filled by a fixed rotation of their
//!    alphabets; conditions: all 6 operators x column c x its alphabet, 6 operators x `_id` x {1,2},
//!    and `True`; index configurations: none, hash, btree, both (indexes created after the inserts),
//!    hash, btree, both created before the inserts, both created then dropped; for tables containing a Null also
//!    {none, hash, btree, both} with indexes created first and the nullable column OMITTED from the
//!    insert map instead of passing `Value::Null`. Indexes are put on i, f, s and `_id`.
//!  * stage B (And/Or, depth 2): every And/Or of two atoms over the smaller alphabet
//!    {6 ops} x {i:{Null,0}, f:{NaN,-0.0}, s:{"a"}} on all 30 one-row tables and 30 three-row tables
//!    over i:{Null,0,1} x f:{Null,NaN,-0.0,0.0,1.5} x s:{Null,"a"}; configurations none/hash/btree/both.
//!  * stage C (update / delete): focused tables with <= 2 rows (3 thorough) x all atoms on the focused
//!    column x {delete, updates assigning the focused column} x {none, hash, btree, both-first}; after
//!    the mutation the whole table is read back (frame) and probe selects re-check every index.
//!  * stage D (router text): 24 three-row tables x text-expressible atoms and a few And/Or.
//!  * stage E (lane tables): the vectorised filters process groups of four rows and a scalar tail, so tables
//!    of 4 / 5 / 9 rows (thorough: 4/5/8/9/13) whose numeric column holds b everywhere except a at one
//!    position, for all a, b of the alphabet and all positions, x all atoms, scan vs columnar vs count.
//!  * stage F (compound conditions after a history): tables of 3..=5 live rows produced by a HISTORY of inserts,
//!    updates (by row and by value), deletes, re-inserts and updates inside an explicit transaction (committed and
//!    rolled back): an older row updated INTO a value that newer rows already hold (and out of it again), both indexed
//!    columns assigned at once, a row deleted and a new row inserted with the same values, multi-row updates, rows
//!    swapping values; x 3 value palettes over the column pairs (i,s), (i,f) with Null / -0.0 and (f,s) with NaN; x hash
//!    and/or B-tree indexes on the TWO columns (hash+hash, btree+btree, hash+btree, btree+hash, both+both), created before
//!    the history, after the initial inserts or after the whole history (7 configurations for the first palette, 3 for
//!    the others); then EVERY And/Or of two atoms (6 operators x
//!    the two held values and one value the table does not hold, on either of the two indexed columns: 36 atoms, 2592
//!    conditions), read through select / select_columnar / count / sum / min / max / select_with_limit /
//!    select_iter / streaming.  The whole table is read back after the history (C04.update_delete).  The model of the
//!    table is maintained by the harness (a row is touched by a step iff `Condition::evaluate` is true for it).
//!    The cases go to the obligations of the older stages: C04.select.hash when both columns carry hash indexes only,
//!    C04.select.btree for B-tree only, C04.select.both otherwise; C04.select.columnar / C04.count_agg / C04.limit /
//!    C04.limit.stream by operation.  Case format: "history" (list of steps) instead of "rows", cfg.cols / cfg.index_at.
//! Thorough adds depth-3 conditions and seeded random 5-row tables with two extra tiny floats
//! (not exhaustive).
//!
//! Engines are expensive to create (~1 ms), so `run` puts up to 256 successive tables (distinct names,
//! each dropped after use, one live table at a time) into one engine; `replay` always uses a fresh
//! engine, and every failure detail recorded by `run` says whether the fresh-engine replay agrees.
use crate::fw::{Report, Rng, Tier};
use graph_engine::GraphEngine;
use query_router::{QueryResult, QueryRouter};
use relational_engine::{
    Column, ColumnType, ColumnarScanOptions, Condition, CursorOptions, RelationalConfig, RelationalEngine, Row, Schema,
    Value,
};
use serde_json::{json, Value as J};
use std::collections::HashMap;
use std::sync::Arc;
use vector_engine::VectorEngine;

const COLS: [&str; 3] = ["i", "f", "s"];
const ICOLS: [&str; 4] = ["i", "f", "s", "_id"];
const POOL_TABLES: usize = 256;

type Vals = [Value; 3];
type MRow = (u64, Vals);

// ---------------------------------------------------------------- alphabets

fn alpha(k: usize) -> Vec<Value> {
    match k {
        0 => vec![Value::Null, Value::Int(i64::MIN), Value::Int(-1), Value::Int(0), Value::Int(1), Value::Int(i64::MAX)],
        1 => vec![
            Value::Null,
            Value::Float(f64::NAN),
            Value::Float(f64::NEG_INFINITY),
            Value::Float(-0.0),
            Value::Float(0.0),
            Value::Float(1.5),
            Value::Float(f64::INFINITY),
        ],
        _ => vec![Value::Null, Value::String(String::new()), Value::String("a".into()), Value::String("é".into())],
    }
}

fn small_alpha(k: usize) -> Vec<Value> {
    match k {
        0 => vec![Value::Null, Value::Int(0), Value::Int(1)],
        1 => vec![Value::Null, Value::Float(f64::NAN), Value::Float(-0.0), Value::Float(0.0), Value::Float(1.5)],
        _ => vec![Value::Null, Value::String("a".into())],
    }
}

fn mk(op: usize, col: &str, v: &Value) -> Condition {
    let (c, v) = (col.to_string(), v.clone());
    match op {
        0 => Condition::Eq(c, v),
        1 => Condition::Ne(c, v),
        2 => Condition::Lt(c, v),
        3 => Condition::Le(c, v),
        4 => Condition::Gt(c, v),
        _ => Condition::Ge(c, v),
    }
}

fn atoms(col: &str, vals: &[Value]) -> Vec<Condition> {
    let mut out = vec![];
    for op in 0..6 {
        for v in vals {
            out.push(mk(op, col, v));
        }
    }
    out
}

// ---------------------------------------------------------------- JSON codec of cases

fn venc(v: &Value) -> String {
    match v {
        Value::Null => "null".into(),
        Value::Int(i) => format!("i:{i}"),
        Value::Float(f) => {
            if f.is_nan() && f.to_bits() != f64::NAN.to_bits() {
                format!("f:bits:{:016x}", f.to_bits())
            } else {
                format!("f:{f:?}")
            }
        },
        Value::String(s) => format!("s:{s}"),
        o => format!("?:{o:?}"),
    }
}

fn vdec(s: &str) -> Result<Value, String> {
    if s == "null" {
        return Ok(Value::Null);
    }
    if let Some(r) = s.strip_prefix("i:") {
        return r.parse::<i64>().map(Value::Int).map_err(|e| e.to_string());
    }
    if let Some(r) = s.strip_prefix("f:bits:") {
        return u64::from_str_radix(r, 16).map(|b| Value::Float(f64::from_bits(b))).map_err(|e| e.to_string());
    }
    if let Some(r) = s.strip_prefix("f:") {
        return r.parse::<f64>().map(Value::Float).map_err(|e| e.to_string());
    }
    if let Some(r) = s.strip_prefix("s:") {
        return Ok(Value::String(r.to_string()));
    }
    Err(format!("bad value {s}"))
}

fn cenc(c: &Condition) -> J {
    match c {
        Condition::True => json!(["true"]),
        Condition::Eq(c, v) => json!(["eq", c, venc(v)]),
        Condition::Ne(c, v) => json!(["ne", c, venc(v)]),
        Condition::Lt(c, v) => json!(["lt", c, venc(v)]),
        Condition::Le(c, v) => json!(["le", c, venc(v)]),
        Condition::Gt(c, v) => json!(["gt", c, venc(v)]),
        Condition::Ge(c, v) => json!(["ge", c, venc(v)]),
        Condition::And(a, b) => json!(["and", cenc(a), cenc(b)]),
        Condition::Or(a, b) => json!(["or", cenc(a), cenc(b)]),
        _ => json!(["?"]),
    }
}

fn cdec(j: &J) -> Result<Condition, String> {
    let a = j.as_array().ok_or("cond not array")?;
    let tag = a.first().and_then(J::as_str).ok_or("cond tag")?;
    match tag {
        "true" => Ok(Condition::True),
        "and" | "or" => {
            let l = cdec(a.get(1).ok_or("lhs")?)?;
            let r = cdec(a.get(2).ok_or("rhs")?)?;
            Ok(if tag == "and" { l.and(r) } else { l.or(r) })
        },
        _ => {
            let col = a.get(1).and_then(J::as_str).ok_or("col")?;
            let v = vdec(a.get(2).and_then(J::as_str).ok_or("val")?)?;
            let op = ["eq", "ne", "lt", "le", "gt", "ge"].iter().position(|t| *t == tag).ok_or("op")?;
            Ok(mk(op, col, &v))
        },
    }
}

#[derive(Clone, Copy, PartialEq, Eq, Debug)]
enum Idx {
    None,
    Hash,
    Btree,
    Both,
    Dropped,
}

/// index configuration: which indexes, created before (`first`) or after the inserts, and whether a
/// Null is passed as `Value::Null` or by omitting the column from the insert map (`omit`)
#[derive(Clone, Copy, Debug)]
struct Cfg {
    idx: Idx,
    first: bool,
    omit: bool,
}

impl Cfg {
    const fn new(idx: Idx, first: bool, omit: bool) -> Self {
        Self { idx, first, omit }
    }
    fn enc(self) -> J {
        let n = match self.idx {
            Idx::None => "none",
            Idx::Hash => "hash",
            Idx::Btree => "btree",
            Idx::Both => "both",
            Idx::Dropped => "dropped",
        };
        json!({"idx": n, "index_first": self.first, "omit_null": self.omit})
    }
    fn dec(j: &J) -> Result<Self, String> {
        let idx = match j["idx"].as_str().ok_or("idx")? {
            "none" => Idx::None,
            "hash" => Idx::Hash,
            "btree" => Idx::Btree,
            "both" => Idx::Both,
            "dropped" => Idx::Dropped,
            o => return Err(format!("bad idx {o}")),
        };
        Ok(Self { idx, first: j["index_first"].as_bool().unwrap_or(false), omit: j["omit_null"].as_bool().unwrap_or(false) })
    }
    const fn select_ob(self) -> &'static str {
        match self.idx {
            Idx::None => "C04.select.scan",
            Idx::Hash => "C04.select.hash",
            Idx::Btree => "C04.select.btree",
            Idx::Both => "C04.select.both",
            Idx::Dropped => "C04.select.dropped",
        }
    }
}

fn rows_enc(rows: &[Vals]) -> J {
    J::Array(rows.iter().map(|r| json!([venc(&r[0]), venc(&r[1]), venc(&r[2])])).collect())
}

fn rows_dec(j: &J) -> Result<Vec<Vals>, String> {
    let mut out = vec![];
    for r in j.as_array().ok_or("rows")? {
        let g = |k: usize| -> Result<Value, String> { vdec(r.get(k).and_then(J::as_str).ok_or("row value")?) };
        out.push([g(0)?, g(1)?, g(2)?]);
    }
    Ok(out)
}

fn us_dec(j: &J) -> Result<usize, String> {
    j.as_str().ok_or("usize as string")?.parse::<usize>().map_err(|e| e.to_string())
}

// ---------------------------------------------------------------- world = engine + table + model

fn new_engine() -> RelationalEngine {
    // no wall-clock boundaries: no query timeout, day-long transaction/lock timeouts
    RelationalEngine::with_config(RelationalConfig {
        default_query_timeout_ms: None,
        max_query_timeout_ms: None,
        transaction_timeout_secs: 86_400,
        lock_timeout_secs: 86_400,
        ..RelationalConfig::default()
    })
}

struct Pool {
    eng: Arc<RelationalEngine>,
    made: usize,
}

impl Pool {
    fn new() -> Self {
        Self { eng: Arc::new(new_engine()), made: 0 }
    }
    fn next(&mut self) -> (Arc<RelationalEngine>, String) {
        if self.made >= POOL_TABLES {
            *self = Self::new();
        }
        self.made += 1;
        (Arc::clone(&self.eng), format!("t{}", self.made))
    }
}

struct World {
    eng: Arc<RelationalEngine>,
    table: String,
    model: Vec<MRow>,
}

impl Drop for World {
    fn drop(&mut self) {
        let _ = self.eng.drop_table(&self.table);
    }
}

fn create_indexes(e: &RelationalEngine, t: &str, idx: Idx) -> Result<(), String> {
    if matches!(idx, Idx::Hash | Idx::Both | Idx::Dropped) {
        for c in ICOLS {
            e.create_index(t, c).map_err(|x| format!("create_index({c}): {x:?}"))?;
        }
    }
    if matches!(idx, Idx::Btree | Idx::Both | Idx::Dropped) {
        for c in ICOLS {
            e.create_btree_index(t, c).map_err(|x| format!("create_btree_index({c}): {x:?}"))?;
        }
    }
    Ok(())
}

fn build(pool: &mut Pool, rows: &[Vals], cfg: Cfg) -> Result<World, String> {
    let (eng, table) = pool.next();
    let schema = Schema::new(vec![
        Column::new("i", ColumnType::Int).nullable(),
        Column::new("f", ColumnType::Float).nullable(),
        Column::new("s", ColumnType::String).nullable(),
    ]);
    eng.create_table(&table, schema).map_err(|x| format!("create_table: {x:?}"))?;
    let mut w = World { eng, table, model: vec![] };
    let (e, t) = (Arc::clone(&w.eng), w.table.clone());
    if cfg.first {
        create_indexes(&e, &t, cfg.idx)?;
    }
    for r in rows {
        let mut m = HashMap::new();
        for (k, c) in COLS.iter().enumerate() {
            if !(cfg.omit && r[k] == Value::Null) {
                m.insert((*c).to_string(), r[k].clone());
            }
        }
        let id = e.insert(&t, m).map_err(|x| format!("insert({r:?}): {x:?}"))?;
        if w.model.iter().any(|(i, _)| *i == id) {
            return Err(format!("insert returned duplicate row id {id}"));
        }
        w.model.push((id, r.clone()));
    }
    if !cfg.first {
        create_indexes(&e, &t, cfg.idx)?;
    }
    if cfg.idx == Idx::Dropped {
        for c in ICOLS {
            e.drop_index(&t, c).map_err(|x| format!("drop_index({c}): {x:?}"))?;
            e.drop_btree_index(&t, c).map_err(|x| format!("drop_btree_index({c}): {x:?}"))?;
        }
    }
    w.model.sort_by_key(|r| r.0);
    Ok(w)
}

fn to_row(m: &MRow) -> Row {
    Row { id: m.0, values: COLS.iter().enumerate().map(|(k, c)| ((*c).to_string(), m.1[k].clone())).collect() }
}

fn vkey(v: &Value) -> String {
    match v {
        Value::Null => "N".into(),
        Value::Int(i) => format!("I{i}"),
        Value::Float(f) => format!("F{:016x}", f.to_bits()),
        Value::String(s) => format!("S{s:?}"),
        o => format!("?{o:?}"),
    }
}

/// canonical (row id, all column values) key; floats by bits
fn rkey(r: &Row) -> String {
    let mut kv: Vec<String> = r.values.iter().map(|(k, v)| format!("{k}={}", vkey(v))).collect();
    kv.sort();
    format!("#{} {}", r.id, kv.join(" "))
}

fn keys(rows: &[Row]) -> Vec<String> {
    let mut k: Vec<String> = rows.iter().map(rkey).collect();
    k.sort();
    k
}

/// the spec: rows of the model for which the repository's `Condition::evaluate` is true (id order)
struct Want {
    rows: Vec<Row>,
    keys: Vec<String>,
}

fn spec(model: &[MRow], c: &Condition) -> Want {
    let rows: Vec<Row> = model.iter().map(to_row).filter(|r| c.evaluate(r)).collect();
    let keys = keys(&rows);
    Want { rows, keys }
}

fn sub_multiset(small: &[String], big: &[String]) -> bool {
    // both sorted
    let mut j = 0;
    for s in small {
        while j < big.len() && &big[j] < s {
            j += 1;
        }
        if j >= big.len() || &big[j] != s {
            return false;
        }
        j += 1;
    }
    true
}

// ---------------------------------------------------------------- read operations

#[derive(Clone, Copy, Debug)]
enum Op {
    Select,
    Columnar,
    Count,
    Sum(usize),
    Avg(usize),
    Min(usize),
    Max(usize),
    Limit(usize, usize),
    Iter(usize, Option<usize>),
    Stream(usize),
}

impl Op {
    fn enc(self) -> J {
        match self {
            Self::Select => json!({"op": "select"}),
            Self::Columnar => json!({"op": "select_columnar"}),
            Self::Count => json!({"op": "count"}),
            Self::Sum(k) => json!({"op": "sum", "col": COLS[k]}),
            Self::Avg(k) => json!({"op": "avg", "col": COLS[k]}),
            Self::Min(k) => json!({"op": "min", "col": COLS[k]}),
            Self::Max(k) => json!({"op": "max", "col": COLS[k]}),
            Self::Limit(l, o) => json!({"op": "select_with_limit", "limit": l.to_string(), "offset": o.to_string()}),
            Self::Iter(o, l) => json!({"op": "select_iter", "offset": o.to_string(), "limit": l.map(|x| x.to_string())}),
            Self::Stream(b) => json!({"op": "select_streaming", "batch": b.to_string()}),
        }
    }
    fn dec(j: &J) -> Result<Self, String> {
        let col = || COLS.iter().position(|c| Some(*c) == j["col"].as_str()).ok_or_else(|| "col".to_string());
        Ok(match j["op"].as_str().ok_or("op")? {
            "select" => Self::Select,
            "select_columnar" => Self::Columnar,
            "count" => Self::Count,
            "sum" => Self::Sum(col()?),
            "avg" => Self::Avg(col()?),
            "min" => Self::Min(col()?),
            "max" => Self::Max(col()?),
            "select_with_limit" => Self::Limit(us_dec(&j["limit"])?, us_dec(&j["offset"])?),
            "select_iter" => {
                Self::Iter(us_dec(&j["offset"])?, if j["limit"].is_null() { None } else { Some(us_dec(&j["limit"])?) })
            },
            "select_streaming" => Self::Stream(us_dec(&j["batch"])?),
            o => return Err(format!("bad op {o}")),
        })
    }
    const fn ob(self, cfg: Cfg) -> &'static str {
        match self {
            Self::Select => cfg.select_ob(),
            Self::Columnar => "C04.select.columnar",
            Self::Count | Self::Sum(_) | Self::Avg(_) | Self::Min(_) | Self::Max(_) => "C04.count_agg",
            Self::Limit(..) | Self::Iter(..) => "C04.limit",
            Self::Stream(_) => "C04.limit.stream",
        }
    }
}

fn feq(a: f64, b: f64) -> bool {
    (a.is_nan() && b.is_nan()) || a.to_bits() == b.to_bits()
}

fn numeric(v: &Value) -> Option<f64> {
    #[allow(clippy::cast_precision_loss)]
    match v {
        Value::Int(i) => Some(*i as f64),
        Value::Float(f) => Some(*f),
        _ => None,
    }
}

fn pcmp(a: &Value, b: &Value) -> Option<std::cmp::Ordering> {
    match (a, b) {
        (Value::Int(x), Value::Int(y)) => Some(x.cmp(y)),
        (Value::Float(x), Value::Float(y)) => x.partial_cmp(y),
        (Value::String(x), Value::String(y)) => Some(x.cmp(y)),
        _ => None,
    }
}

/// limit/offset clause: a sub-multiset of the satisfying rows, of size min(limit, |satisfying| - offset)
fn check_limited(got: &[Row], want: &Want, limit: usize, offset: usize) -> Result<String, String> {
    let g = keys(got);
    let w = &want.keys;
    let size = limit.min(w.len().saturating_sub(offset));
    if g.len() != size {
        return Err(format!("returned {} rows {g:?}, expected {size} of the {} satisfying rows {w:?}", g.len(), w.len()));
    }
    if !sub_multiset(&g, w) {
        return Err(format!("returned {g:?} is not a sub-multiset of the satisfying rows {w:?}"));
    }
    Ok(format!("{} of {} rows", g.len(), w.len()))
}

/// Evaluate one read operation on the world and compare with the spec. Err = obligation fails.
fn read_op(w: &World, c: &Condition, op: Op, want: &Want) -> Result<String, String> {
    let (e, t) = (&w.eng, w.table.as_str());
    let exact = |got: Vec<Row>| -> Result<String, String> {
        let g = keys(&got);
        if g == want.keys {
            Ok(format!("{} rows", g.len()))
        } else {
            Err(format!("returned {g:?}, satisfying rows are {:?}", want.keys))
        }
    };
    match op {
        Op::Select => exact(e.select(t, c.clone()).map_err(|x| format!("select Err {x:?}"))?),
        Op::Columnar => {
            let o = ColumnarScanOptions { projection: None, prefer_columnar: true };
            exact(e.select_columnar(t, c.clone(), o).map_err(|x| format!("select_columnar Err {x:?}"))?)
        },
        Op::Count => {
            let n = e.count(t, c.clone()).map_err(|x| format!("count Err {x:?}"))?;
            if n == want.rows.len() as u64 {
                Ok(format!("count {n}"))
            } else {
                Err(format!("count = {n}, {} rows satisfy: {:?}", want.rows.len(), want.keys))
            }
        },
        Op::Sum(k) | Op::Avg(k) => {
            // values of the satisfying rows, id order, sequential f64 addition (Null / non-numeric skipped)
            let nums: Vec<f64> = want.rows.iter().filter_map(|r| numeric(&r.values[k].1)).collect();
            let total = nums.iter().fold(0.0_f64, |a, b| a + b);
            if matches!(op, Op::Sum(_)) {
                let s = e.sum(t, COLS[k], c.clone()).map_err(|x| format!("sum Err {x:?}"))?;
                if feq(s, total) {
                    Ok(format!("sum {s}"))
                } else {
                    Err(format!("sum = {s:?}, satisfying values {nums:?} sum to {total:?}"))
                }
            } else {
                #[allow(clippy::cast_precision_loss)]
                let exp = if nums.is_empty() { None } else { Some(total / nums.len() as f64) };
                let a = e.avg(t, COLS[k], c.clone()).map_err(|x| format!("avg Err {x:?}"))?;
                let ok = match (a, exp) {
                    (None, None) => true,
                    (Some(x), Some(y)) => feq(x, y),
                    _ => false,
                };
                if ok {
                    Ok(format!("avg {a:?}"))
                } else {
                    Err(format!("avg = {a:?}, satisfying values {nums:?} average to {exp:?}"))
                }
            }
        },
        Op::Min(k) | Op::Max(k) => {
            let is_min = matches!(op, Op::Min(_));
            let vals: Vec<&Value> = want.rows.iter().map(|r| &r.values[k].1).filter(|v| !matches!(v, Value::Null)).collect();
            let got = if is_min { e.min(t, COLS[k], c.clone()) } else { e.max(t, COLS[k], c.clone()) }
                .map_err(|x| format!("min/max Err {x:?}"))?;
            let beyond = if is_min { std::cmp::Ordering::Less } else { std::cmp::Ordering::Greater };
            let ok = match &got {
                None => vals.is_empty(),
                // an extremal element of the (partial) value order: it is bitwise one of the satisfying
                // non-null values and no satisfying value is strictly beyond it
                Some(m) => vals.iter().any(|v| vkey(v) == vkey(m)) && !vals.iter().any(|v| pcmp(v, m) == Some(beyond)),
            };
            if ok {
                Ok(format!("extremum {got:?}"))
            } else {
                Err(format!("{} = {got:?} over satisfying non-null values {vals:?}", if is_min { "min" } else { "max" }))
            }
        },
        Op::Limit(l, o) => {
            let got = e.select_with_limit(t, c.clone(), l, o).map_err(|x| format!("select_with_limit Err {x:?}"))?;
            check_limited(&got, want, l, o)
        },
        Op::Iter(o, l) => {
            let cur = e
                .select_iter(t, c.clone(), CursorOptions { batch_size: 1000, offset: o, limit: l })
                .map_err(|x| format!("select_iter Err {x:?}"))?;
            let got: Result<Vec<Row>, _> = cur.collect();
            let got = got.map_err(|x| format!("cursor Err {x:?}"))?;
            check_limited(&got, want, l.unwrap_or(usize::MAX), o)
        },
        Op::Stream(b) => {
            let cur = e.select_streaming_builder(t, c.clone()).batch_size(b).build();
            let got: Result<Vec<Row>, _> = cur.collect();
            exact(got.map_err(|x| format!("streaming cursor Err {x:?}"))?)
        },
    }
}

fn read_case(rows: &[Vals], cfg: Cfg, c: &Condition, op: Op) -> J {
    let mut j = op.enc();
    j["rows"] = rows_enc(rows);
    j["cfg"] = cfg.enc();
    j["cond"] = cenc(c);
    j
}

/// failure detail + whether the same case also fails on a fresh engine (what `replay` does)
fn with_fresh(ob: &str, case: &J, detail: &str) -> String {
    let fresh = match replay(ob, case) {
        Ok(_) => "HOLDS (not reproducible from scratch!)",
        Err(_) => "FAILS too",
    };
    format!("{detail}; fresh-engine replay: {fresh}")
}

fn do_reads(rep: &mut Rp, w: &World, rows: &[Vals], cfg: Cfg, c: &Condition, ops: &[Op]) {
    let want = spec(&w.model, c);
    let n = want.rows.len();
    for &op in ops {
        let r = read_op(w, c, op, &want);
        rep.eval(n > 0 && (n < w.model.len() || cfg.idx != Idx::None));
        let ob = op.ob(cfg);
        rep.check(ob, r.is_ok(), &|| read_case(rows, cfg, c, op), &|| {
            with_fresh(ob, &read_case(rows, cfg, c, op), r.as_ref().err().map_or("", String::as_str))
        });
    }
}


// ---------------------------------------------------------------- failure bookkeeping

/// `fw::Report` keeps the first 25 failing cases per obligation. One defect typically produces
/// thousands of failing cases, so failing checks are buffered here per failure class
/// (operation, index configuration, condition shape, "filtered column holds a Null") and handed to the
/// report at the end of `run`, one representative per class first, so that the 25 kept cases cover as
/// many distinct classes as possible. Every failing check is still counted exactly once.
struct Rp {
    rep: Report,
    order: Vec<(String, String, String)>,
    fails: HashMap<(String, String, String), (u64, Vec<(J, String)>)>,
}

fn vshape(v: &str) -> &'static str {
    match v {
        "null" => "Null",
        "f:NaN" => "NaN",
        "f:inf" | "f:-inf" => "inf",
        "f:-0.0" => "-0.0",
        "f:0.0" | "i:0" => "0",
        _ => "v",
    }
}

fn cshape(c: &J, cols: &mut Vec<String>) -> String {
    let tag = c[0].as_str().unwrap_or("?");
    match tag {
        "and" | "or" => format!("{tag}({},{})", cshape(&c[1], cols), cshape(&c[2], cols)),
        "true" => "true".into(),
        _ => {
            let col = c[1].as_str().unwrap_or("?");
            if !cols.iter().any(|x| x == col) {
                cols.push(col.to_string());
            }
            let op = if tag == "eq" || tag == "ne" { tag } else { "range" };
            format!("{op} {col} {}", vshape(c[2].as_str().unwrap_or("?")))
        },
    }
}

/// (primary class: operation + condition shape + "filtered column holds a Null", index configuration)
fn class_of(case: &J) -> (String, String) {
    let mut cols = vec![];
    let shape = cshape(&case["cond"], &mut cols);
    let nullcol = case["rows"].as_array().is_some_and(|rows| {
        rows.iter().any(|r| cols.iter().any(|c| COLS.iter().position(|x| x == c).is_some_and(|k| r[k] == "null")))
    });
    let mut_part = if case["mutation"].is_null() { String::new() } else { format!(" after {}", case["mutation"]) };
    let set_part = if case["set"].is_null() { String::new() } else { format!(" set {}", case["set"]) };
    let hist_part = if case["hist"].is_null() { String::new() } else { format!(" after history {}", case["hist"]) };
    let cols_part = if case["cfg"]["cols"].is_null() { String::new() } else { format!(" cols={} index_at={}", case["cfg"]["cols"], case["cfg"]["index_at"]) };
    (
        format!("{}{set_part}{mut_part}{hist_part} | {shape} | null in filtered column: {nullcol}", case["op"].as_str().unwrap_or("?")),
        format!(
            "idx={} first={} omit={}{cols_part}",
            case["cfg"]["idx"].as_str().unwrap_or("?"),
            case["cfg"]["index_first"],
            case["cfg"]["omit_null"]
        ),
    )
}

impl Rp {
    fn eval(&mut self, nontrivial: bool) {
        self.rep.eval(nontrivial);
    }
    fn check(&mut self, ob: &str, ok: bool, case: &dyn Fn() -> J, detail: &dyn Fn() -> String) {
        if ok {
            self.rep.check(ob, true, case, detail);
            return;
        }
        let cj = case();
        let (primary, cfgpart) = class_of(&cj);
        let key = (ob.to_string(), primary, cfgpart);
        if !self.fails.contains_key(&key) {
            self.order.push(key.clone());
        }
        let e = self.fails.entry(key).or_insert((0, vec![]));
        e.0 += 1;
        if e.1.len() < 2 {
            e.1.push((cj, detail()));
        }
    }
    fn flush(mut self) -> Report {
        // emission order: first one representative of every primary class (its first index configuration),
        // then the other index configurations of each class, then second representatives
        let mut seen: HashMap<(String, String), usize> = HashMap::new();
        let mut ranked: Vec<(usize, usize, usize)> = vec![];
        for (pos, key) in self.order.iter().enumerate() {
            let v = seen.entry((key.0.clone(), key.1.clone())).or_insert(0);
            for round in 0..2 {
                ranked.push((round, *v, pos));
            }
            *v += 1;
        }
        ranked.sort_unstable();
        let mut emitted: HashMap<String, u64> = HashMap::new();
        for (round, _, pos) in ranked {
            let key = &self.order[pos];
            let (count, reps) = &self.fails[key];
            if let Some((case, detail)) = reps.get(round) {
                let d = format!("{detail} [failure class `{}` with {}: {count} failing cases in this run]", key.1, key.2);
                self.rep.check(&key.0, false, &|| case.clone(), &|| d.clone());
                *emitted.entry(key.0.clone()).or_insert(0) += 1;
            }
        }
        let mut total: HashMap<String, u64> = HashMap::new();
        for key in &self.order {
            *total.entry(key.0.clone()).or_insert(0) += self.fails[key].0;
        }
        for (ob, n) in total {
            for _ in emitted.get(&ob).copied().unwrap_or(0)..n {
                self.rep.check(&ob, false, &|| J::Null, &String::new);
            }
        }
        self.rep
    }
}

// ---------------------------------------------------------------- mutations

#[derive(Clone, Debug)]
enum Mut {
    Delete,
    Update(Vec<(usize, Value)>),
}

impl Mut {
    fn enc(&self) -> J {
        match self {
            Self::Delete => json!({"op": "delete_rows"}),
            Self::Update(a) => {
                let mut m = serde_json::Map::new();
                for (k, v) in a {
                    m.insert(COLS[*k].to_string(), J::String(venc(v)));
                }
                json!({"op": "update", "set": m})
            },
        }
    }
    fn dec(j: &J) -> Result<Self, String> {
        match j["op"].as_str().ok_or("mut op")? {
            "delete_rows" => Ok(Self::Delete),
            "update" => {
                let mut a = vec![];
                for (k, v) in j["set"].as_object().ok_or("set")? {
                    let col = COLS.iter().position(|c| c == k).ok_or("set col")?;
                    a.push((col, vdec(v.as_str().ok_or("set val")?)?));
                }
                Ok(Self::Update(a))
            },
            o => Err(format!("bad mut {o}")),
        }
    }
}

/// Apply the mutation to a new table; returns the world whose model is the REQUIRED post-state, the
/// number of satisfying rows and the verdict of the update/delete clause (count + whole-table frame).
fn mutate(pool: &mut Pool, rows: &[Vals], cfg: Cfg, c: &Condition, m: &Mut) -> Result<(World, usize, Result<String, String>), String> {
    let mut w = build(pool, rows, cfg)?;
    let hit: Vec<u64> = spec(&w.model, c).rows.iter().map(|r| r.id).collect();
    let ret = match m {
        Mut::Delete => w.eng.delete_rows(&w.table, c.clone()),
        Mut::Update(a) => {
            let set: HashMap<String, Value> = a.iter().map(|(k, v)| (COLS[*k].to_string(), v.clone())).collect();
            w.eng.update(&w.table, c.clone(), set)
        },
    };
    // required post-state: satisfying rows deleted / assigned, every other row untouched
    match m {
        Mut::Delete => w.model.retain(|r| !hit.contains(&r.0)),
        Mut::Update(a) => {
            for r in &mut w.model {
                if hit.contains(&r.0) {
                    for (k, v) in a {
                        r.1[*k] = v.clone();
                    }
                }
            }
        },
    }
    let verdict = (|| {
        let n = ret.map_err(|x| format!("mutation Err {x:?}"))?;
        if n != hit.len() {
            return Err(format!("reported {n} touched rows, satisfying row ids are {hit:?}"));
        }
        let all = w.eng.select(&w.table, Condition::True).map_err(|x| format!("read-back Err {x:?}"))?;
        let want: Vec<Row> = w.model.iter().map(to_row).collect();
        let (g, x) = (keys(&all), keys(&want));
        if g != x {
            return Err(format!("table afterwards {g:?}, required {x:?} (satisfying ids {hit:?})"));
        }
        let cnt = w.eng.count(&w.table, Condition::True).map_err(|x| format!("count Err {x:?}"))?;
        if cnt != want.len() as u64 {
            return Err(format!("count(True) = {cnt}, table has {} rows", want.len()));
        }
        Ok(format!("{} rows touched, table afterwards as required", hit.len()))
    })();
    Ok((w, hit.len(), verdict))
}

/// probe selects after a mutation: Eq on every value of every column, Le/Gt on every value of the
/// focused column, one Ge per other column, two `_id` probes
fn probes(k: usize) -> Vec<Condition> {
    let mut p = vec![];
    for (j, c) in COLS.iter().enumerate() {
        let al = alpha(j);
        for v in &al {
            p.push(mk(0, c, v));
            if j == k {
                p.push(mk(3, c, v));
                p.push(mk(4, c, v));
            }
        }
        if j != k {
            p.push(mk(5, c, &al[2]));
        }
    }
    p.push(mk(0, "_id", &Value::Int(1)));
    p.push(mk(5, "_id", &Value::Int(2)));
    p
}

fn mut_case(rows: &[Vals], cfg: Cfg, c: &Condition, m: &Mut) -> J {
    let mut j = m.enc();
    j["rows"] = rows_enc(rows);
    j["cfg"] = cfg.enc();
    j["cond"] = cenc(c);
    j
}

fn do_mut(rep: &mut Rp, pool: &mut Pool, rows: &[Vals], cfg: Cfg, c: &Condition, m: &Mut, pr: &[Condition]) {
    match mutate(pool, rows, cfg, c, m) {
        Err(setup) => {
            rep.eval(false);
            rep.check("C04.setup", false, &|| mut_case(rows, cfg, c, m), &|| format!("setup failed: {setup}"));
        },
        Ok((w, hits, verdict)) => {
            rep.eval(hits > 0);
            rep.check("C04.update_delete", verdict.is_ok(), &|| mut_case(rows, cfg, c, m), &|| {
                with_fresh("C04.update_delete", &mut_case(rows, cfg, c, m), verdict.as_ref().err().map_or("", String::as_str))
            });
            if matches!(cfg.idx, Idx::Hash | Idx::Btree | Idx::Both) {
                for p in pr {
                    let want = spec(&w.model, p);
                    let r = read_op(&w, p, Op::Select, &want);
                    rep.eval(hits > 0 && !want.rows.is_empty());
                    let case = || {
                        let mut j = json!({"op": "probe_after", "mutation": m.enc(), "probe": cenc(p)});
                        j["rows"] = rows_enc(rows);
                        j["cfg"] = cfg.enc();
                        j["cond"] = cenc(c);
                        j
                    };
                    rep.check("C04.index.maintenance", r.is_ok(), &case, &|| {
                        let d = format!("after the mutation, select({}) {}", cenc(p), r.as_ref().err().map_or("", String::as_str));
                        with_fresh("C04.index.maintenance", &case(), &d)
                    });
                }
            }
        },
    }
}

// ---------------------------------------------------------------- stage F: compound conditions after a history

/// the rows a step applies to: the k-th inserted row of the history (by the id `insert` returned) or a condition
#[derive(Clone, Debug)]
enum Tgt {
    Row(usize),
    Cond(Condition),
}

#[derive(Clone, Debug)]
enum Step {
    Ins(Vals),
    Upd(Tgt, Vec<(usize, Value)>),
    Del(Tgt),
    /// `tx_update` inside an explicit transaction which is then committed (true) or rolled back (false)
    TxUpd(Tgt, Vec<(usize, Value)>, bool),
}

fn set_enc(a: &[(usize, Value)]) -> J {
    let mut m = serde_json::Map::new();
    for (k, v) in a {
        m.insert(COLS[*k].to_string(), J::String(venc(v)));
    }
    J::Object(m)
}

fn set_dec(j: &J) -> Result<Vec<(usize, Value)>, String> {
    let mut a = vec![];
    for (k, v) in j.as_object().ok_or("set")? {
        let col = COLS.iter().position(|c| c == k).ok_or("set col")?;
        a.push((col, vdec(v.as_str().ok_or("set val")?)?));
    }
    Ok(a)
}

impl Tgt {
    fn enc(&self) -> J {
        match self {
            Self::Row(k) => json!(["row", k]),
            Self::Cond(c) => cenc(c),
        }
    }
    fn dec(j: &J) -> Result<Self, String> {
        if j[0].as_str() == Some("row") {
            return Ok(Self::Row(j[1].as_u64().ok_or("row number")? as usize));
        }
        cdec(j).map(Self::Cond)
    }
}

impl Step {
    fn enc(&self) -> J {
        match self {
            Self::Ins(r) => json!(["ins", [venc(&r[0]), venc(&r[1]), venc(&r[2])]]),
            Self::Upd(t, a) => json!(["upd", t.enc(), set_enc(a)]),
            Self::Del(t) => json!(["del", t.enc()]),
            Self::TxUpd(t, a, commit) => json!(["txupd", t.enc(), set_enc(a), if *commit { "commit" } else { "rollback" }]),
        }
    }
    fn dec(j: &J) -> Result<Self, String> {
        match j[0].as_str().ok_or("step tag")? {
            "ins" => Ok(Self::Ins(rows_dec(&json!([j[1]]))?.remove(0))),
            "upd" => Ok(Self::Upd(Tgt::dec(&j[1])?, set_dec(&j[2])?)),
            "del" => Ok(Self::Del(Tgt::dec(&j[1])?)),
            "txupd" => Ok(Self::TxUpd(Tgt::dec(&j[1])?, set_dec(&j[2])?, match j[3].as_str() {
                Some("commit") => true,
                Some("rollback") => false,
                _ => return Err("txupd needs commit|rollback".into()),
            })),
            o => Err(format!("bad step {o}")),
        }
    }
}

fn hist_enc(h: &[Step]) -> J {
    J::Array(h.iter().map(Step::enc).collect())
}

fn hist_dec(j: &J) -> Result<Vec<Step>, String> {
    j.as_array().ok_or("history")?.iter().map(Step::dec).collect()
}

/// index kinds per column (0 none, 1 hash, 2 btree, 3 hash + btree) and the number of history steps executed before the
/// indexes are created (0 = before the first insert, >= length of the history = after the whole history)
#[derive(Clone, Copy, Debug)]
struct HCfg {
    kinds: [u8; 3],
    at: usize,
}

impl HCfg {
    fn idx(self) -> Idx {
        let used: Vec<u8> = self.kinds.iter().copied().filter(|k| *k != 0).collect();
        if used.is_empty() {
            Idx::None
        } else if used.iter().all(|k| *k == 1) {
            Idx::Hash
        } else if used.iter().all(|k| *k == 2) {
            Idx::Btree
        } else {
            Idx::Both
        }
    }
    /// the obligation key of the older stages (all indexed columns hash => .hash, all B-tree => .btree, otherwise .both)
    fn cfg(self) -> Cfg {
        Cfg::new(self.idx(), self.at == 0, false)
    }
    fn enc(self) -> J {
        let mut j = self.cfg().enc();
        let mut m = serde_json::Map::new();
        for (k, c) in COLS.iter().enumerate() {
            if self.kinds[k] != 0 {
                m.insert((*c).to_string(), json!(["none", "hash", "btree", "both"][self.kinds[k] as usize]));
            }
        }
        j["cols"] = J::Object(m);
        j["index_at"] = json!(self.at);
        j
    }
    fn dec(j: &J) -> Result<Self, String> {
        let mut kinds = [0u8; 3];
        for (k, v) in j["cols"].as_object().ok_or("cfg.cols")? {
            let col = COLS.iter().position(|c| c == k).ok_or("cfg.cols column")?;
            kinds[col] = ["none", "hash", "btree", "both"].iter().position(|n| Some(*n) == v.as_str()).ok_or("cfg.cols kind")? as u8;
        }
        Ok(Self { kinds, at: j["index_at"].as_u64().ok_or("cfg.index_at")? as usize })
    }
    fn create(self, e: &RelationalEngine, t: &str) -> Result<(), String> {
        for (k, c) in COLS.iter().enumerate() {
            if self.kinds[k] & 1 != 0 {
                e.create_index(t, c).map_err(|x| format!("create_index({c}): {x:?}"))?;
            }
            if self.kinds[k] & 2 != 0 {
                e.create_btree_index(t, c).map_err(|x| format!("create_btree_index({c}): {x:?}"))?;
            }
        }
        Ok(())
    }
}

/// Executes the history on a new table.  Returns the world whose model is the REQUIRED table content after the history
/// and the verdict of the update/delete clause over the whole history (every step reported the number of rows for which
/// its condition was true, the table read back afterwards is exactly the model).  Err = the table could not be set up.
fn build_hist(pool: &mut Pool, hist: &[Step], hc: HCfg) -> Result<(World, Result<String, String>), String> {
    let (eng, table) = pool.next();
    let schema = Schema::new(vec![
        Column::new("i", ColumnType::Int).nullable(),
        Column::new("f", ColumnType::Float).nullable(),
        Column::new("s", ColumnType::String).nullable(),
    ]);
    eng.create_table(&table, schema).map_err(|x| format!("create_table: {x:?}"))?;
    let mut w = World { eng, table, model: vec![] };
    let (e, t) = (Arc::clone(&w.eng), w.table.clone());
    let mut inserted: Vec<u64> = vec![];
    let mut problem: Option<String> = None;
    let note = |p: &mut Option<String>, s: String| {
        if p.is_none() {
            *p = Some(s);
        }
    };
    let setmap = |a: &[(usize, Value)]| -> HashMap<String, Value> { a.iter().map(|(k, v)| (COLS[*k].to_string(), v.clone())).collect() };
    for (pos, step) in hist.iter().enumerate() {
        if pos == hc.at {
            hc.create(&e, &t)?;
        }
        let resolve = |tg: &Tgt| -> Result<Condition, String> {
            match tg {
                Tgt::Row(k) => inserted.get(*k).map(|id| mk(0, "_id", &Value::Int(*id as i64))).ok_or_else(|| format!("step {pos}: row {k} not inserted yet")),
                Tgt::Cond(c) => Ok(c.clone()),
            }
        };
        match step {
            Step::Ins(r) => {
                let m: HashMap<String, Value> = COLS.iter().enumerate().map(|(k, c)| ((*c).to_string(), r[k].clone())).collect();
                let id = e.insert(&t, m).map_err(|x| format!("insert({r:?}): {x:?}"))?;
                if w.model.iter().any(|(i, _)| *i == id) {
                    return Err(format!("insert returned the id {id} of a live row"));
                }
                inserted.push(id);
                w.model.push((id, r.clone()));
            },
            Step::Upd(tg, a) | Step::TxUpd(tg, a, _) => {
                let c = resolve(tg)?;
                let hit: Vec<u64> = spec(&w.model, &c).rows.iter().map(|r| r.id).collect();
                let applied = match step {
                    Step::TxUpd(_, _, commit) => {
                        let tx = e.begin_transaction();
                        let n = e.tx_update(tx, &t, c.clone(), setmap(a));
                        let end = if *commit { e.commit(tx) } else { e.rollback(tx) };
                        if let Err(x) = end {
                            note(&mut problem, format!("step {pos}: {} Err {x:?}", if *commit { "commit" } else { "rollback" }));
                        }
                        (n, *commit)
                    },
                    _ => (e.update(&t, c.clone(), setmap(a)), true),
                };
                match applied.0 {
                    Ok(n) if n == hit.len() => {},
                    Ok(n) => note(&mut problem, format!("step {pos}: update reported {n} rows, the condition is true for row ids {hit:?}")),
                    Err(x) => note(&mut problem, format!("step {pos}: update Err {x:?}")),
                }
                if applied.1 {
                    for r in &mut w.model {
                        if hit.contains(&r.0) {
                            for (k, v) in a {
                                r.1[*k] = v.clone();
                            }
                        }
                    }
                }
            },
            Step::Del(tg) => {
                let c = resolve(tg)?;
                let hit: Vec<u64> = spec(&w.model, &c).rows.iter().map(|r| r.id).collect();
                match e.delete_rows(&t, c.clone()) {
                    Ok(n) if n == hit.len() => {},
                    Ok(n) => note(&mut problem, format!("step {pos}: delete_rows reported {n} rows, the condition is true for row ids {hit:?}")),
                    Err(x) => note(&mut problem, format!("step {pos}: delete_rows Err {x:?}")),
                }
                w.model.retain(|r| !hit.contains(&r.0));
            },
        }
    }
    if hc.at >= hist.len() {
        hc.create(&e, &t)?;
    }
    w.model.sort_by_key(|r| r.0);
    let verdict = (|| {
        if let Some(p) = problem {
            return Err(p);
        }
        let all = w.eng.select(&w.table, Condition::True).map_err(|x| format!("read-back Err {x:?}"))?;
        let want: Vec<Row> = w.model.iter().map(to_row).collect();
        let (g, x) = (keys(&all), keys(&want));
        if g != x {
            return Err(format!("table after the history {g:?}, required {x:?}"));
        }
        let cnt = w.eng.count(&w.table, Condition::True).map_err(|x| format!("count Err {x:?}"))?;
        if cnt != want.len() as u64 {
            return Err(format!("count(True) = {cnt}, table has {} rows", want.len()));
        }
        Ok(format!("table after the history as required ({} rows)", want.len()))
    })();
    Ok((w, verdict))
}

/// two indexed columns and, for each, two values the tables hold (index 0 = "u", 1 = "v") and one they do not hold
struct Palette {
    kx: usize,
    ky: usize,
    xs: [Value; 3],
    ys: [Value; 3],
}

fn palettes() -> Vec<Palette> {
    let st = |x: &str| Value::String(x.into());
    vec![
        Palette { kx: 0, ky: 2, xs: [Value::Int(0), Value::Int(1), Value::Int(-1)], ys: [st("a"), st("b"), st("")] },
        Palette { kx: 0, ky: 1, xs: [Value::Int(0), Value::Null, Value::Int(1)], ys: [Value::Float(-0.0), Value::Float(1.5), Value::Float(0.0)] },
        Palette { kx: 1, ky: 2, xs: [Value::Float(1.5), Value::Float(f64::NAN), Value::Float(f64::NEG_INFINITY)], ys: [st("é"), Value::Null, st("a")] },
    ]
}

/// (name, history, number of leading inserts).  R(a, b) = row with x = xs[a], y = ys[b]; the third column by rotation.
fn histories(p: &Palette) -> Vec<(&'static str, Vec<Step>, usize)> {
    let kz = 3 - p.kx - p.ky;
    let az = alpha(kz);
    let mut nth = 0usize;
    let mut r = |a: usize, b: usize| -> Step {
        let mut v: Vals = [Value::Null, Value::Null, Value::Null];
        v[p.kx] = p.xs[a].clone();
        v[p.ky] = p.ys[b].clone();
        v[kz] = az[(2 * nth + 1) % az.len()].clone();
        nth += 1;
        Step::Ins(v)
    };
    let x = |a: usize| (p.kx, p.xs[a].clone());
    let y = |b: usize| (p.ky, p.ys[b].clone());
    let row = Tgt::Row;
    let by = |k: usize, v: &Value| Tgt::Cond(mk(0, COLS[k], v));
    vec![
        // an older row is updated INTO the value two newer rows hold
        ("into", vec![r(1, 0), r(0, 0), r(0, 1), Step::Upd(row(0), vec![x(0)])], 3),
        // ... and out of it again
        ("into_out", vec![r(1, 0), r(0, 0), r(0, 1), Step::Upd(row(0), vec![x(0)]), Step::Upd(row(0), vec![x(1)])], 3),
        // both indexed columns assigned at once, into values newer rows hold
        ("into_both", vec![r(1, 0), r(0, 0), r(0, 1), r(1, 1), Step::Upd(row(0), vec![x(0), y(1)])], 4),
        // a row deleted, a new row inserted with the same values
        ("delete_reinsert", vec![r(0, 0), r(0, 1), r(1, 0), Step::Del(row(0)), r(0, 0)], 3),
        // multi-row updates selected by value
        ("by_value", vec![r(1, 0), r(0, 1), r(1, 1), r(0, 0), Step::Upd(by(p.kx, &p.xs[1]), vec![x(0)]), Step::Upd(by(p.ky, &p.ys[1]), vec![x(1)])], 4),
        // updates inside explicit transactions, rolled back and committed
        ("tx", vec![r(1, 0), r(0, 0), r(0, 1), Step::TxUpd(row(0), vec![x(0)], false), Step::TxUpd(row(0), vec![y(1)], true),
                    Step::TxUpd(row(0), vec![x(0)], true), Step::TxUpd(row(2), vec![x(1), y(0)], false)], 3),
        // five live rows after updates, a delete and a later insert
        ("five", vec![r(0, 0), r(1, 1), r(0, 1), r(1, 0), r(0, 0), Step::Upd(row(1), vec![x(0)]), Step::Del(row(2)), Step::Upd(row(3), vec![x(0), y(1)]), r(1, 1)], 5),
        // a newer row deleted, then the older row updated into its value, then the value inserted again
        ("delete_then_into", vec![r(1, 0), r(0, 0), r(0, 1), Step::Del(row(1)), Step::Upd(row(0), vec![x(0)]), r(0, 0)], 3),
        // rows exchange their values
        ("swap", vec![r(0, 0), r(1, 1), r(0, 1), Step::Upd(row(0), vec![x(1)]), Step::Upd(row(1), vec![x(0)]), Step::Upd(row(0), vec![y(1)]), Step::Upd(row(2), vec![y(0)])], 3),
        // delete by value, re-insert the value twice, update an older row into it
        ("delete_by_value", vec![r(0, 0), r(1, 0), r(0, 1), r(1, 1), Step::Del(by(p.kx, &p.xs[0])), r(0, 1), r(0, 0), Step::Upd(row(1), vec![x(0)])], 4),
    ]
}

/// index configurations of stage F for the column pair (kx, ky): (kind of x, kind of y, when); `all` = the seven
/// configurations (first palette), otherwise three of them
fn hcfgs(kx: usize, ky: usize, init: usize, len: usize, all: bool) -> Vec<HCfg> {
    let mk = |a: u8, b: u8, at: usize| {
        let mut kinds = [0u8; 3];
        kinds[kx] = a;
        kinds[ky] = b;
        HCfg { kinds, at }
    };
    if all {
        vec![mk(1, 1, 0), mk(1, 1, len), mk(2, 2, 0), mk(2, 2, init), mk(1, 2, init), mk(2, 1, len), mk(3, 3, 0)]
    } else {
        vec![mk(1, 1, 0), mk(2, 2, init), mk(3, 3, len)]
    }
}

fn hist_case(name: &str, hist: &[Step], hc: HCfg, c: &Condition, op: &J) -> J {
    let mut j = op.clone();
    j["hist"] = json!(name);
    j["history"] = hist_enc(hist);
    j["cfg"] = hc.enc();
    j["cond"] = cenc(c);
    j
}

fn stage_f(rep: &mut Rp, pool: &mut Pool) {
    for (pi, p) in palettes().into_iter().enumerate() {
        let mut at = atoms(COLS[p.kx], &p.xs);
        at.extend(atoms(COLS[p.ky], &p.ys));
        let conds = pair_conds(&at);
        let ops = [
            Op::Select,
            Op::Columnar,
            Op::Count,
            Op::Sum(p.kx),
            Op::Min(p.ky),
            Op::Max(p.kx),
            Op::Limit(1, 0),
            Op::Limit(2, 1),
            Op::Iter(1, None),
            Op::Stream(2),
        ];
        for (name, hist, init) in histories(&p) {
            for hc in hcfgs(p.kx, p.ky, init, hist.len(), pi == 0) {
                let frame = || hist_case(name, &hist, hc, &Condition::True, &json!({"op": "history_frame"}));
                let (w, verdict) = match build_hist(pool, &hist, hc) {
                    Ok(x) => x,
                    Err(e) => {
                        rep.eval(false);
                        rep.check("C04.setup", false, &frame, &|| format!("setup failed: {e}"));
                        continue;
                    },
                };
                rep.check("C04.setup", true, &|| J::Null, &String::new);
                rep.eval(true);
                rep.check("C04.update_delete", verdict.is_ok(), &frame, &|| {
                    with_fresh("C04.update_delete", &frame(), verdict.as_ref().err().map_or("", String::as_str))
                });
                let cfg = hc.cfg();
                for c in &conds {
                    let want = spec(&w.model, c);
                    let n = want.rows.len();
                    for &op in &ops {
                        let r = read_op(&w, c, op, &want);
                        rep.eval(n > 0 && n < w.model.len());
                        let ob = op.ob(cfg);
                        let case = || hist_case(name, &hist, hc, c, &op.enc());
                        rep.check(ob, r.is_ok(), &case, &|| with_fresh(ob, &case(), r.as_ref().err().map_or("", String::as_str)));
                    }
                }
            }
        }
    }
}

// ---------------------------------------------------------------- router

fn vtext(v: &Value) -> Option<String> {
    match v {
        Value::Null => Some("NULL".into()),
        Value::Int(i) => Some(i.to_string()),
        Value::Float(f) => Some(format!("{f:?}")),
        Value::String(s) if !s.contains('\'') => Some(format!("'{s}'")),
        _ => None,
    }
}

fn ctext(c: &Condition) -> Option<String> {
    let a = |col: &str, op: &str, v: &Value| vtext(v).map(|t| format!("{col} {op} {t}"));
    match c {
        Condition::Eq(c, v) => a(c, "=", v),
        Condition::Ne(c, v) => a(c, "!=", v),
        Condition::Lt(c, v) => a(c, "<", v),
        Condition::Le(c, v) => a(c, "<=", v),
        Condition::Gt(c, v) => a(c, ">", v),
        Condition::Ge(c, v) => a(c, ">=", v),
        Condition::And(x, y) => Some(format!("{} AND {}", ctext(x)?, ctext(y)?)),
        Condition::Or(x, y) => Some(format!("{} OR {}", ctext(x)?, ctext(y)?)),
        _ => None,
    }
}

/// the AST grammar has no literal for NaN / inf (they lex as identifiers, i.e. denote another condition)
fn ast_expressible(c: &Condition) -> bool {
    match c {
        Condition::Eq(_, v) | Condition::Ne(_, v) | Condition::Lt(_, v) | Condition::Le(_, v) | Condition::Gt(_, v) | Condition::Ge(_, v) => {
            !matches!(v, Value::Float(f) if !f.is_finite())
        },
        Condition::And(a, b) | Condition::Or(a, b) => ast_expressible(a) && ast_expressible(b),
        _ => true,
    }
}

fn router_for(w: &World) -> QueryRouter {
    QueryRouter::with_engines(Arc::clone(&w.eng), Arc::new(GraphEngine::new()), Arc::new(VectorEngine::new()))
}

fn router_text(w: &World, c: &Condition) -> Option<String> {
    ctext(c).map(|t| format!("SELECT * FROM {} WHERE {t}", w.table))
}

/// `parsed` = go through `execute_parsed` (AST path) instead of `execute`.
/// Ok(None) = the AST path rejected the text (literal not expressible there) — no verdict.
fn router_op(w: &World, r: &QueryRouter, c: &Condition, text: &str, parsed: bool) -> Result<Option<String>, String> {
    let res = if parsed { r.execute_parsed(text) } else { r.execute(text) };
    match res {
        Ok(QueryResult::Rows(rows)) => {
            let (g, x) = (keys(&rows), spec(&w.model, c).keys);
            if g == x {
                Ok(Some(format!("{} rows", g.len())))
            } else {
                Err(format!("`{text}` returned {g:?}, satisfying rows are {x:?}"))
            }
        },
        Ok(o) => Err(format!("`{text}` returned non-row result {o:?}")),
        Err(e) => {
            if parsed {
                Ok(None)
            } else {
                Err(format!("`{text}` rejected: {e:?}"))
            }
        },
    }
}

// ---------------------------------------------------------------- enumeration

/// every sequence of <= n values of column k's alphabet; other columns by a fixed rotation
fn focused_tables(k: usize, n: usize, with_empty: bool) -> Vec<Vec<Vals>> {
    let al: Vec<Vec<Value>> = (0..3).map(alpha).collect();
    let mut seqs: Vec<Vec<usize>> = vec![vec![]];
    let mut frontier: Vec<Vec<usize>> = vec![vec![]];
    for _ in 0..n {
        let mut next = vec![];
        for s in &frontier {
            for a in 0..al[k].len() {
                let mut t = s.clone();
                t.push(a);
                next.push(t);
            }
        }
        seqs.extend(next.iter().cloned());
        frontier = next;
    }
    let mut out: Vec<Vec<Vals>> = vec![];
    for (q, s) in seqs.iter().enumerate() {
        if s.is_empty() && !with_empty {
            continue;
        }
        let rows: Vec<Vals> = s
            .iter()
            .enumerate()
            .map(|(p, a)| {
                let mut r: Vals = [Value::Null, Value::Null, Value::Null];
                for (j, slot) in r.iter_mut().enumerate() {
                    *slot = if j == k { al[j][*a].clone() } else { al[j][(q + 3 * p + j) % al[j].len()].clone() };
                }
                r
            })
            .collect();
        out.push(rows);
    }
    out
}

fn has_null(rows: &[Vals]) -> bool {
    rows.iter().any(|r| r.iter().any(|v| *v == Value::Null))
}

fn cfgs_full(null: bool) -> Vec<Cfg> {
    let mut v = vec![
        Cfg::new(Idx::None, false, false),
        Cfg::new(Idx::Hash, false, false),
        Cfg::new(Idx::Btree, false, false),
        Cfg::new(Idx::Both, false, false),
        Cfg::new(Idx::Hash, true, false),
        Cfg::new(Idx::Btree, true, false),
        Cfg::new(Idx::Both, true, false),
        Cfg::new(Idx::Dropped, false, false),
    ];
    if null {
        for idx in [Idx::None, Idx::Hash, Idx::Btree, Idx::Both] {
            v.push(Cfg::new(idx, true, true));
        }
    }
    v
}

const CFG4: [Cfg; 4] =
    [Cfg::new(Idx::None, false, false), Cfg::new(Idx::Hash, false, false), Cfg::new(Idx::Btree, false, false), Cfg::new(Idx::Both, false, false)];

fn small_rows() -> Vec<Vals> {
    let mut out = vec![];
    for i in small_alpha(0) {
        for f in small_alpha(1) {
            for s in small_alpha(2) {
                out.push([i.clone(), f.clone(), s.clone()]);
            }
        }
    }
    out
}

fn pair_tables() -> Vec<Vec<Vals>> {
    let r = small_rows();
    let n = r.len();
    let mut out: Vec<Vec<Vals>> = r.iter().map(|x| vec![x.clone()]).collect();
    for k in 0..n {
        out.push(vec![r[k].clone(), r[(k + 7) % n].clone(), r[(k + 13) % n].clone()]);
    }
    out
}

fn pair_atoms() -> Vec<Condition> {
    let mut a = atoms("i", &[Value::Null, Value::Int(0)]);
    a.extend(atoms("f", &[Value::Float(f64::NAN), Value::Float(-0.0)]));
    a.extend(atoms("s", &[Value::String("a".into())]));
    a
}

fn pair_conds(a: &[Condition]) -> Vec<Condition> {
    let mut out = vec![];
    for x in a {
        for y in a {
            out.push(x.clone().and(y.clone()));
            out.push(x.clone().or(y.clone()));
        }
    }
    out
}

fn mixed_tables(count: usize, nrows: usize) -> Vec<Vec<Vals>> {
    let al: Vec<Vec<Value>> = (0..3).map(alpha).collect();
    (0..count)
        .map(|q| {
            (0..nrows)
                .map(|p| [al[0][(q + p) % 6].clone(), al[1][(q / 2 + 2 * p) % 7].clone(), al[2][(q / 3 + 3 * p + 1) % 4].clone()])
                .collect()
        })
        .collect()
}

fn muts_for(k: usize) -> Vec<Mut> {
    let u = |a: Vec<(usize, Value)>| Mut::Update(a);
    let mut v = vec![Mut::Delete];
    v.extend(match k {
        0 => vec![u(vec![(0, Value::Null)]), u(vec![(0, Value::Int(i64::MIN)), (2, Value::String("a".into()))])],
        1 => vec![u(vec![(1, Value::Float(-0.0))]), u(vec![(1, Value::Float(f64::NAN))]), u(vec![(1, Value::Null)])],
        _ => vec![u(vec![(2, Value::String(String::new()))]), u(vec![(2, Value::Null)])],
    });
    v
}

const OBS: [(&str, &str); 14] = [
    ("C04.select.scan", "RelationalEngine::select (no index)"),
    ("C04.select.hash", "RelationalEngine::select with hash indexes (create_index)"),
    ("C04.select.btree", "RelationalEngine::select with B-tree indexes (create_btree_index)"),
    ("C04.select.both", "RelationalEngine::select with hash + B-tree indexes"),
    ("C04.select.dropped", "RelationalEngine::select after drop_index + drop_btree_index"),
    ("C04.select.columnar", "RelationalEngine::select_columnar"),
    ("C04.count_agg", "RelationalEngine::{count,sum,avg,min,max}"),
    ("C04.limit", "RelationalEngine::{select_with_limit,select_iter}"),
    ("C04.limit.stream", "RelationalEngine::select_streaming_builder"),
    ("C04.update_delete", "RelationalEngine::{update,delete_rows}"),
    ("C04.index.maintenance", "RelationalEngine::select on an indexed table after update/delete_rows"),
    ("C04.router.text", "QueryRouter::execute(\"SELECT * FROM t WHERE ...\")"),
    ("C04.router.parsed", "QueryRouter::execute_parsed(\"SELECT * FROM t WHERE ...\")"),
    ("C04.setup", "create_table/insert/create_index/create_btree_index/drop_index succeed on valid input"),
];

const BASE_OPS: [Op; 8] = [
    Op::Select,
    Op::Columnar,
    Op::Count,
    Op::Limit(0, 0),
    Op::Limit(1, 0),
    Op::Limit(1, 1),
    Op::Limit(2, 1),
    Op::Limit(usize::MAX, 1),
];
const PAIR_OPS: [Op; 5] = [Op::Select, Op::Columnar, Op::Count, Op::Limit(1, 0), Op::Stream(1)];

fn with_world(rep: &mut Rp, pool: &mut Pool, rows: &[Vals], cfg: Cfg, f: &mut dyn FnMut(&mut Rp, &World)) {
    match build(pool, rows, cfg) {
        Ok(w) => {
            rep.check("C04.setup", true, &|| J::Null, &String::new);
            f(rep, &w);
        },
        Err(e) => {
            rep.check("C04.setup", false, &|| json!({"op": "setup", "rows": rows_enc(rows), "cfg": cfg.enc()}), &|| e.clone());
        },
    }
}

fn stage_a(rep: &mut Rp, pool: &mut Pool, n: usize) {
    let ida = atoms("_id", &[Value::Int(1), Value::Int(2)]);
    for k in 0..3 {
        let mut conds = atoms(COLS[k], &alpha(k));
        conds.extend(ida.iter().cloned());
        conds.push(Condition::True);
        let mut main_ops: Vec<Op> = BASE_OPS.to_vec();
        main_ops.extend([
            Op::Sum(k),
            Op::Avg(k),
            Op::Min(k),
            Op::Max(k),
            Op::Iter(0, None),
            Op::Iter(1, None),
            Op::Iter(1, Some(1)),
            Op::Stream(1),
            Op::Stream(2),
        ]);
        for rows in focused_tables(k, n, k == 0) {
            for cfg in cfgs_full(has_null(&rows)) {
                let main = !cfg.first && (cfg.idx == Idx::None || cfg.idx == Idx::Both);
                with_world(rep, pool, &rows, cfg, &mut |rep, w| {
                    for c in &conds {
                        do_reads(rep, w, &rows, cfg, c, if main { &main_ops } else { &BASE_OPS });
                    }
                });
            }
        }
    }
}

fn stage_b(rep: &mut Rp, pool: &mut Pool, conds: &[Condition], tables: &[Vec<Vals>]) {
    for rows in tables {
        for cfg in CFG4 {
            with_world(rep, pool, rows, cfg, &mut |rep, w| {
                for c in conds {
                    do_reads(rep, w, rows, cfg, c, &PAIR_OPS);
                }
            });
        }
    }
}

/// "lane" tables for the vectorised strategy: the columnar filters work on groups of four rows plus a scalar tail, so
/// tables of 4, 5 and 9 rows (one full group; a group + tail; two groups + tail): every table that holds value `b` in
/// the focused numeric column everywhere except value `a` at one position p (all a, b of the column alphabet, all p),
/// x every atom over the column alphabet, read by scan / columnar / count on an unindexed table.
fn lane_tables(k: usize, sizes: &[usize]) -> Vec<Vec<Vals>> {
    let al: Vec<Vec<Value>> = (0..3).map(alpha).collect();
    let mut out = vec![];
    let mut q = 0usize;
    for &n in sizes {
        for b in 0..al[k].len() {
            for a in 0..al[k].len() {
                for p in 0..n {
                    if a == b && p > 0 { continue; }
                    q += 1;
                    let rows: Vec<Vals> = (0..n)
                        .map(|r| {
                            let mut row: Vals = [Value::Null, Value::Null, Value::Null];
                            for (j, slot) in row.iter_mut().enumerate() {
                                *slot = if j == k { al[j][if r == p { a } else { b }].clone() } else { al[j][(q + 3 * r + j) % al[j].len()].clone() };
                            }
                            row
                        })
                        .collect();
                    out.push(rows);
                }
            }
        }
    }
    out
}

fn stage_e(rep: &mut Rp, pool: &mut Pool, sizes: &[usize]) {
    let ops = [Op::Select, Op::Columnar, Op::Count];
    for k in 0..2 {
        let conds = atoms(COLS[k], &alpha(k));
        for rows in lane_tables(k, sizes) {
            let cfg = Cfg::new(Idx::None, false, false);
            with_world(rep, pool, &rows, cfg, &mut |rep, w| {
                for c in &conds {
                    do_reads(rep, w, &rows, cfg, c, &ops);
                }
            });
        }
    }
}

fn stage_c(rep: &mut Rp, pool: &mut Pool, n: usize) {
    let cfgs =
        [Cfg::new(Idx::None, false, false), Cfg::new(Idx::Hash, false, false), Cfg::new(Idx::Btree, false, false), Cfg::new(Idx::Both, true, false)];
    for k in 0..3 {
        let conds = atoms(COLS[k], &alpha(k));
        let muts = muts_for(k);
        let pr = probes(k);
        for rows in focused_tables(k, n, false) {
            for cfg in cfgs {
                for c in &conds {
                    for m in &muts {
                        do_mut(rep, pool, &rows, cfg, c, m, &pr);
                    }
                }
            }
        }
    }
}

fn router_conds() -> Vec<Condition> {
    let mut a = vec![];
    for (k, c) in COLS.iter().enumerate() {
        a.extend(atoms(c, &alpha(k)));
    }
    let small = [
        mk(0, "i", &Value::Int(0)),
        mk(4, "i", &Value::Int(-1)),
        mk(1, "f", &Value::Float(0.0)),
        mk(3, "f", &Value::Float(1.5)),
        mk(0, "s", &Value::String("a".into())),
        mk(5, "s", &Value::String(String::new())),
        mk(0, "i", &Value::Null),
    ];
    a.extend(pair_conds(&small));
    a
}

fn stage_d(rep: &mut Rp, pool: &mut Pool) {
    let conds = router_conds();
    for rows in mixed_tables(24, 3) {
        for cfg in [Cfg::new(Idx::None, false, false), Cfg::new(Idx::Both, false, false)] {
            with_world(rep, pool, &rows, cfg, &mut |rep, w| {
                let r = router_for(w);
                for c in &conds {
                    let Some(text) = router_text(w, c) else { continue };
                    for parsed in [false, true] {
                        if parsed && !ast_expressible(c) {
                            continue;
                        }
                        let v = router_op(w, &r, c, &text, parsed);
                        rep.eval(!spec(&w.model, c).rows.is_empty());
                        if matches!(v, Ok(None)) {
                            continue;
                        }
                        let ob = if parsed { "C04.router.parsed" } else { "C04.router.text" };
                        let case = || {
                            json!({"op": if parsed { "router_parsed" } else { "router" }, "rows": rows_enc(&rows), "cfg": cfg.enc(), "cond": cenc(c)})
                        };
                        rep.check(ob, v.is_ok(), &case, &|| with_fresh(ob, &case(), v.as_ref().err().map_or("", String::as_str)));
                    }
                }
            });
        }
    }
}

fn stage_thorough(rep: &mut Rp, pool: &mut Pool, seed: u64) {
    // depth 3 over a 12-atom alphabet, both shapes, on the 30 three-row tables of stage B
    let a12: Vec<Condition> = vec![
        mk(0, "i", &Value::Int(0)),
        mk(1, "i", &Value::Null),
        mk(2, "i", &Value::Int(1)),
        mk(5, "i", &Value::Int(0)),
        mk(0, "f", &Value::Float(0.0)),
        mk(1, "f", &Value::Float(f64::NAN)),
        mk(3, "f", &Value::Float(-0.0)),
        mk(4, "f", &Value::Float(-0.0)),
        mk(0, "s", &Value::Null),
        mk(2, "s", &Value::String("a".into())),
        mk(5, "s", &Value::String("a".into())),
        mk(0, "_id", &Value::Int(2)),
    ];
    let mut d3 = vec![];
    for x in &a12 {
        for y in &a12 {
            for z in &a12 {
                for s in 0..4 {
                    let inner = if s & 1 == 0 { y.clone().and(z.clone()) } else { y.clone().or(z.clone()) };
                    d3.push(if s & 2 == 0 { x.clone().and(inner.clone()) } else { x.clone().or(inner.clone()) });
                    d3.push(if s & 2 == 0 { inner.and(x.clone()) } else { inner.or(x.clone()) });
                }
            }
        }
    }
    let pt = pair_tables();
    stage_b(rep, pool, &d3, &pt[30..]);
    // seeded random 5-row tables; f alphabet extended by two tiny positive floats
    let mut rng = Rng(seed ^ 0xC04);
    let mut al: Vec<Vec<Value>> = (0..3).map(alpha).collect();
    al[1].push(Value::Float(f64::MIN_POSITIVE));
    al[1].push(Value::Float(1e-17));
    let mut conds: Vec<Condition> = vec![Condition::True];
    for (k, c) in COLS.iter().enumerate() {
        conds.extend(atoms(c, &al[k]));
    }
    let ops = [Op::Select, Op::Columnar, Op::Count, Op::Limit(2, 1), Op::Stream(2)];
    for _ in 0..1500 {
        let rows: Vec<Vals> = (0..5)
            .map(|_| {
                let mut pick = |k: usize| al[k][rng.below(al[k].len() as u64) as usize].clone();
                [pick(0), pick(1), pick(2)]
            })
            .collect();
        for cfg in cfgs_full(has_null(&rows)) {
            with_world(rep, pool, &rows, cfg, &mut |rep, w| {
                for c in &conds {
                    do_reads(rep, w, &rows, cfg, c, &ops);
                }
            });
        }
    }
}

pub fn run(tier: Tier, seed: u64) -> Report {
    let thorough = tier == Tier::Thorough;
    let n = if thorough { 4 } else { 3 };
    let mut rep = Report::new(
        "c04_relq",
        &format!(
            "table (i Int?, f Float?, s String?), values i{{Null,MIN,-1,0,1,MAX}} f{{Null,NaN,-inf,-0.0,0.0,1.5,inf}} s{{Null,'','a','é'}}; \
             A: per column every value sequence of length <= {n} (other columns by fixed rotation) x (6 ops x column alphabet + 6 ops x _id{{1,2}} + True) \
             x index configs {{none,hash,btree,both (built after inserts), hash,btree,both built before inserts, both dropped}} + for tables with a Null {{none,hash,btree,both}} built first with the Null column omitted from insert; \
             ops select/select_columnar/count/5 limit-offset pairs (+ sum/avg/min/max/select_iter/streaming on none & both); \
             B: all And/Or of two atoms (6 ops x i{{Null,0}} f{{NaN,-0.0}} s{{'a'}}) on 30 one-row + 30 three-row tables over i{{Null,0,1}}xf{{Null,NaN,-0.0,0.0,1.5}}xs{{Null,'a'}} x 4 index configs; \
             C: update/delete on focused tables of 1..{} rows x all atoms of the focused column x {{delete, 2-3 updates}} x {{none,hash,btree,both-first}}, whole-table read-back + 29-35 probe selects on indexed configs; \
             D: router text (execute, execute_parsed) on 24 mixed 3-row tables x {{none,both}} x 102 atoms + 98 And/Or; \
             E: lane tables for the vectorised filters (groups of four rows + scalar tail): {} rows, numeric column = b everywhere except a at one position (all a, b of the alphabet, all positions) x all atoms of the column x select/select_columnar/count, no index{}",
            if thorough { "4/5/8/9/13" } else { "4/5/9" },
            n - 1,
            if thorough {
                "; plus depth-3 And/Or over 12 atoms (13824 conditions) and 1500 seeded random 5-row tables with f alphabet + {MIN_POSITIVE,1e-17} (not exhaustive)"
            } else {
                ""
            }
        ),
        true,
        &[
            "relational_engine::RelationalEngine::{create_table,insert,select,select_with_limit,select_iter,select_streaming_builder,select_columnar,count,sum,avg,min,max,update,delete_rows,create_index,create_btree_index,drop_index,drop_btree_index,begin_transaction,tx_update,commit,rollback}",
            "relational_engine::Condition::evaluate (spec)",
            "query_router::QueryRouter::{execute,execute_parsed}",
        ],
    );
    for (o, f) in OBS {
        rep.declare(o, f);
    }
    let mut rep = Rp { rep, order: vec![], fails: HashMap::new() };
    let mut pool = Pool::new();
    stage_a(&mut rep, &mut pool, n);
    stage_b(&mut rep, &mut pool, &pair_conds(&pair_atoms()), &pair_tables());
    stage_c(&mut rep, &mut pool, n - 1);
    stage_d(&mut rep, &mut pool);
    stage_e(&mut rep, &mut pool, if thorough { &[4, 5, 8, 9, 13] } else { &[4, 5, 9] });
    stage_f(&mut rep, &mut pool);
    rep.rep.domain.push_str(
        "; F: compound conditions after a history: 10 histories (insert / update by row and by value / delete / re-insert / tx_update committed and rolled back; \
         an older row updated into a value newer rows hold and out again, both columns at once, delete + re-insert of the same values, rows swapping values; 3..=5 live rows) \
         x 3 palettes (i,s), (i with Null, f with -0.0/0.0), (f with NaN, s with Null) x 7 (first palette) / 3 index configurations on the two columns (hash+hash, btree+btree, hash+btree, btree+hash, both+both; \
         created before the history, after the initial inserts, after the history) x every And/Or of two atoms (6 ops x 2 held + 1 absent value x 2 columns = 2592 conditions) \
         x select/select_columnar/count/sum/min/max/2 limit-offset pairs/select_iter/streaming, + whole-table read-back after the history",
    );
    rep.rep.sample(read_case(
        &[[Value::Int(0), Value::Float(-0.0), Value::Null], [Value::Null, Value::Float(f64::NAN), Value::String("é".into())]],
        Cfg::new(Idx::Both, true, false),
        &mk(5, "f", &Value::Float(0.0)),
        Op::Select,
    ));
    rep.rep.sample(read_case(
        &[[Value::Int(1), Value::Null, Value::String("a".into())]],
        CFG4[1],
        &mk(0, "f", &Value::Null).or(mk(2, "i", &Value::Int(0))),
        Op::Limit(1, 0),
    ));
    rep.rep.sample(mut_case(
        &[[Value::Int(1), Value::Float(0.0), Value::String("a".into())], [Value::Null, Value::Float(-0.0), Value::Null]],
        Cfg::new(Idx::Btree, false, false),
        &mk(0, "f", &Value::Float(0.0)),
        &Mut::Update(vec![(1, Value::Float(f64::NAN))]),
    ));
    if thorough {
        stage_thorough(&mut rep, &mut pool, seed);
    }
    rep.flush()
}

/// Rebuilds the table on a FRESH engine from the case and re-evaluates the same predicate.
pub fn replay(_ob: &str, case: &J) -> Result<String, String> {
    if !case["history"].is_null() {
        // stage F: the table is produced by a history of steps
        let hist = hist_dec(&case["history"])?;
        let hc = HCfg::dec(&case["cfg"])?;
        let mut pool = Pool::new();
        let (w, verdict) = build_hist(&mut pool, &hist, hc).map_err(|e| format!("setup failed: {e}"))?;
        if case["op"].as_str() == Some("history_frame") {
            return verdict;
        }
        let c = cdec(&case["cond"])?;
        return read_op(&w, &c, Op::dec(case)?, &spec(&w.model, &c));
    }
    let rows = rows_dec(&case["rows"])?;
    let cfg = Cfg::dec(&case["cfg"])?;
    let opname = case["op"].as_str().ok_or("op")?;
    let mut pool = Pool::new();
    if opname == "setup" {
        return build(&mut pool, &rows, cfg).map(|_| "setup succeeds".to_string());
    }
    let c = cdec(&case["cond"])?;
    match opname {
        "delete_rows" | "update" => {
            let m = Mut::dec(case)?;
            mutate(&mut pool, &rows, cfg, &c, &m).map_err(|e| format!("setup failed: {e}"))?.2
        },
        "probe_after" => {
            let m = Mut::dec(&case["mutation"])?;
            let p = cdec(&case["probe"])?;
            let (w, _, _) = mutate(&mut pool, &rows, cfg, &c, &m).map_err(|e| format!("setup failed: {e}"))?;
            read_op(&w, &p, Op::Select, &spec(&w.model, &p))
        },
        "router" | "router_parsed" => {
            let w = build(&mut pool, &rows, cfg).map_err(|e| format!("setup failed: {e}"))?;
            let r = router_for(&w);
            let text = router_text(&w, &c).ok_or("condition not expressible as text")?;
            router_op(&w, &r, &c, &text, opname == "router_parsed")
                .map(|o| o.unwrap_or_else(|| "text rejected by the parser (no verdict)".into()))
        },
        _ => {
            let op = Op::dec(case)?;
            let w = build(&mut pool, &rows, cfg).map_err(|e| format!("setup failed: {e}"))?;
            read_op(&w, &c, op, &spec(&w.model, &c))
        },
    }
}
