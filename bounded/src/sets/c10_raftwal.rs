//! C10 (bounded): a Raft node restarted from its write-ahead log never forgets a vote, a term or an
//! acknowledged entry.
//!
//! A crash is modelled WITHOUT hooks: the real RaftWal / RaftNode writes a real file, a COPY of the file is
//! cut at a byte offset, and the real open / replay / `RaftNode::with_wal` runs on the copy.
//!
//! Domain (quick / thorough):
//!  * replay.prefix / open.wf: every script of length <= 3 / <= 4 over 7 entries {TermAndVote(1,None),
//!    TermAndVote(1,a), TermAndVote(2,b), TermChange(2), LogEntryFull(1), LogAppend(2), LogTruncate(1)} x
//!    EVERY byte truncation of the file the real writer produced (prefix-closed enumeration: for a script of k
//!    entries the cuts behind the end of entry k-1 are executed, earlier cuts are the cases of its prefixes);
//!    after the reopen one more entry is appended and replayed. Thorough: chains of 3 crash rounds (1 of 4
//!    entries per round, cut in {0,1,4,7,8,9,len-1,len}).
//!  * fold.term_vote: every sequence of length <= 5 over 21 symbols {TermChange, VoteCast(a|b),
//!    TermAndVote(None|a|b), SnapshotTaken} x terms 0..=2.  fold.log: every sequence <= 5 over
//!    {LogEntryFull(1..=3), LogTruncate(1..=3), LogAppend}.
//!  * restart.vote / persist.before_reply: pre-history in 5 WAL contents x RequestVote(term 1..=3, A) x
//!    follow-up step in {none, RequestVote(t,B), RequestVote(t,A), AppendEntries heartbeat, AppendEntries with 1
//!    entry} x EVERY byte truncation >= end of the vote record; restart with `with_wal`. Thorough: chains
//!    of 3 rounds of RequestVote(term 1..=2, A|B) with 5 cut classes, restart between rounds.
//!  * restart.after_compaction_conflict (quick and thorough): a follower acknowledges entries 1..=6 of term 1
//!    from leader A (leader_commit = s), compacts its in-memory log through the public snapshot path
//!    (`finalize_to(s)`, `create_snapshot`, `truncate_log` with `snapshot_trailing_logs` = t, so that
//!    log_base_index = s - t > 0), optionally grants its term-2 vote to B, then accepts from leader B (term 2)
//!    AppendEntries{prev (k-1, 1), m entries of term 2 starting at index k} that conflict with its uncommitted
//!    entries k..=6.  Domain: (s,t,k,m,voted) in {(4,0|1,5|6,1|2,no|yes)} + {(2|3, 0|1, 6, 1, no)} (thorough:
//!    s in 2..=4, t in 0..=1, k in s+1..=6, m in 1..=2, voted no|yes) x EVERY byte cut of the WAL tail written after
//!    the acknowledgement of 1..=6.  Ghost: the sequence of legitimate views (term, vote, [(index, term)]):
//!    after the ack of 1..=6; after the vote; term raised; conflicting suffix k..=6 dropped; k' appended; (k+1)'
//!    appended.  Clause: the node restarted with `with_wal` from the cut file shows a view of that sequence not
//!    older than the last acknowledged step (every acknowledged entry the new leader did not replace is held
//!    with its term, the replaced ones carry the new term, nothing the snapshot covered is lost, no stale
//!    entry survives behind the conflict point), a vote granted to B is never given to A, and a second restart
//!    from the same file shows the same view; at record boundaries, boundary + 1 and end - 1 the restarted node
//!    also acknowledges one more entry from B and a third restart must show the view extended by it.
use crate::fw::{Report, Tier};
use serde_json::{json, Value};
use std::collections::BTreeMap;
use std::path::Path;
use std::sync::Arc;
use tensor_chain::{AppendEntries, Block, LogEntry, MemoryTransport, Message, RaftConfig, RaftNode, RaftRecoveryState, RaftWal, RaftWalEntry, RequestVote, Transport};
use tensor_store::SparseVector;

const OB_PREFIX: &str = "C10.replay.prefix";
const OB_WF: &str = "C10.open.wf";
const OB_TV: &str = "C10.fold.term_vote";
const OB_LOG: &str = "C10.fold.log";
const OB_PERSIST: &str = "C10.persist.before_reply";
const OB_RESTART: &str = "C10.restart.vote";
const OB_COMPACT: &str = "C10.restart.after_compaction_conflict";

struct Out { ob: &'static str, ok: bool, detail: String }
fn out(ob: &'static str, ok: bool, detail: String) -> Out { Out { ob, ok, detail } }

fn wal_entry(sym: u8) -> RaftWalEntry {
    match sym {
        0 => RaftWalEntry::TermAndVote { term: 1, voted_for: None },
        1 => RaftWalEntry::TermAndVote { term: 1, voted_for: Some("a".into()) },
        2 => RaftWalEntry::TermAndVote { term: 2, voted_for: Some("b".into()) },
        3 => RaftWalEntry::TermChange { new_term: 2 },
        4 => RaftWalEntry::LogEntryFull { index: 1, term: 1, entry_data: vec![1, 2, 3, 4, 5] },
        5 => RaftWalEntry::LogAppend { index: 2, term: 1, command_hash: [7u8; 32] },
        6 => RaftWalEntry::LogTruncate { from_index: 1 },
        _ => RaftWalEntry::TermAndVote { term: 9, voted_for: Some("z".into()) }, // the entry appended after a reopen
    }
}
const EXTRA: u8 = 99;

fn record_ends(bytes: &[u8]) -> Vec<usize> {
    let mut ends = vec![];
    let mut pos = 0usize;
    while pos + 8 <= bytes.len() {
        let len = u32::from_le_bytes([bytes[pos], bytes[pos + 1], bytes[pos + 2], bytes[pos + 3]]) as usize;
        if pos + 8 + len > bytes.len() { break; }
        pos += 8 + len;
        ends.push(pos);
    }
    ends
}

struct Written { bytes: Vec<u8>, ends: Vec<usize>, entries: Vec<RaftWalEntry> }

fn write_script(dir: &Path, script: &[u8]) -> Result<Written, String> {
    let p = dir.join("w.wal");
    let _ = std::fs::remove_file(&p);
    let mut wal = RaftWal::open(&p).map_err(|e| format!("open: {e}"))?;
    let mut ends = vec![];
    let mut entries = vec![];
    for &s in script {
        let e = wal_entry(s);
        wal.append(&e).map_err(|e| format!("append on a fresh log fails: {e}"))?;
        entries.push(e);
        ends.push(std::fs::metadata(&p).map_err(|e| e.to_string())?.len() as usize);
    }
    drop(wal);
    let bytes = std::fs::read(&p).map_err(|e| e.to_string())?;
    Ok(Written { bytes, ends, entries })
}

fn eval_cut(dir: &Path, w: &Written, cut: usize) -> Vec<Out> {
    let mut o = vec![];
    let c = dir.join("c.wal");
    std::fs::write(&c, &w.bytes[..cut]).expect("write copy");
    let j = w.ends.iter().filter(|&&e| e <= cut).count();
    let wal = match RaftWal::open(&c) { Ok(x) => x, Err(e) => { o.push(out(OB_PREFIX, false, format!("cut {cut}: open fails: {e}"))); return o; } };
    let got = match wal.replay() { Ok(x) => x, Err(e) => { o.push(out(OB_PREFIX, false, format!("cut {cut}: replay fails: {e}"))); return o; } };
    let is_prefix = got.len() <= w.entries.len() && got[..] == w.entries[..got.len()];
    o.push(out(OB_PREFIX, is_prefix && got.len() >= j, format!("cut {cut}/{}: replay gives {} entries {got:?}; written {:?}; whole records before the cut: {j}", w.bytes.len(), got.len(), w.entries)));
    let whole = record_ends(&w.bytes).into_iter().filter(|&e| e <= cut).max().unwrap_or(0);
    let on_disk = std::fs::read(&c).unwrap_or_default();
    let mut wal = wal;
    o.push(out(OB_WF, on_disk.len() == whole && on_disk[..] == w.bytes[..whole] && wal.entry_count() as usize == j && wal.current_size() as usize == whole,
        format!("cut {cut}: after reopen the file has {} bytes (longest whole-record prefix {whole}), entry_count {} (whole records {j}), current_size {}", on_disk.len(), wal.entry_count(), wal.current_size())));
    // one more acknowledged append, then the next replay must see it together with all earlier whole records
    let extra = wal_entry(EXTRA);
    let r = wal.append(&extra);
    drop(wal);
    match r {
        Err(e) => o.push(out(OB_WF, false, format!("cut {cut}: append after reopen fails: {e}"))),
        Ok(()) => {
            let mut want = got.clone();
            want.push(extra);
            let again = RaftWal::open(&c).and_then(|x| x.replay());
            let ok = matches!(&again, Ok(g) if *g == want);
            o.push(out(OB_WF, ok, format!("cut {cut}: after reopen + 1 append the next replay gives {again:?}, expected {want:?}")));
            let st = RaftWal::open(&c).and_then(|x| RaftRecoveryState::from_wal(&x));
            let ok2 = matches!(&st, Ok(s) if s.current_term == 9 && s.voted_for.as_deref() == Some("z"));
            o.push(out(OB_WF, ok2, format!("cut {cut}: from_wal after reopen + TermAndVote(9,z) gives {:?}", st.as_ref().map(|s| (s.current_term, s.voted_for.clone())).map_err(ToString::to_string))));
        },
    }
    o
}

/// chains of crash rounds on the raw WAL: each round reopens, checks the replay, appends, and the file is cut
fn eval_wal_rounds(dir: &Path, rounds: &[(u8, usize)]) -> Out {
    let p = dir.join("r.wal");
    let _ = std::fs::remove_file(&p);
    let mut model: Vec<RaftWalEntry> = vec![];
    for (ri, &(sym, cut_rel)) in rounds.iter().enumerate() {
        let mut wal = match RaftWal::open(&p) { Ok(x) => x, Err(e) => return out(OB_WF, false, format!("round {ri}: open fails: {e}")) };
        match wal.replay() { Ok(g) if g == model => {}, other => return out(OB_WF, false, format!("round {ri}: replay gives {other:?}, expected {model:?}")) }
        let base = std::fs::metadata(&p).map(|m| m.len() as usize).unwrap_or(0);
        let e = wal_entry(sym);
        if let Err(err) = wal.append(&e) { return out(OB_WF, false, format!("round {ri}: append fails: {err}")); }
        drop(wal);
        let total = std::fs::metadata(&p).map(|m| m.len() as usize).unwrap_or(0);
        let cut = (base + cut_rel).min(total);
        let f = std::fs::OpenOptions::new().write(true).open(&p).expect("open for cut");
        f.set_len(cut as u64).expect("cut");
        if cut == total { model.push(e); }
    }
    match RaftWal::open(&p).and_then(|x| x.replay()) {
        Ok(g) if g == model => out(OB_WF, true, format!("{} rounds, {} entries survive", rounds.len(), model.len())),
        other => out(OB_WF, false, format!("final replay gives {other:?}, expected {model:?}")),
    }
}

// ---------- folds ----------

const CANDS: [&str; 2] = ["a", "b"];
/// 21 symbols: term = sym / 7, kind = sym % 7: 0 TermChange, 1 VoteCast a, 2 VoteCast b, 3 TermAndVote None, 4 TermAndVote a, 5 TermAndVote b, 6 SnapshotTaken
fn tv_entry(sym: u8) -> RaftWalEntry {
    let t = u64::from(sym / 7);
    match sym % 7 {
        0 => RaftWalEntry::TermChange { new_term: t },
        k @ (1 | 2) => RaftWalEntry::VoteCast { term: t, candidate_id: CANDS[(k - 1) as usize].into() },
        3 => RaftWalEntry::TermAndVote { term: t, voted_for: None },
        k @ (4 | 5) => RaftWalEntry::TermAndVote { term: t, voted_for: Some(CANDS[(k - 4) as usize].into()) },
        _ => RaftWalEntry::SnapshotTaken { last_included_index: 1, last_included_term: t },
    }
}

/// tv_fold from the property: highest term seen; the FIRST vote recorded for that term
fn tv_spec(syms: &[u8]) -> (u64, Option<&'static str>) {
    let top = syms.iter().map(|s| u64::from(s / 7)).max().unwrap_or(0);
    let vote = syms.iter().filter(|&&s| u64::from(s / 7) == top).find_map(|&s| match s % 7 { 1 | 4 => Some("a"), 2 | 5 => Some("b"), _ => None });
    (top, vote)
}

fn eval_tv(syms: &[u8]) -> Out {
    let entries: Vec<RaftWalEntry> = syms.iter().map(|&s| tv_entry(s)).collect();
    let st = RaftRecoveryState::from_entries(&entries);
    let (t, v) = tv_spec(syms);
    out(OB_TV, st.current_term == t && st.voted_for.as_deref() == v,
        format!("from_entries({entries:?}) = (term {}, voted_for {:?}); tv_fold = (term {t}, voted_for {v:?})", st.current_term, st.voted_for))
}

/// log symbols: 0..3 LogEntryFull(index 1..=3, data = [position]), 3..6 LogTruncate(1..=3), 6 LogAppend
fn log_entry(sym: u8, pos: usize) -> RaftWalEntry {
    match sym {
        0..=2 => RaftWalEntry::LogEntryFull { index: u64::from(sym) + 1, term: 1, entry_data: vec![pos as u8] },
        3..=5 => RaftWalEntry::LogTruncate { from_index: u64::from(sym) - 2 },
        _ => RaftWalEntry::LogAppend { index: 1, term: 1, command_hash: [0u8; 32] },
    }
}

fn eval_log(syms: &[u8]) -> Out {
    let entries: Vec<RaftWalEntry> = syms.iter().enumerate().map(|(i, &s)| log_entry(s, i)).collect();
    let st = RaftRecoveryState::from_entries(&entries);
    let mut m: BTreeMap<u64, Vec<u8>> = BTreeMap::new();
    for (i, &s) in syms.iter().enumerate() {
        match s { 0..=2 => { m.insert(u64::from(s) + 1, vec![i as u8]); }, 3..=5 => { let from = u64::from(s) - 2; m.retain(|k, _| *k < from); }, _ => {} }
    }
    let want: Vec<Vec<u8>> = m.into_values().collect();
    out(OB_LOG, st.recovered_log == want && st.current_term == 0 && st.voted_for.is_none(), format!("recovered_log {:?}, expected {want:?} for {entries:?}", st.recovered_log))
}

// ---------- node restart ----------

fn node(path: &Path) -> std::io::Result<RaftNode> {
    let tr: Arc<dyn Transport> = Arc::new(MemoryTransport::new("n".to_string()));
    RaftNode::with_wal("n".to_string(), vec!["A".to_string(), "B".to_string()], tr, RaftConfig::default(), path)
}

fn request_vote(n: &RaftNode, term: u64, cand: &str) -> Option<(u64, bool)> {
    // the candidate's log is strictly better than anything the node can have, so only term/vote rules decide
    let rv = RequestVote { term, candidate_id: cand.to_string(), last_log_index: 1000, last_log_term: 1000, state_embedding: SparseVector::new(0) };
    match n.handle_message(&cand.to_string(), &Message::RequestVote(rv)) {
        Some(Message::RequestVoteResponse(r)) => Some((r.term, r.vote_granted)),
        _ => None,
    }
}

fn one_entry(term: u64) -> LogEntry {
    let mut b = Block::genesis("A".to_string());
    b.header.timestamp = 0;
    LogEntry::new(term, 1, b)
}

fn append_entries(n: &RaftNode, term: u64, entries: Vec<LogEntry>) -> Option<(bool, u64)> {
    let ae = AppendEntries { term, leader_id: "A".to_string(), prev_log_index: 0, prev_log_term: 0, entries, leader_commit: 0, block_embedding: None };
    match n.handle_message(&"A".to_string(), &Message::AppendEntries(ae)) {
        Some(Message::AppendEntriesResponse(r)) => Some((r.success, r.match_index)),
        _ => None,
    }
}

fn pre_history(k: u8) -> Vec<RaftWalEntry> {
    match k {
        0 => vec![],
        1 => vec![RaftWalEntry::TermChange { new_term: 1 }],
        2 => vec![RaftWalEntry::TermAndVote { term: 1, voted_for: Some("B".into()) }],
        3 => vec![RaftWalEntry::TermAndVote { term: 2, voted_for: None }],
        _ => vec![RaftWalEntry::TermAndVote { term: 1, voted_for: Some("A".into()) }, RaftWalEntry::TermChange { new_term: 2 }],
    }
}

struct VoteRun { bytes: Vec<u8>, granted: bool, vote_end: usize, entry_end: Option<usize>, outs: Vec<Out> }

/// pre-history; RequestVote(t, A); follow-up step; returns the file and where the vote record ends
fn run_vote(dir: &Path, pre: u8, t: u64, post: u8) -> Result<VoteRun, String> {
    let p = dir.join("n.wal");
    let _ = std::fs::remove_file(&p);
    {
        let mut w = RaftWal::open(&p).map_err(|e| e.to_string())?;
        for e in pre_history(pre) { w.append(&e).map_err(|e| e.to_string())?; }
    }
    let n = node(&p).map_err(|e| format!("with_wal: {e}"))?;
    let resp = request_vote(&n, t, "A").ok_or("no RequestVoteResponse")?;
    let vote_end = std::fs::metadata(&p).map_err(|e| e.to_string())?.len() as usize;
    let mut outs = vec![];
    if resp.1 {
        // persist.before_reply: the file, read right after the call, already contains the vote record
        let c = dir.join("n_read.wal");
        std::fs::copy(&p, &c).map_err(|e| e.to_string())?;
        let entries = RaftWal::open(&c).and_then(|x| x.replay());
        let st = entries.as_ref().ok().map(|e| RaftRecoveryState::from_entries(e));
        let has = matches!(&entries, Ok(es) if es.iter().any(|e| *e == RaftWalEntry::TermAndVote { term: t, voted_for: Some("A".into()) } || *e == RaftWalEntry::VoteCast { term: t, candidate_id: "A".into() }));
        let folded = matches!(&st, Some(s) if s.current_term == t && s.voted_for.as_deref() == Some("A"));
        outs.push(out(OB_PERSIST, has && folded && resp.0 == t, format!("vote for A in term {t} granted (response term {}); file right after the call replays to {entries:?}", resp.0)));
    }
    let mut entry_end = None;
    match post {
        1 => { let _ = request_vote(&n, t, "B"); },
        2 => { let _ = request_vote(&n, t, "A"); },
        3 => { let _ = append_entries(&n, t, vec![]); },
        4 => {
            if let Some((true, mi)) = append_entries(&n, t, vec![one_entry(t)]) {
                if mi >= 1 { entry_end = Some(std::fs::metadata(&p).map_err(|e| e.to_string())?.len() as usize); }
            }
        },
        _ => {},
    }
    drop(n);
    let bytes = std::fs::read(&p).map_err(|e| e.to_string())?;
    Ok(VoteRun { bytes, granted: resp.1, vote_end, entry_end, outs })
}

fn eval_restart(dir: &Path, vr: &VoteRun, t: u64, cut: usize) -> Out {
    let c = dir.join("nc.wal");
    std::fs::write(&c, &vr.bytes[..cut]).expect("write copy");
    let n = match node(&c) { Ok(n) => n, Err(e) => return out(OB_RESTART, false, format!("cut {cut}/{}: restart with_wal fails: {e}", vr.bytes.len())) };
    let term = n.current_term();
    let (lli, llt) = (n.last_log_index(), n.last_log_term());
    let log_ok = match vr.entry_end { Some(e) if e <= cut => lli >= 1 && llt == t, _ => true };
    let rb = request_vote(&n, t, "B");
    let refused = matches!(rb, Some((_, false)));
    out(OB_RESTART, term >= t && refused && log_ok,
        format!("cut {cut}/{} (vote record ends at {}): restarted node has term {term} (voted in term {t}), last log ({lli},{llt}){}; RequestVote(term {t}, B) -> {rb:?}, must be refused",
            vr.bytes.len(), vr.vote_end, if vr.entry_end.is_some_and(|e| e <= cut) { " must contain the acknowledged entry 1" } else { "" }))
}

/// chain of rounds: RequestVote(term, candidate) on a node restarted from the file; cut classes relative to the
/// bytes written in the round: 0 nothing, 1 first record whole, 2 first record + 1 byte, 3 all but 1 byte, 4 all
fn eval_vote_chain(dir: &Path, rounds: &[(u64, u8, u8)]) -> Out {
    let p = dir.join("ch.wal");
    let _ = std::fs::remove_file(&p);
    let mut granted: BTreeMap<u64, &str> = BTreeMap::new(); // votes whose grant was sent and whose record survived
    for (ri, &(t, cand, cls)) in rounds.iter().enumerate() {
        let n = match node(&p) { Ok(n) => n, Err(e) => return out(OB_RESTART, false, format!("round {ri}: restart fails: {e}")) };
        let top = granted.keys().next_back().copied().unwrap_or(0);
        if n.current_term() < top { return out(OB_RESTART, false, format!("round {ri}: restarted term {} < acted term {top}", n.current_term())); }
        let base = std::fs::metadata(&p).map(|m| m.len() as usize).unwrap_or(0);
        let cname = if cand == 0 { "A" } else { "B" };
        let resp = request_vote(&n, t, cname);
        drop(n);
        let bytes = std::fs::read(&p).unwrap_or_default();
        let total = bytes.len();
        if let Some((_, true)) = resp {
            if let Some(prev) = granted.get(&t) { if *prev != cname { return out(OB_RESTART, false, format!("round {ri}: vote for {cname} in term {t} granted, but {prev} was granted the vote in term {t} before a restart")); } }
            if t < top { return out(OB_RESTART, false, format!("round {ri}: vote granted in stale term {t} < {top}")); }
        }
        let ends: Vec<usize> = record_ends(&bytes).into_iter().filter(|&e| e > base).collect();
        let first = ends.first().copied().unwrap_or(total);
        let cut = match cls { 0 => base, 1 => first, 2 => (first + 1).min(total), 3 => total.saturating_sub(1).max(base), _ => total };
        let f = std::fs::OpenOptions::new().write(true).open(&p).expect("open for cut");
        f.set_len(cut as u64).expect("cut");
        if matches!(resp, Some((_, true))) && cut == total { granted.insert(t, cname); }
    }
    let n = match node(&p) { Ok(n) => n, Err(e) => return out(OB_RESTART, false, format!("final restart fails: {e}")) };
    if let Some((&top, &who)) = granted.iter().next_back() {
        let other = if who == "A" { "B" } else { "A" };
        let term = n.current_term();
        let r = request_vote(&n, top, other);
        return out(OB_RESTART, term >= top && matches!(r, Some((_, false))), format!("final restart: term {term} (acted {top}), RequestVote({top},{other}) -> {r:?} although {who} holds the vote"));
    }
    out(OB_RESTART, true, "no surviving vote".into())
}


// ---------- acted-on term is durable before the reply ----------
const OB_TERMDUR: &str = "C10.persist.term_before_reply";

/// A node that answers a RequestVote with term T (granted or not) has acted on T: a restart from the WAL
/// bytes present right after the call must come back with term >= T.  Cases cover the vote paths: better /
/// equal / worse candidate log, and equal logs with the geometric tie-break passing or refusing
/// (state embeddings none / same / opposite).
fn eval_term_durable(dir: &Path, own_log: bool, rv_term: u64, rel: u8, emb: u8) -> Out {
    let p = dir.join("td.wal");
    let _ = std::fs::remove_file(&p);
    let n = match node(&p) { Ok(n) => n, Err(e) => return out(OB_TERMDUR, false, format!("with_wal: {e}")) };
    if own_log { let _ = append_entries(&n, 1, vec![one_entry(1)]); }
    if emb > 0 { n.update_state_embedding_dense(&[1.0, 0.0, 0.0, 0.5]); }
    let (lli, llt) = (n.last_log_index(), n.last_log_term());
    let (ci, ct) = match rel { 0 => (lli, llt), 1 => (lli + 1, llt + 1), _ => (lli.saturating_sub(1), llt.saturating_sub(1)) };
    let cand_emb = match emb { 0 => SparseVector::new(0), 1 => SparseVector::from_dense(&[1.0, 0.0, 0.0, 0.5]), _ => SparseVector::from_dense(&[-1.0, 0.0, 0.0, -0.5]) };
    let before = n.current_term();
    let rv = RequestVote { term: rv_term, candidate_id: "A".to_string(), last_log_index: ci, last_log_term: ct, state_embedding: cand_emb };
    let resp = match n.handle_message(&"A".to_string(), &Message::RequestVote(rv)) { Some(Message::RequestVoteResponse(r)) => (r.term, r.vote_granted), _ => return out(OB_TERMDUR, false, "no response".into()) };
    let acted = n.current_term().max(resp.0);
    let bytes = std::fs::read(&p).unwrap_or_default();
    drop(n);
    let c = dir.join("tdc.wal");
    std::fs::write(&c, &bytes).expect("copy");
    let back = match node(&c) { Ok(n) => n.current_term(), Err(e) => return out(OB_TERMDUR, false, format!("restart fails: {e}")) };
    out(OB_TERMDUR, back >= acted, format!("node (term {before}, log {}) answered RequestVote(term {rv_term}, log rel {rel}, emb {emb}) with {resp:?}: acted on term {acted}, restarted from the WAL with term {back}", if own_log { "[(1,1)]" } else { "[]" }))
}


// ---------- restart after log compaction and a conflict truncation ----------

#[derive(Clone, PartialEq, Debug)]
struct NodeView { term: u64, vote: Option<String>, log: Vec<(u64, u64)> }

fn node_cfg(path: &Path, trailing: usize) -> std::io::Result<RaftNode> {
    let tr: Arc<dyn Transport> = Arc::new(MemoryTransport::new("n".to_string()));
    let cfg = RaftConfig { snapshot_trailing_logs: trailing, ..RaftConfig::default() };
    RaftNode::with_wal("n".to_string(), vec!["A".to_string(), "B".to_string()], tr, cfg, path)
}

fn entry_at(term: u64, index: u64) -> LogEntry {
    let mut b = Block::genesis("A".to_string());
    b.header.timestamp = 0;
    LogEntry::new(term, index, b)
}

fn append_from(n: &RaftNode, leader: &str, term: u64, prev: (u64, u64), entries: Vec<LogEntry>, commit: u64) -> Option<(u64, bool, u64)> {
    let ae = AppendEntries { term, leader_id: leader.to_string(), prev_log_index: prev.0, prev_log_term: prev.1, entries, leader_commit: commit, block_embedding: None };
    match n.handle_message(&leader.to_string(), &Message::AppendEntries(ae)) {
        Some(Message::AppendEntriesResponse(r)) => Some((r.term, r.success, r.match_index)),
        _ => None,
    }
}

/// the whole durable view of a node: term, the vote recorded for that term (read from the WAL file the node
/// runs on), and every log entry (index, term) it holds (`get_entries_for_follower` of a non-leader = whole log)
fn node_view(n: &RaftNode, wal_file: &Path, scratch: &Path) -> Result<NodeView, String> {
    std::fs::copy(wal_file, scratch).map_err(|e| e.to_string())?;
    let st = RaftWal::open(scratch).and_then(|x| RaftRecoveryState::from_wal(&x)).map_err(|e| format!("from_wal: {e}"))?;
    let term = n.current_term();
    let vote = if st.current_term == term { st.voted_for } else { None };
    let (_, _, entries, _) = n.get_entries_for_follower(&"A".to_string());
    if entries.len() != n.log_length() { return Err(format!("log view has {} entries, log_length() = {}", entries.len(), n.log_length())); }
    Ok(NodeView { term, vote, log: entries.iter().map(|e| (e.index, e.term)).collect() })
}

struct CompactRun {
    bytes: Vec<u8>,
    /// end of the records of the acknowledged entries 1..=6 (first byte of the tail)
    base_end: usize,
    /// legitimate views in order, with the file offset at which the step was acknowledged (None: intermediate)
    ghost: Vec<(NodeView, Option<usize>)>,
    compacted: bool,
}

const ACKED: u64 = 6;

fn run_compact(dir: &Path, s: u64, t: usize, k: u64, m: u64, voted: bool) -> Result<CompactRun, String> {
    let p = dir.join("cc.wal");
    let _ = std::fs::remove_file(&p);
    let flen = |p: &Path| std::fs::metadata(p).map(|x| x.len() as usize).unwrap_or(0);
    let n = node_cfg(&p, t).map_err(|e| format!("with_wal: {e}"))?;
    // leader A (term 1) replicates 1..=6, commit index s
    let r = append_from(&n, "A", 1, (0, 0), (1..=ACKED).map(|i| entry_at(1, i)).collect(), s);
    if r != Some((1, true, ACKED)) { return Err(format!("AppendEntries(term 1, entries 1..=6) -> {r:?}, expected acknowledgement of 6")); }
    let base_end = flen(&p);
    let mut log: Vec<(u64, u64)> = (1..=ACKED).map(|i| (i, 1)).collect();
    let mut ghost = vec![(NodeView { term: 1, vote: None, log: log.clone() }, Some(base_end))];
    // compaction through the public snapshot path
    n.finalize_to(s).map_err(|e| format!("finalize_to({s}): {e}"))?;
    let (meta, _data) = n.create_snapshot().map_err(|e| format!("create_snapshot: {e}"))?;
    if meta.last_included_index != s { return Err(format!("snapshot covers {} expected {s}", meta.last_included_index)); }
    n.truncate_log(&meta).map_err(|e| format!("truncate_log: {e}"))?;
    let compacted = n.log_length() < ACKED as usize;
    if flen(&p) != base_end { return Err("compaction wrote to the WAL (harness assumption: memory only)".into()); }
    if voted {
        match request_vote(&n, 2, "B") { Some((2, true)) => {}, other => return Err(format!("RequestVote(2, B) -> {other:?}, expected a grant")) }
        ghost.push((NodeView { term: 2, vote: Some("B".into()), log: log.clone() }, Some(flen(&p))));
    }
    // leader B (term 2): entries k.. of term 2 conflict with the uncommitted k..=6 of term 1
    let r = append_from(&n, "B", 2, (k - 1, 1), (k..k + m).map(|i| entry_at(2, i)).collect(), s);
    if r != Some((2, true, k + m - 1)) { return Err(format!("AppendEntries(term 2, prev ({},1), {m} entries from {k}) -> {r:?}, expected acknowledgement of {}", k - 1, k + m - 1)); }
    let vote: Option<String> = if voted { Some("B".into()) } else { None };
    if !voted { ghost.push((NodeView { term: 2, vote: None, log: log.clone() }, None)); }
    log.truncate((k - 1) as usize);
    ghost.push((NodeView { term: 2, vote: vote.clone(), log: log.clone() }, None));
    for i in k..k + m {
        log.push((i, 2));
        ghost.push((NodeView { term: 2, vote: vote.clone(), log: log.clone() }, if i == k + m - 1 { Some(flen(&p)) } else { None }));
    }
    // the live node shows the end of the last ghost view (entries below the compaction point are covered by its snapshot)
    let want = &ghost.last().unwrap().0;
    let (wi, wt) = want.log.last().copied().unwrap_or((0, 0));
    let cut_point = if compacted { s as usize - t } else { 0 };
    if n.current_term() != want.term || n.last_log_index() != wi || n.last_log_term() != wt || n.log_length() + cut_point != want.log.len() {
        return Err(format!("live node shows term {}, last log ({},{}), {} entries in memory; expected {want:?} minus a compacted prefix of {cut_point} entries", n.current_term(), n.last_log_index(), n.last_log_term(), n.log_length()));
    }
    drop(n);
    let bytes = std::fs::read(&p).map_err(|e| e.to_string())?;
    if ghost.last().unwrap().1 != Some(bytes.len()) { return Err("file length changed on drop".into()); }
    Ok(CompactRun { bytes, base_end, ghost, compacted })
}

fn eval_compact_cut(dir: &Path, cr: &CompactRun, t: usize, cut: usize, extend: bool) -> Vec<Out> {
    let mut o = vec![];
    if !cr.compacted { return o; } // precondition of the family: the in-memory log was compacted (log_base_index > 0)
    let c = dir.join("ccc.wal");
    let scratch = dir.join("ccc_view.wal");
    std::fs::write(&c, &cr.bytes[..cut]).expect("write copy");
    // last acknowledged step at the time of the crash
    let a = cr.ghost.iter().rposition(|(_, end)| end.is_some_and(|e| e <= cut)).unwrap_or(0);
    let allowed = &cr.ghost[a..];
    let matches = |v: &NodeView| allowed.iter().map(|(g, _)| g).find(|g| g.log == v.log && (v.term > g.term || (v.term == g.term && v.vote == g.vote))).cloned();
    let show = |g: &[(NodeView, Option<usize>)]| g.iter().map(|(v, _)| format!("{v:?}")).collect::<Vec<_>>().join(" | ");
    let mut first: Option<NodeView> = None;
    for pass in 1..=2 {
        let n = match node_cfg(&c, t) { Ok(n) => n, Err(e) => { o.push(out(OB_COMPACT, false, format!("cut {cut}/{}: restart {pass} with_wal fails: {e}", cr.bytes.len()))); return o; } };
        let v = match node_view(&n, &c, &scratch) { Ok(v) => v, Err(e) => { o.push(out(OB_COMPACT, false, format!("cut {cut}: restart {pass}: {e}"))); return o; } };
        let hit = matches(&v);
        let same = first.as_ref().map_or(true, |f| *f == v);
        o.push(out(OB_COMPACT, hit.is_some() && same, format!("cut {cut}/{} (tail starts at {}): restart {pass} shows {v:?}{}; expected one of: {}",
            cr.bytes.len(), cr.base_end, if same { String::new() } else { format!(" but restart 1 showed {:?}", first) }, show(allowed))));
        if hit.is_none() { return o; }
        if pass == 1 {
            if v.term == 2 && v.vote.as_deref() == Some("B") {
                let r = request_vote(&n, 2, "A");
                o.push(out(OB_COMPACT, matches!(r, Some((_, false))), format!("cut {cut}: restarted node holds its term-2 vote for B; RequestVote(2, A) -> {r:?}, must be refused")));
            }
            first = Some(v);
            continue;
        }
        if !extend { return o; }
        // one more entry from leader B, acknowledged by the restarted node, must survive a third restart
        let (li, lt) = v.log.last().copied().unwrap_or((0, 0));
        let term = v.term.max(2);
        let r = append_from(&n, "B", term, (li, lt), vec![entry_at(term, li + 1)], 0);
        drop(n);
        if r != Some((term, true, li + 1)) { o.push(out(OB_COMPACT, false, format!("cut {cut}: restarted node {v:?} answers AppendEntries(term {term}, prev ({li},{lt}), entry {}) with {r:?}, expected an acknowledgement", li + 1))); return o; }
        let mut want = NodeView { term, vote: if term == v.term { v.vote.clone() } else { None }, log: v.log.clone() };
        want.log.push((li + 1, term));
        let got = node_cfg(&c, t).map_err(|e| format!("with_wal fails: {e}")).and_then(|n3| node_view(&n3, &c, &scratch));
        o.push(out(OB_COMPACT, got.as_ref() == Ok(&want), format!("cut {cut}: after restart, one more acknowledged entry and a third restart the node shows {got:?}, expected {want:?}")));
    }
    o
}

/// cuts after which the restarted node is also extended by one entry: record boundaries of the tail, boundary + 1, end - 1
fn compact_extend_cuts(cr: &CompactRun) -> Vec<usize> {
    let mut v: Vec<usize> = vec![cr.base_end];
    for e in record_ends(&cr.bytes) { if e >= cr.base_end { v.push(e); if e + 1 <= cr.bytes.len() { v.push(e + 1); } } }
    v.push(cr.bytes.len().saturating_sub(1).max(cr.base_end));
    v.sort_unstable(); v.dedup();
    v
}

fn compact_domain(thorough: bool) -> Vec<(u64, usize, u64, u64, bool)> {
    let mut d = vec![];
    if thorough {
        for s in 2..=4u64 { for t in 0..=1usize { for k in s + 1..=ACKED { for m in 1..=2u64 { for voted in [false, true] { d.push((s, t, k, m, voted)); } } } } }
    } else {
        for t in 0..=1usize { for k in 5..=ACKED { for m in 1..=2u64 { for voted in [false, true] { d.push((4, t, k, m, voted)); } } } }
        for s in 2..=3u64 { for t in 0..=1usize { d.push((s, t, ACKED, 1, false)); } }
    }
    d
}

// ---------- enumeration ----------

fn scripts(nsyms: u8, maxlen: usize) -> Vec<Vec<u8>> {
    let mut all: Vec<Vec<u8>> = vec![vec![]];
    let mut frontier: Vec<Vec<u8>> = vec![vec![]];
    for _ in 0..maxlen {
        let mut next = vec![];
        for s in &frontier { for a in 0..nsyms { let mut t = s.clone(); t.push(a); next.push(t); } }
        all.extend(next.iter().cloned());
        frontier = next;
    }
    all
}

fn for_each_seq(nsyms: u8, maxlen: usize, f: &mut dyn FnMut(&[u8])) {
    fn rec(cur: &mut Vec<u8>, nsyms: u8, maxlen: usize, f: &mut dyn FnMut(&[u8])) {
        f(cur);
        if cur.len() == maxlen { return; }
        for a in 0..nsyms { cur.push(a); rec(cur, nsyms, maxlen, f); cur.pop(); }
    }
    rec(&mut vec![], nsyms, maxlen, f);
}

fn record(rep: &mut Report, outs: Vec<Out>, case: &dyn Fn() -> Value) {
    for x in outs { rep.check(x.ob, x.ok, case, &|| x.detail.clone()); }
}

pub fn run(tier: Tier, _seed: u64) -> Report {
    let thorough = tier == Tier::Thorough;
    let maxlen = if thorough { 4 } else { 3 };
    let tvlen = 5;
    let mut rep = Report::new("c10_raftwal",
        &format!("replay: all scripts of length <= {maxlen} over 7 RaftWalEntry values x every byte truncation (prefix-closed: per script the cuts behind the last-but-one entry), reopen + 1 append{}; \
                  fold.term_vote: all sequences <= {tvlen} over 21 symbols (7 kinds x terms 0..=2); fold.log: all sequences <= 5 over 7 symbols; \
                  restart: 5 pre-histories x RequestVote(term 1..=3, A) x 5 follow-up steps x every byte truncation >= end of the vote record{}; \
                  compaction + conflict: entries 1..=6 acknowledged, in-memory log compacted (snapshot at s, trailing t), [vote for B,] AppendEntries of term 2 conflicting at k with m new entries, \
                  {} x every byte truncation of the WAL tail, 2 restarts (+ 1 more acknowledged entry and a 3rd restart at record boundaries, boundary+1, end-1)",
                 if thorough { "; 3-round WAL crash chains (4 entries x 8 cut classes per round)" } else { "" },
                 if thorough { "; 3-round vote chains (terms 1..=2 x {A,B} x 5 cut classes per round)" } else { "" },
                 if thorough { "s in 2..=4, t in 0..=1, k in s+1..=6, m in 1..=2, voted no|yes" } else { "(s=4, t in 0..=1, k in 5..=6, m in 1..=2, voted no|yes) and (s in 2..=3, t in 0..=1, k=6, m=1, not voted)" }),
        true,
        &["RaftWal::open", "RaftWal::append", "RaftWal::replay", "RaftRecoveryState::from_entries", "RaftRecoveryState::from_wal", "RaftNode::with_wal", "RaftNode::handle_message(RequestVote)", "RaftNode::handle_message(AppendEntries)",
          "RaftNode::append_leader_entries", "RaftNode::finalize_to", "RaftNode::create_snapshot", "RaftNode::truncate_log"]);
    rep.declare(OB_PREFIX, "RaftWal::replay_with_validation");
    rep.declare(OB_WF, "RaftWal::open_with_config");
    rep.declare(OB_TV, "RaftRecoveryState::from_entries");
    rep.declare(OB_LOG, "RaftRecoveryState::from_entries");
    rep.declare(OB_PERSIST, "RaftNode::handle_request_vote with with_wal");
    rep.declare(OB_RESTART, "RaftNode::with_wal");
    rep.declare(OB_TERMDUR, "RaftNode::handle_request_vote with with_wal");
    rep.declare(OB_COMPACT, "RaftNode::append_leader_entries / truncate_log / with_wal");
    let dir = crate::fw::tmpdir("c10_raftwal");

    for script in scripts(7, maxlen) {
        let w = match write_script(&dir, &script) {
            Ok(w) => w,
            Err(e) => { rep.check(OB_PREFIX, false, &|| json!({"script": script, "cut": 0}), &|| e.clone()); continue; },
        };
        // cuts inside the records of the earlier entries are exactly the cases of the script's proper prefixes
        let lo = if script.len() <= 1 { 0 } else { w.ends[script.len() - 2] + 1 };
        for cut in lo..=w.bytes.len() {
            rep.eval(cut != 0 && !w.ends.contains(&cut));
            let outs = eval_cut(&dir, &w, cut);
            let sc = &script;
            record(&mut rep, outs, &|| json!({"script": sc, "cut": cut}));
        }
        if script == [1u8, 4] { rep.sample(json!({"script": script, "cut": w.bytes.len() - 1})); }
    }
    if thorough {
        // 3 crash rounds on the raw WAL: 1 entry of {TermAndVote(1,None), TermAndVote(1,a), LogEntryFull(1), LogTruncate(1)} per round
        let syms = [0u8, 1, 4, 6];
        let mut len = [0usize; 7];
        for &s in &syms { len[s as usize] = write_script(&dir, &[s]).map(|w| w.bytes.len()).unwrap_or(9); }
        let classes = |l: usize| -> Vec<usize> { let mut v = vec![0, 1, 4, 7, 8, 9, l - 1, l]; v.sort_unstable(); v.dedup(); v };
        for &a in &syms { for ca in classes(len[a as usize]) { for &b in &syms { for cb in classes(len[b as usize]) { for &c in &syms { for cc in classes(len[c as usize]) {
            let rounds = [(a, ca), (b, cb), (c, cc)];
            rep.eval(true);
            let x = eval_wal_rounds(&dir, &rounds);
            record(&mut rep, vec![x], &|| json!({"wal_rounds": rounds.iter().map(|(s, c)| json!([s, c])).collect::<Vec<_>>()}));
        } } } } } }
        rep.sample(json!({"wal_rounds": [[1, 9], [4, 4], [6, 17]]}));
    }

    // folds
    {
        let mut f = |syms: &[u8]| {
            rep.eval(syms.len() >= 2);
            let x = eval_tv(syms);
            rep.check(x.ob, x.ok, &|| json!({"tv": syms}), &|| x.detail.clone());
        };
        for_each_seq(21, tvlen, &mut f);
    }
    rep.sample(json!({"tv": [8, 9, 7]}));
    {
        let mut f = |syms: &[u8]| {
            rep.eval(syms.len() >= 2);
            let x = eval_log(syms);
            rep.check(x.ob, x.ok, &|| json!({"log": syms}), &|| x.detail.clone());
        };
        for_each_seq(7, 5, &mut f);
    }

    // restart
    for pre in 0..5u8 { for t in 1..=3u64 { for post in 0..5u8 {
        let vr = match run_vote(&dir, pre, t, post) {
            Ok(v) => v,
            Err(e) => { rep.check(OB_RESTART, false, &|| json!({"pre": pre, "term": t, "post": post, "cut": 0}), &|| e.clone()); continue; },
        };
        let VoteRun { outs, .. } = &vr;
        let outs2: Vec<Out> = outs.iter().map(|x| out(x.ob, x.ok, x.detail.clone())).collect();
        record(&mut rep, outs2, &|| json!({"pre": pre, "term": t, "post": post, "cut": vr.vote_end}));
        if !vr.granted { rep.eval(false); continue; } // precondition of restart.vote: the vote was granted
        for cut in vr.vote_end..=vr.bytes.len() {
            rep.eval(true);
            let x = eval_restart(&dir, &vr, t, cut);
            record(&mut rep, vec![x], &|| json!({"pre": pre, "term": t, "post": post, "cut": cut}));
        }
    } } }
    rep.sample(json!({"pre": 0, "term": 1, "post": 4, "cut": 60}));
    // acted-on term durable before the reply: own log {[], [(1,1)]} x request terms 1..=4 x candidate log {equal, better, worse} x embeddings {none, same, opposite}
    for own_log in [false, true] { for rv_term in 1..=4u64 { for rel in 0..3u8 { for emb in 0..3u8 {
        rep.eval(rv_term > 1);
        let x = eval_term_durable(&dir, own_log, rv_term, rel, emb);
        record(&mut rep, vec![x], &|| json!({"term_durable": [own_log, rv_term, rel, emb]}));
    } } } }
    // restart after compaction + conflict truncation
    for (s, t, k, m, voted) in compact_domain(thorough) {
        let case = |cut: usize| json!({"compact": {"snap": s, "trailing": t, "conflict": k, "new": m, "voted": voted}, "cut": cut});
        let cr = match run_compact(&dir, s, t, k, m, voted) {
            Ok(c) => c,
            Err(e) => { rep.check(OB_COMPACT, false, &|| case(0), &|| e.clone()); continue; },
        };
        let ext = compact_extend_cuts(&cr);
        for cut in cr.base_end..=cr.bytes.len() {
            rep.eval(cr.compacted);
            let outs = eval_compact_cut(&dir, &cr, t, cut, ext.contains(&cut));
            record(&mut rep, outs, &|| case(cut));
        }
    }
    rep.sample(json!({"compact": {"snap": 4, "trailing": 1, "conflict": 6, "new": 1, "voted": false}, "cut": 100_000}));
    if thorough {
        let opts: Vec<(u64, u8, u8)> = (1..=2u64).flat_map(|t| (0..2u8).flat_map(move |c| (0..5u8).map(move |k| (t, c, k)))).collect();
        for &a in &opts { for &b in &opts { for &c in &opts {
            let rounds = [a, b, c];
            rep.eval(true);
            let x = eval_vote_chain(&dir, &rounds);
            record(&mut rep, vec![x], &|| json!({"vote_chain": rounds.iter().map(|(t, c, k)| json!([t, c, k])).collect::<Vec<_>>()}));
        } } }
    }

    let _ = std::fs::remove_dir_all(&dir);
    rep
}

fn bytes_of(v: &Value) -> Vec<u8> { v.as_array().map(|a| a.iter().map(|x| x.as_u64().unwrap_or(0) as u8).collect()).unwrap_or_default() }

pub fn replay(ob: &str, case: &Value) -> Result<String, String> {
    let dir = crate::fw::tmpdir("c10_raftwal_replay");
    let outs: Vec<Out> = if let Some(s) = case.get("tv") {
        vec![eval_tv(&bytes_of(s))]
    } else if let Some(s) = case.get("log") {
        vec![eval_log(&bytes_of(s))]
    } else if let Some(r) = case.get("wal_rounds") {
        let rounds: Vec<(u8, usize)> = r.as_array().map(|a| a.iter().map(|x| (x[0].as_u64().unwrap_or(0) as u8, x[1].as_u64().unwrap_or(0) as usize)).collect()).unwrap_or_default();
        vec![eval_wal_rounds(&dir, &rounds)]
    } else if let Some(t) = case.get("term_durable") {
        vec![eval_term_durable(&dir, t[0].as_bool().unwrap_or(false), t[1].as_u64().unwrap_or(1), t[2].as_u64().unwrap_or(0) as u8, t[3].as_u64().unwrap_or(0) as u8)]
    } else if let Some(r) = case.get("vote_chain") {
        let rounds: Vec<(u64, u8, u8)> = r.as_array().map(|a| a.iter().map(|x| (x[0].as_u64().unwrap_or(0), x[1].as_u64().unwrap_or(0) as u8, x[2].as_u64().unwrap_or(0) as u8)).collect()).unwrap_or_default();
        vec![eval_vote_chain(&dir, &rounds)]
    } else if let Some(c) = case.get("compact") {
        let (s, t, k, m, voted) = (c["snap"].as_u64().unwrap_or(4), c["trailing"].as_u64().unwrap_or(0) as usize, c["conflict"].as_u64().unwrap_or(6), c["new"].as_u64().unwrap_or(1), c["voted"].as_bool().unwrap_or(false));
        match run_compact(&dir, s, t, k, m, voted) {
            Err(e) => vec![out(OB_COMPACT, false, e)],
            Ok(cr) => { let cut = (case["cut"].as_u64().unwrap_or(0) as usize).clamp(cr.base_end, cr.bytes.len()); eval_compact_cut(&dir, &cr, t, cut, true) },
        }
    } else if case.get("pre").is_some() {
        let (pre, t, post) = (case["pre"].as_u64().unwrap_or(0) as u8, case["term"].as_u64().unwrap_or(1), case["post"].as_u64().unwrap_or(0) as u8);
        match run_vote(&dir, pre, t, post) {
            Err(e) => vec![out(OB_RESTART, false, e)],
            Ok(vr) => {
                let mut o: Vec<Out> = vr.outs.iter().map(|x| out(x.ob, x.ok, x.detail.clone())).collect();
                if vr.granted {
                    let cut = (case["cut"].as_u64().unwrap_or(0) as usize).clamp(vr.vote_end, vr.bytes.len());
                    o.push(eval_restart(&dir, &vr, t, cut));
                }
                o
            },
        }
    } else {
        match write_script(&dir, &bytes_of(&case["script"])) {
            Err(e) => vec![out(OB_PREFIX, false, e)],
            Ok(w) => { let cut = (case["cut"].as_u64().unwrap_or(0) as usize).min(w.bytes.len()); eval_cut(&dir, &w, cut) },
        }
    };
    let _ = std::fs::remove_dir_all(&dir);
    let mine: Vec<&Out> = outs.iter().filter(|x| x.ob == ob).collect();
    if mine.is_empty() { return Err(format!("case does not exercise {ob} (precondition false or an earlier step failed: {})", outs.iter().filter(|x| !x.ok).map(|x| x.detail.clone()).collect::<Vec<_>>().join("; "))); }
    match mine.iter().find(|x| !x.ok) {
        Some(x) => Err(x.detail.clone()),
        None => Ok(format!("{} checks hold; last: {}", mine.len(), mine.last().map(|x| x.detail.clone()).unwrap_or_default())),
    }
}
