//! C20 (bounded): decoders on arbitrary / truncated / corrupted input.  Property: "Every decoder, given
//! arbitrary or truncated bytes, returns an error or a valid value without panicking, over-allocating beyond
//! its declared limits, or reading past the input."
//!
//! A decoder that aborts the process (capacity overflow, failed allocation) cannot be observed from inside
//! the process, so every case of this set runs in a CHILD process (`bounded replay c20_garbage <ob> <case>`
//! under `ulimit -v 3 GiB`): exit 0 = the decoder returned (Ok or Err), anything else (panic, abort, signal,
//! out of memory) = the obligation fails for that case.
//!
//!   C20.garbage.snapshot_values  tensor_compress::format::{decompress_vector, decompress_ints} on values a
//!                                corrupt snapshot file can contain: VectorSparse with dimension in
//!                                {0, 1, 8, 2^20, 2^31, 2^40, usize::MAX/4, usize::MAX}; VectorTT whose shape / ranks /
//!                                cores disagree (empty shape, zero mode, product overflow, short core data);
//!                                RleInt with run lengths {0, 1, 2^16}, mismatching value / run counts (a run length of
//!                                u32::MAX is a 32 GiB decompression bomb: this format declares no size limit, so it is
//!                                outside the clause and not in the domain)
//!   C20.garbage.snapshot_bytes   bitcode::deserialize::<CompressedSnapshot> on every truncation and every
//!                                single-bit flip of a small valid snapshot encoding (then validate +
//!                                decompress every vector field of whatever decodes)
//!   C20.garbage.frames           LengthDelimitedCodec::{decode_payload, decode_payload_v2} on every truncation
//!                                and every single-bit flip of valid v1 / v2 frame bodies (Ping, AppendEntries-free
//!                                SnapshotResponse with 40 data bytes, compressed and not)
use crate::fw::{Report, Tier};
use serde_json::{json, Value};
use std::collections::BTreeMap;
use tensor_chain::network::{Message, SnapshotResponse};
use tensor_chain::tcp::{CompressionConfig, CompressionMethod, LengthDelimitedCodec};
use tensor_compress::format::{decompress_ints, decompress_vector, CompressedEntry, CompressedSnapshot, CompressedValue, Header};
use tensor_compress::{compress_ids, CompressionConfig as SnapConfig, RleEncoded, TTCore};

const O_VAL: &str = "C20.garbage.snapshot_values";
const O_BYTES: &str = "C20.garbage.snapshot_bytes";
const O_FRM: &str = "C20.garbage.frames";

fn dims() -> Vec<usize> { vec![0, 1, 8, 1 << 20, 1 << 31, 1 << 40, usize::MAX / 4, usize::MAX] }

fn value_of(case: &Value) -> Option<CompressedValue> {
    match case["kind"].as_str()? {
        "sparse" => Some(CompressedValue::VectorSparse {
            dimension: dims()[case["dim"].as_u64()? as usize],
            positions: compress_ids(&[0, 3]),
            values: vec![1.0, 2.0],
        }),
        "tt" => {
            let core = |n: usize, l: usize, m: usize, r: usize| TTCore { data: vec![0.5; n], shape: (l, m, r) };
            let (cores, original_dim, shape, ranks) = match case["v"].as_u64()? {
                0 => (vec![core(4, 1, 2, 2), core(4, 2, 2, 1)], 4, vec![2, 2], vec![1, 2, 1]),           // valid
                1 => (vec![core(4, 1, 2, 2), core(4, 2, 2, 1)], 4, vec![], vec![1, 2, 1]),               // empty shape
                2 => (vec![core(4, 1, 2, 2), core(4, 2, 2, 1)], 4, vec![2, 0], vec![1, 2, 1]),           // zero mode
                3 => (vec![core(4, 1, 2, 2), core(4, 2, 2, 1)], 4, vec![usize::MAX, 4], vec![1, 2, 1]),  // product overflow
                4 => (vec![core(1, 1, 2, 2), core(1, 2, 2, 1)], 4, vec![2, 2], vec![1, 2, 1]),           // short core data
                5 => (vec![core(4, 1, 2, 2)], 4, vec![2, 2], vec![1, 2, 1]),                             // fewer cores than modes
                6 => (vec![core(4, 1, 2, 2), core(4, 2, 2, 1)], 1 << 40, vec![2, 2], vec![1, 2, 1]),     // original_dim larger than the tensor
                7 => (vec![core(4, 1, 2, 2), core(4, 3, 2, 1)], 4, vec![2, 2], vec![1, 2, 1]),           // rank mismatch between cores
                _ => (vec![core(4, 1, 2, 2), core(4, 2, 2, 1)], 4, vec![1 << 20, 1 << 20], vec![1, 2, 1]), // 2^40 elements claimed
            };
            Some(CompressedValue::VectorTT { cores, original_dim, shape, ranks })
        },
        "rle" => {
            let runs: Vec<u32> = case["runs"].as_array()?.iter().map(|r| r.as_u64().unwrap_or(0) as u32).collect();
            let nvals = case["nvals"].as_u64()? as usize;
            Some(CompressedValue::RleInt(RleEncoded { values: (0..nvals as i64).collect(), run_lengths: runs }))
        },
        _ => None,
    }
}

fn small_snapshot() -> Vec<u8> {
    let mut fields = BTreeMap::new();
    fields.insert("v".to_string(), CompressedValue::VectorRaw(vec![1.0, 2.0]));
    fields.insert("s".to_string(), CompressedValue::VectorSparse { dimension: 8, positions: compress_ids(&[1, 5]), values: vec![1.0, 2.0] });
    fields.insert("r".to_string(), CompressedValue::RleInt(RleEncoded { values: vec![7, 9], run_lengths: vec![3, 2] }));
    fields.insert("i".to_string(), CompressedValue::IdList(compress_ids(&[1, 2, 9])));
    let snap = CompressedSnapshot { header: Header::new(SnapConfig::default(), 1), entries: vec![CompressedEntry { key: "k".to_string(), fields }] };
    bitcode::serialize(&snap).expect("harness: serialize")
}

fn frame_body(which: u64) -> Vec<u8> {
    let msg = if which % 2 == 0 { Message::Ping { term: 3 } } else {
        Message::SnapshotResponse(SnapshotResponse { snapshot_height: 1, snapshot_hash: [7u8; 32], data: vec![0u8; 40], offset: 0, total_size: 40, is_last: true })
    };
    let mut cfg = CompressionConfig::default();
    cfg.enabled = true;
    cfg.method = CompressionMethod::Lz4;
    cfg.min_size = 0;
    let mut codec = LengthDelimitedCodec::with_compression(1 << 20, cfg);
    codec.set_compression_enabled(which >= 4);
    let frame = if which % 4 < 2 { codec.encode(&msg) } else { codec.encode_v2(&msg) }.expect("harness: encode");
    frame[4..].to_vec()
}

fn mutate(bytes: &[u8], m: &Value) -> Vec<u8> {
    let mut b = bytes.to_vec();
    if let Some(t) = m.get("trunc").and_then(Value::as_u64) { b.truncate(t as usize); }
    if let Some(f) = m.get("flip").and_then(Value::as_u64) { let i = (f / 8) as usize; if i < b.len() { b[i] ^= 1 << (f % 8); } }
    b
}

/// runs INSIDE the child process: call the decoder; returning at all is success
fn exec(case: &Value) -> String {
    match case["kind"].as_str().unwrap_or("") {
        "sparse" | "tt" | "rle" => {
            let v = value_of(case).expect("harness: case");
            if case["kind"] == "rle" { format!("decompress_ints -> {} values", decompress_ints(&v).len()) }
            else { format!("decompress_vector -> {:?}", decompress_vector(&v).map(|x| x.len()).map_err(|e| e.to_string())) }
        },
        "snapbytes" => {
            let b = mutate(&small_snapshot(), case);
            match bitcode::deserialize::<CompressedSnapshot>(&b) {
                Err(_) => "deserialize -> Err".to_string(),
                Ok(s) => {
                    let ok = s.header.validate().is_ok();
                    let mut n = 0usize;
                    if ok { for e in &s.entries { for v in e.fields.values() { n += decompress_vector(v).map(|x| x.len()).unwrap_or(0); n += decompress_ints(v).len(); } } }
                    format!("deserialize -> Ok (header valid: {ok}), {n} decoded elements")
                },
            }
        },
        "frame" => {
            let which = case["which"].as_u64().unwrap_or(0);
            let b = mutate(&frame_body(which), case);
            let codec = LengthDelimitedCodec::new(1 << 20);
            let r = if which % 4 < 2 { codec.decode_payload(&b).map(|_| ()) } else { codec.decode_payload_v2(&b).map(|_| ()) };
            format!("decode -> {}", if r.is_ok() { "Ok" } else { "Err" })
        },
        _ => "unknown case".to_string(),
    }
}

fn ob_of(case: &Value) -> &'static str {
    match case["kind"].as_str().unwrap_or("") { "snapbytes" => O_BYTES, "frame" => O_FRM, _ => O_VAL }
}

/// parent side: run one case in a child under an address-space cap
fn run_child(case: &Value) -> (bool, String) {
    let exe = std::env::current_exe().expect("harness: current_exe");
    let out = std::process::Command::new("sh")
        .arg("-c").arg("ulimit -v 3145728; exec \"$0\" replay c20_garbage \"$1\" \"$2\"")
        .arg(&exe).arg(ob_of(case)).arg(case.to_string())
        .env("C20_GARBAGE_CHILD", "1")
        .output();
    match out {
        Ok(o) => {
            let ok = o.status.code() == Some(0);
            let mut d = String::from_utf8_lossy(&o.stdout).trim().to_string();
            if !ok {
                let err = String::from_utf8_lossy(&o.stderr);
                let last = err.lines().rev().find(|l| !l.trim().is_empty()).unwrap_or("");
                d = format!("decoder did not return: child status {:?}; {}", o.status, last.chars().take(200).collect::<String>());
            }
            (ok, d)
        },
        Err(e) => (false, format!("harness: cannot spawn child: {e}")),
    }
}

fn cases(tier: Tier) -> Vec<Value> {
    let mut v = vec![];
    for d in 0..dims().len() { v.push(json!({"kind": "sparse", "dim": d})); }
    for t in 0..9 { v.push(json!({"kind": "tt", "v": t})); }
    for (nvals, runs) in [(2, vec![3u64, 2]), (2, vec![0, 0]), (1, vec![1 << 16]), (1, vec![2, 2]), (3, vec![1])] {
        v.push(json!({"kind": "rle", "nvals": nvals, "runs": runs}));
    }
    let sn = small_snapshot().len();
    let step = if tier == Tier::Thorough { 1 } else { 3 };
    for t in (0..sn).step_by(step) { v.push(json!({"kind": "snapbytes", "trunc": t})); }
    for f in (0..sn * 8).step_by(step * 2 + 1) { v.push(json!({"kind": "snapbytes", "flip": f})); }
    for which in 0..8u64 {
        let n = frame_body(which).len();
        for t in (0..n).step_by(step) { v.push(json!({"kind": "frame", "which": which, "trunc": t})); }
        for f in (0..n * 8).step_by(step * 4 + 1) { v.push(json!({"kind": "frame", "which": which, "flip": f})); }
    }
    v
}

pub fn run(tier: Tier, _seed: u64) -> Report {
    let mut rep = Report::new("c20_garbage",
        "corrupt snapshot values (sparse dimension up to usize::MAX, inconsistent tensor-train shapes, RLE run lengths up to u32::MAX), every truncation / sampled single-bit flips of a small compressed-snapshot encoding and of 8 frame bodies (v1/v2, compressed or not); each case runs in a child process under a 3 GiB address-space cap",
        false, &["tensor_compress::format::decompress_vector", "tensor_compress::format::decompress_ints", "bitcode::deserialize::<CompressedSnapshot>", "LengthDelimitedCodec::decode_payload", "LengthDelimitedCodec::decode_payload_v2"]);
    for o in [O_VAL, O_BYTES, O_FRM] { rep.declare(o, "decoders"); }
    let cs = cases(tier);
    // children in parallel (each is a separate process)
    let results: Vec<(Value, bool, String)> = std::thread::scope(|s| {
        let chunks: Vec<&[Value]> = cs.chunks((cs.len() + 11) / 12).collect();
        let hs: Vec<_> = chunks.into_iter().map(|ch| s.spawn(move || ch.iter().map(|c| { let (ok, d) = run_child(c); (c.clone(), ok, d) }).collect::<Vec<_>>())).collect();
        hs.into_iter().flat_map(|h| h.join().expect("harness: worker")).collect()
    });
    for (c, ok, d) in results {
        rep.eval(true);
        let cc = c.clone();
        rep.check(ob_of(&c), ok, &|| cc.clone(), &|| d.clone());
    }
    rep.sample(json!({"kind": "sparse", "dim": 5}));
    rep.sample(json!({"kind": "snapbytes", "trunc": 7}));
    rep
}

pub fn replay(_ob: &str, case: &Value) -> Result<String, String> {
    if std::env::var("C20_GARBAGE_CHILD").is_ok() {
        // child: a panic / abort here IS the observation
        return Ok(exec(case));
    }
    let (ok, d) = run_child(case);
    if ok { Ok(d) } else { Err(d) }
}
