//! C20 (bounded): decoders on arbitrary / truncated / corrupted input.  Property: "Every decoder, given
//! arbitrary or truncated bytes, returns an error or a valid value without panicking, over-allocating beyond
//! its declared limits, or reading past the input."
//!
//! A decoder that aborts the process (capacity overflow, failed allocation) cannot be observed from inside
//! the process, so every case of this set runs in a CHILD process (`bounded replay c20_garbage <ob> <case>`
//! under `ulimit -v 3 GiB`): exit 0 = the decoder returned (Ok or Err), anything else (panic, abort, signal,
//! out of memory) = the obligation fails for that case.
//!
//!   C20.garbage.snapshot_values  tensor_compress::format::{decompress_vector, decompress_ints} on values a
//!                                corrupt snapshot file can contain: VectorSparse with dimension in
//!                                {0, 1, 8, 2^20, 2^31, 2^40, usize::MAX/4, usize::MAX}; VectorTT whose shape / ranks /
//!                                cores disagree (empty shape, zero mode, product overflow, short core data);
//!                                RleInt with run lengths {0, 1, 2^16}, mismatching value / run counts (a run length of
//!                                u32::MAX is a 32 GiB decompression bomb: this format declares no size limit, so it is
//!                                outside the clause and not in the domain)
//!   C20.garbage.snapshot_bytes   bitcode::deserialize::<CompressedSnapshot> on every truncation and every
//!                                single-bit flip of a small valid snapshot encoding (then validate +
//!                                decompress every vector field of whatever decodes)
//!   C20.garbage.frames           LengthDelimitedCodec::{decode_payload, decode_payload_v2} on every truncation
//!                                and every single-bit flip of valid v1 / v2 frame bodies (Ping, AppendEntries-free
//!                                SnapshotResponse with 40 data bytes, compressed and not)
//!   C20.message.sparse_fields    network messages that carry a `SparseVector` whose wire form is NOT well-formed.  The wire
//!                                bytes are the real encoding (`LengthDelimitedCodec::encode` / `encode_v2` / a hand-built
//!                                LZ4 v2 body) of a real `Message` whose vector was materialised from the bitcode layout
//!                                (dimension, positions, values) without any constructor check.  Receive path in the child:
//!                                `decode_payload` / `decode_payload_v2` -> `CompositeValidator::validate` (+
//!                                `EmbeddingValidator::validate` on every carried vector) -> for an ACCEPTED message the
//!                                consumers of the receiving code: `to_dense`, `magnitude`, `dot`, `cosine_similarity` (both
//!                                operand orders against a well-formed vector of the same dimension, = geometric routing /
//!                                `geometric_vote_bias`), `RaftNode::handle_message` (RequestVote / PreVote with equal logs and
//!                                geometric tie-break; AppendEntries fast path before and after 6 well-formed heartbeats of the
//!                                same leader), `DistributedTxCoordinator::handle_prepare` next to a pending transaction
//!                                (TxPrepare), `record_vote` of the last missing shard (TxPrepareResponse).
//!                                Clause: nothing panics / aborts; every vector carried by an accepted message has strictly
//!                                increasing positions < dimension, positions.len() == values.len(), 0 < dimension <=
//!                                max_embedding_dimension and finite values (the validator's documented checks).
//!                                Domain: variants {RequestVote, PreVote, AppendEntries.block_embedding, TxPrepare,
//!                                QueryRequest.embedding} x dimension {0, 1, 4, 65536, 65537, 2^32, usize::MAX} x position
//!                                lists {empty, 0, d-1, d, d+1, u32::MAX, pairs / triples sorted, unsorted, duplicated, reaching
//!                                d / u32::MAX} x value count {=, -1, +1, +3, 0} x value classes {plain, explicit zero, NaN, +inf,
//!                                -inf, 1e30, f32::MAX} x framing {v1, v2 plain, v2 LZ4}; plus every truncation and every
//!                                single-bit flip of the v1 body of a valid message of each variant (a flip in the position /
//!                                length columns yields exactly such vectors).
//!   C20.message.sparse_fields.lengths     the same clause for the (validated) messages whose decoded vector has
//!                                positions.len() != values.len() (the pinned `EmbeddingValidator::validate` never compared the
//!                                two lengths; repaired by a fix: commit).
//!   C20.message.sparse_fields.unchecked   the carriers that the pinned validator passed without looking at the vector:
//!                                TxPrepareResponse (TxVote::Yes.delta) and DataMergeResponse.state_embedding (and whatever other
//!                                carrier a bit flip turns the message into).  Clause: no consumer panics and an accepted vector
//!                                satisfies the REPRESENTATION invariant (one value per position, positions strictly increasing
//!                                and below the dimension, dimension <= the limit); an empty vector and non-finite values are
//!                                valid values of the type and are not held against these carriers (that is embedding policy,
//!                                which the validator applies to the other carriers only).
//!   C20.stream.reader            tensor_compress::streaming (`StreamingWriter`, `StreamingReader::{open, next}`,
//!                                `read_streaming_to_snapshot`, `convert_to_streaming`, `merge_streaming`): exact round trip of
//!                                0 / 1 / 2 / 4 / 40 entries covering every CompressedValue variant; every truncation and every
//!                                single-bit flip of short valid streams; the trailer re-serialised with entry_count /
//!                                data_start in {0, 1, n-1, n+1, ..., 2^31, 2^62, 2^63, u64::MAX}, corrupted magic / version;
//!                                the trailer-length field and every entry length prefix replaced by boundary values (0, +-1,
//!                                remaining+1, the 1 MiB / 100 MiB limits and limit+1, 2^31, u32::MAX / u64::MAX).
//!                                Clause: Err, or Ok(value) with header.entry_count == entries.len() that re-encodes and reads
//!                                back to the same entries (the three readers agree); an untouched stream reads back exactly;
//!                                never a panic / abort / allocation beyond the 3 GiB cap.
//!
//! The cases of the last four obligations run in BATCHES of 150 per child (`bounded replay c20_garbage <ob> {"batch": [...]}`,
//! same address-space cap): a panic is caught per call and reported as a failure of the case, a child that dies (abort,
//! failed allocation) fails the case it was running and the rest of the batch continues in a new child.  The obligation of a
//! sparse_fields case is decided by what the bytes DECODE to (validated carrier / unvalidated carrier / length mismatch).
use crate::fw::{no_panic, Report, Tier};
use serde_json::{json, Value};
use std::collections::BTreeMap;
use std::io::Cursor;
use std::panic::AssertUnwindSafe;
use std::sync::Arc;
use tensor_chain::network::{Message, SnapshotResponse};
use tensor_chain::tcp::compression::{compress, frame_flags};
use tensor_chain::tcp::{CompressionConfig, CompressionMethod, LengthDelimitedCodec};
use tensor_chain::{AppendEntries, CompositeValidator, ConsensusConfig, ConsensusManager, DataMergeResponse, DistributedTxConfig, DistributedTxCoordinator, EmbeddingValidator,
                   MemoryTransport, MessageValidationConfig, MessageValidator, PreVote, PrepareRequest, PrepareVote, QueryRequest, RaftConfig, RaftNode, RequestVote, Transaction,
                   TxPrepareMsg, TxPrepareResponseMsg, TxVote};
use tensor_compress::format::{decompress_ints, decompress_vector, CompressedEntry, CompressedScalar, CompressedSnapshot, CompressedValue, Header};
use tensor_compress::streaming::{convert_to_streaming, merge_streaming, read_streaming_to_snapshot, StreamingHeader, StreamingReader, StreamingWriter, STREAMING_MAGIC, STREAMING_VERSION};
use tensor_compress::{compress_ids, CompressionConfig as SnapConfig, RleEncoded, TTCore};
use tensor_store::SparseVector;

const O_VAL: &str = "C20.garbage.snapshot_values";
const O_BYTES: &str = "C20.garbage.snapshot_bytes";
const O_FRM: &str = "C20.garbage.frames";
const O_SPF: &str = "C20.message.sparse_fields";
const O_SPFL: &str = "C20.message.sparse_fields.lengths";
const O_SPFU: &str = "C20.message.sparse_fields.unchecked";
const O_STR: &str = "C20.stream.reader";

fn dims() -> Vec<usize> { vec![0, 1, 8, 1 << 20, 1 << 31, 1 << 40, usize::MAX / 4, usize::MAX] }

fn value_of(case: &Value) -> Option<CompressedValue> {
    match case["kind"].as_str()? {
        "sparse" => Some(CompressedValue::VectorSparse {
            dimension: dims()[case["dim"].as_u64()? as usize],
            positions: compress_ids(&[0, 3]),
            values: vec![1.0, 2.0],
        }),
        "tt" => {
            let core = |n: usize, l: usize, m: usize, r: usize| TTCore { data: vec![0.5; n], shape: (l, m, r) };
            let (cores, original_dim, shape, ranks) = match case["v"].as_u64()? {
                0 => (vec![core(4, 1, 2, 2), core(4, 2, 2, 1)], 4, vec![2, 2], vec![1, 2, 1]),           // valid
                1 => (vec![core(4, 1, 2, 2), core(4, 2, 2, 1)], 4, vec![], vec![1, 2, 1]),               // empty shape
                2 => (vec![core(4, 1, 2, 2), core(4, 2, 2, 1)], 4, vec![2, 0], vec![1, 2, 1]),           // zero mode
                3 => (vec![core(4, 1, 2, 2), core(4, 2, 2, 1)], 4, vec![usize::MAX, 4], vec![1, 2, 1]),  // product overflow
                4 => (vec![core(1, 1, 2, 2), core(1, 2, 2, 1)], 4, vec![2, 2], vec![1, 2, 1]),           // short core data
                5 => (vec![core(4, 1, 2, 2)], 4, vec![2, 2], vec![1, 2, 1]),                             // fewer cores than modes
                6 => (vec![core(4, 1, 2, 2), core(4, 2, 2, 1)], 1 << 40, vec![2, 2], vec![1, 2, 1]),     // original_dim larger than the tensor
                7 => (vec![core(4, 1, 2, 2), core(4, 3, 2, 1)], 4, vec![2, 2], vec![1, 2, 1]),           // rank mismatch between cores
                _ => (vec![core(4, 1, 2, 2), core(4, 2, 2, 1)], 4, vec![1 << 20, 1 << 20], vec![1, 2, 1]), // 2^40 elements claimed
            };
            Some(CompressedValue::VectorTT { cores, original_dim, shape, ranks })
        },
        "rle" => {
            let runs: Vec<u32> = case["runs"].as_array()?.iter().map(|r| r.as_u64().unwrap_or(0) as u32).collect();
            let nvals = case["nvals"].as_u64()? as usize;
            Some(CompressedValue::RleInt(RleEncoded { values: (0..nvals as i64).collect(), run_lengths: runs }))
        },
        _ => None,
    }
}

fn small_snapshot() -> Vec<u8> {
    let mut fields = BTreeMap::new();
    fields.insert("v".to_string(), CompressedValue::VectorRaw(vec![1.0, 2.0]));
    fields.insert("s".to_string(), CompressedValue::VectorSparse { dimension: 8, positions: compress_ids(&[1, 5]), values: vec![1.0, 2.0] });
    fields.insert("r".to_string(), CompressedValue::RleInt(RleEncoded { values: vec![7, 9], run_lengths: vec![3, 2] }));
    fields.insert("i".to_string(), CompressedValue::IdList(compress_ids(&[1, 2, 9])));
    let snap = CompressedSnapshot { header: Header::new(SnapConfig::default(), 1), entries: vec![CompressedEntry { key: "k".to_string(), fields }] };
    bitcode::serialize(&snap).expect("harness: serialize")
}

fn frame_body(which: u64) -> Vec<u8> {
    let msg = if which % 2 == 0 { Message::Ping { term: 3 } } else {
        Message::SnapshotResponse(SnapshotResponse { snapshot_height: 1, snapshot_hash: [7u8; 32], data: vec![0u8; 40], offset: 0, total_size: 40, is_last: true })
    };
    let mut cfg = CompressionConfig::default();
    cfg.enabled = true;
    cfg.method = CompressionMethod::Lz4;
    cfg.min_size = 0;
    let mut codec = LengthDelimitedCodec::with_compression(1 << 20, cfg);
    codec.set_compression_enabled(which >= 4);
    let frame = if which % 4 < 2 { codec.encode(&msg) } else { codec.encode_v2(&msg) }.expect("harness: encode");
    frame[4..].to_vec()
}

fn mutate(bytes: &[u8], m: &Value) -> Vec<u8> {
    let mut b = bytes.to_vec();
    if let Some(t) = m.get("trunc").and_then(Value::as_u64) { b.truncate(t as usize); }
    if let Some(f) = m.get("flip").and_then(Value::as_u64) { let i = (f / 8) as usize; if i < b.len() { b[i] ^= 1 << (f % 8); } }
    b
}

// ---------------------------------------------------------------------------------------------------------
// C20.message.sparse_fields: messages whose SparseVector is malformed ON THE WIRE
// ---------------------------------------------------------------------------------------------------------
const SPF_CHECKED: [&str; 5] = ["rv", "pv", "ae", "txp", "qr"];
const SPF_UNCHECKED: [&str; 2] = ["txr", "dmr"];
const MAX_EMB_DIM: usize = 65536;

/// A SparseVector exactly as a peer can put it on the wire: bitcode lays a struct out as the tuple of its
/// fields, so the (dimension, positions, values) tuple decodes as a SparseVector without any constructor check.
fn wire_sparse(dim: usize, pos: &[u32], vals: &[f32]) -> SparseVector {
    let b = bitcode::serialize(&(dim, pos.to_vec(), vals.to_vec())).expect("harness: serialize tuple");
    let sv: SparseVector = bitcode::deserialize(&b).expect("harness: the tuple layout no longer decodes as a SparseVector");
    assert!(sv.dimension() == dim && sv.positions() == pos && sv.values().len() == vals.len() && sv.values().iter().zip(vals).all(|(a, b)| a.to_bits() == b.to_bits()),
            "harness: wire_sparse did not reproduce the requested parts");
    sv
}

fn sparse_message(variant: &str, sv: SparseVector) -> Message {
    let b = || "b".to_string();
    match variant {
        "rv" => Message::RequestVote(RequestVote { term: 2, candidate_id: b(), last_log_index: 0, last_log_term: 0, state_embedding: sv }),
        "pv" => Message::PreVote(PreVote { term: 1, candidate_id: b(), last_log_index: 0, last_log_term: 0, state_embedding: sv }),
        "ae" => Message::AppendEntries(AppendEntries { term: 1, leader_id: b(), prev_log_index: 0, prev_log_term: 0, entries: vec![], leader_commit: 0, block_embedding: Some(sv) }),
        "txp" => Message::TxPrepare(TxPrepareMsg { tx_id: 77, coordinator: b(), shard_id: 1, operations: vec![Transaction::Put { key: "k2".to_string(), data: vec![1] }], delta_embedding: sv, timeout_ms: 1000 }),
        "qr" => Message::QueryRequest(QueryRequest { query_id: 5, query: "SELECT 1".to_string(), shard_id: 0, embedding: Some(sv), timeout_ms: 1000 }),
        "txr" => Message::TxPrepareResponse(TxPrepareResponseMsg { tx_id: 77, shard_id: 1, vote: TxVote::Yes { lock_handle: 1, delta: sv, affected_keys: vec!["k2".to_string()] } }),
        _ => Message::DataMergeResponse(DataMergeResponse { session_id: 1, responder: b(), delta_entries: vec![], state_embedding: Some(sv), has_more: false }),
    }
}

/// the frame body a receiver is handed: 0 = v1, 1 = v2 without compression, 2 = v2 with an LZ4 payload
fn spf_body(msg: &Message, frame: u64) -> Vec<u8> {
    let codec = LengthDelimitedCodec::default();
    match frame {
        0 => codec.encode(msg).expect("harness: encode")[4..].to_vec(),
        1 => codec.encode_v2(msg).expect("harness: encode_v2")[4..].to_vec(),
        _ => {
            let ser = bitcode::serialize(msg).expect("harness: serialize");
            let mut b = vec![frame_flags(CompressionMethod::Lz4)];
            b.extend(compress(&ser, CompressionMethod::Lz4));
            b
        },
    }
}

/// every SparseVector the receiving code reads from the message
fn carried(msg: &Message) -> (bool, Vec<&SparseVector>) {
    match msg {
        Message::RequestVote(m) => (true, vec![&m.state_embedding]),
        Message::PreVote(m) => (true, vec![&m.state_embedding]),
        Message::AppendEntries(m) => (true, m.block_embedding.iter().collect()),
        Message::TxPrepare(m) => (true, vec![&m.delta_embedding]),
        Message::QueryRequest(m) => (true, m.embedding.iter().collect()),
        Message::TxPrepareResponse(m) => (false, match &m.vote { TxVote::Yes { delta, .. } => vec![delta], _ => vec![] }),
        Message::DataMergeResponse(m) => (false, m.state_embedding.iter().collect()),
        _ => (false, vec![]),
    }
}

/// `policy`: the carrier is one whose vector the validator holds to the embedding policy (non-empty, finite values) as well;
/// for the others (a vote's delta, a merge state) only what "a valid value" means for the type is required: the
/// representation invariant its consumers index by, and a dimension that may be densified.
fn spf_invariant(v: &SparseVector, policy: bool) -> Result<(), String> {
    let (d, p, x) = (v.dimension(), v.positions(), v.values());
    let show = || format!("dimension {d}, positions {:?}{}, {} values", &p[..p.len().min(6)], if p.len() > 6 { ".." } else { "" }, x.len());
    if p.len() != x.len() { return Err(format!("accepted vector has {} positions but {} values ({})", p.len(), x.len(), show())); }
    if let Some(q) = p.iter().find(|q| **q as usize >= d) { return Err(format!("accepted vector has position {q} >= dimension ({})", show())); }
    if p.windows(2).any(|w| w[0] >= w[1]) { return Err(format!("accepted vector has positions that are not strictly increasing ({})", show())); }
    if (policy && d == 0) || d > MAX_EMB_DIM { return Err(format!("accepted vector has dimension {d}, outside {}..={MAX_EMB_DIM} ({})", usize::from(policy), show())); }
    if policy { if let Some(y) = x.iter().find(|y| !y.is_finite()) { return Err(format!("accepted vector holds the non-finite value {y} ({})", show())); } }
    Ok(())
}

/// a well-formed vector of the same dimension whose entries meet the usual positions of the domain
fn local_like(d: usize) -> Option<SparseVector> {
    if d == 0 || d > u32::MAX as usize { return None; }
    let mut pos: Vec<u32> = [0usize, 1, 2, 3, d - 1].iter().filter(|p| **p < d).map(|p| *p as u32).collect();
    pos.sort_unstable();
    pos.dedup();
    let n = pos.len();
    SparseVector::try_from_parts(d, pos, vec![1.0; n]).ok()
}

fn spf_node(local: &SparseVector) -> RaftNode {
    let cfg = RaftConfig { auto_heartbeat: false, ..RaftConfig::default() };
    let node = RaftNode::with_state("a".to_string(), vec!["b".to_string(), "c".to_string()], Arc::new(MemoryTransport::new("a".to_string())), cfg, 1, None, vec![]);
    node.update_state_embedding(local.clone());
    node
}

fn spf_coord() -> DistributedTxCoordinator {
    DistributedTxCoordinator::new(ConsensusManager::new(ConsensusConfig::default()), DistributedTxConfig { optimistic_locking: true, ..DistributedTxConfig::default() })
}

fn guarded<T>(what: &str, f: impl FnOnce() -> T) -> Result<T, String> { no_panic(AssertUnwindSafe(f)).map_err(|p| format!("{what} panicked: {p}")) }

/// what the receiving code does with an ACCEPTED message: (consumer groups that ran, panics)
fn spf_consume(msg: &Message) -> (Vec<&'static str>, Vec<String>) {
    let mut ran = vec![];
    let mut bad = vec![];
    let (_, vecs) = carried(msg);
    for v in &vecs {
        let direct = || -> Result<(), String> {
            guarded("SparseVector::magnitude", || v.magnitude())?;
            guarded("SparseVector::to_dense", || v.to_dense().len())?;
            if let Some(l) = local_like(v.dimension()) {
                guarded("SparseVector::dot(received, local)", || v.dot(&l))?;
                guarded("SparseVector::dot(local, received)", || l.dot(v))?;
                guarded("SparseVector::cosine_similarity(received, local)", || v.cosine_similarity(&l))?;
                guarded("SparseVector::cosine_similarity(local, received)", || l.cosine_similarity(v))?;
                guarded("SparseVector::cosine_similarity(received, received)", || v.cosine_similarity(v))?;
            }
            Ok(())
        };
        if let Err(p) = direct() { bad.push(p); }
        ran.push("direct");
    }
    let Some(local) = vecs.first().and_then(|v| local_like(v.dimension())) else { return (ran, bad) };
    let from = "b".to_string();
    let first_prepare = |c: &DistributedTxCoordinator| -> Option<u64> {
        let tx = c.begin(&"a".to_string(), &[0, 1]).ok()?;
        let first = PrepareRequest { tx_id: tx.tx_id, coordinator: "a".to_string(), operations: vec![Transaction::Put { key: "k1".to_string(), data: vec![0] }], delta_embedding: local.clone(), timeout_ms: 1000 };
        let v = c.handle_prepare(&first);
        let _ = c.record_vote(tx.tx_id, 0, v);
        Some(tx.tx_id)
    };
    let mut handler = |name: &'static str, what: &str, f: &mut dyn FnMut()| { if let Err(p) = guarded(what, f) { bad.push(p); } ran.push(name); };
    match msg {
        Message::RequestVote(_) | Message::PreVote(_) => {
            handler("raft.vote", "RaftNode::handle_message(vote request with equal logs: geometric tie-break)", &mut || { let n = spf_node(&local); let _ = n.handle_message(&from, msg); });
        },
        Message::AppendEntries(ae) => {
            let good = Message::AppendEntries(AppendEntries { block_embedding: Some(local.clone()), ..ae.clone() });
            handler("raft.fast_path", "RaftNode::handle_message(AppendEntries) followed by 6 well-formed heartbeats of the same leader", &mut || {
                let n = spf_node(&local);
                let _ = n.handle_message(&from, msg);
                for _ in 0..6 { let _ = n.handle_message(&from, &good); }
            });
            handler("raft.fast_path_history", "RaftNode::handle_message(AppendEntries) after 6 well-formed heartbeats of the same leader", &mut || {
                let n = spf_node(&local);
                for _ in 0..6 { let _ = n.handle_message(&from, &good); }
                let _ = n.handle_message(&from, msg);
                let _ = n.handle_message(&from, &good);
            });
        },
        Message::TxPrepare(p) => {
            handler("2pc.prepare", "DistributedTxCoordinator::handle_prepare next to a pending transaction", &mut || {
                let c = spf_coord();
                if first_prepare(&c).is_none() { return; }
                // (the request the cluster builds from the message)
                let req = PrepareRequest { tx_id: p.tx_id, coordinator: p.coordinator.clone(), operations: p.operations.clone(), delta_embedding: p.delta_embedding.clone(), timeout_ms: p.timeout_ms };
                let _ = c.handle_prepare(&req);
            });
        },
        Message::TxPrepareResponse(r) => {
            handler("2pc.vote", "DistributedTxCoordinator::record_vote of the last missing shard", &mut || {
                let c = spf_coord();
                let Some(tx_id) = first_prepare(&c) else { return };
                let vote: PrepareVote = r.vote.clone().into();
                let _ = c.record_vote(tx_id, 1, vote);
            });
        },
        _ => {},
    }
    (ran, bad)
}

fn spf_base_vector() -> SparseVector { wire_sparse(4, &[1, 3], &[1.0, 2.0]) }

fn spf_default_ob(case: &Value) -> &'static str {
    if SPF_UNCHECKED.contains(&case["variant"].as_str().unwrap_or("")) { return O_SPFU; }
    let n = |k: &str| case[k].as_array().map(Vec::len);
    if case.get("dim").is_some() && n("pos") != n("vbits") { O_SPFL } else { O_SPF }
}

/// runs in the child: (obligation, verdict, the message was accepted)
fn judge_spmsg(case: &Value) -> (&'static str, Result<String, String>, bool) {
    let variant = case["variant"].as_str().unwrap_or("rv");
    let frame = case["frame"].as_u64().unwrap_or(0);
    let sv = if case.get("dim").is_some() {
        let pos: Vec<u32> = case["pos"].as_array().map(|a| a.iter().map(|p| p.as_u64().unwrap_or(0) as u32).collect()).unwrap_or_default();
        let vals: Vec<f32> = case["vbits"].as_array().map(|a| a.iter().map(|p| f32::from_bits(p.as_u64().unwrap_or(0) as u32)).collect()).unwrap_or_default();
        wire_sparse(case["dim"].as_u64().unwrap_or(0) as usize, &pos, &vals)
    } else { spf_base_vector() };
    let body = mutate(&spf_body(&sparse_message(variant, sv), frame), case);
    let mut ob = spf_default_ob(case);
    let codec = LengthDelimitedCodec::default();
    let dec = match guarded("decode_payload", || if frame == 0 { codec.decode_payload(&body) } else { codec.decode_payload_v2(&body) }) { Err(p) => return (ob, Err(p), false), Ok(d) => d };
    let msg = match dec { Err(e) => return (ob, Ok(format!("decode -> Err({e})")), false), Ok(m) => m };
    let (checked, vecs) = carried(&msg);
    if !vecs.is_empty() { ob = if !checked { O_SPFU } else if vecs.iter().any(|v| v.positions().len() != v.values().len()) { O_SPFL } else { O_SPF }; }
    let ev = EmbeddingValidator::new(MAX_EMB_DIM, 1e6);
    for v in &vecs { if let Err(p) = guarded("EmbeddingValidator::validate", || ev.validate(v, "field").is_ok()) { return (ob, Err(p), false); } }
    let validator = CompositeValidator::new(MessageValidationConfig::default());
    let verdict = match guarded("CompositeValidator::validate", || validator.validate(&msg, &"b".to_string())) { Err(p) => return (ob, Err(p), false), Ok(v) => v };
    if let Err(e) = verdict { return (ob, Ok(format!("decode -> {} -> rejected: {e}", msg.type_name())), false); }
    let mut bad: Vec<String> = vecs.iter().filter_map(|v| spf_invariant(v, checked).err()).collect();
    // a dimension beyond the declared limit is not handed to to_dense (the allocation would only kill the child)
    let consume = vecs.iter().all(|v| v.dimension() <= MAX_EMB_DIM);
    let ran = if consume { let (r, p) = spf_consume(&msg); bad.extend(p); r } else { vec![] };
    if bad.is_empty() { (ob, Ok(format!("decode -> {} -> accepted ({} vectors well-formed; consumers {:?} returned)", msg.type_name(), vecs.len(), ran)), true) }
    else { (ob, Err(format!("{} accepted by the validator: {}", msg.type_name(), bad.join("; "))), true) }
}

fn spf_positions(d: u64) -> Vec<Vec<u32>> {
    let c = |x: u64| u32::try_from(x).unwrap_or(u32::MAX);
    let (m, dm1, dd, dp1) = (u32::MAX, c(d.saturating_sub(1)), c(d), c(d.saturating_add(1)));
    let mut v = vec![
        vec![], vec![0], vec![dm1], vec![dd], vec![dp1], vec![m],
        vec![0, dm1], vec![0, dd], vec![dm1, dd], vec![0, m], vec![0, 1, dd], vec![0, 1, 2], vec![0, 1, 2, 3],
        vec![dd, 0], vec![dm1, 0], vec![1, 0], vec![2, 1], vec![3, 1, 2], vec![m, 0],
        vec![0, 0], vec![1, 1], vec![dm1, dm1], vec![0, 1, 1],
    ];
    v.sort();
    v.dedup();
    v
}

fn spf_values(class: &str, k: usize) -> Vec<u32> {
    (0..k).map(|j| match (class, j) {
        ("zero", 0) => 0.0f32, ("nan", 0) => f32::NAN, ("ninf", 0) => f32::NEG_INFINITY, ("big", 0) => 1e30, ("max", 0) => f32::MAX,
        ("inf", j) if j + 1 == k => f32::INFINITY,
        _ => (j + 1) as f32,
    }.to_bits()).collect()
}

fn spf_cases(tier: Tier) -> Vec<Value> {
    let mut out = vec![];
    let mut rot = 0u64;
    let mut push = |out: &mut Vec<Value>, variant: &str, d: u64, pos: &[u32], vbits: Vec<u32>| {
        let frames: Vec<u64> = if tier == Tier::Thorough { vec![0, 1, 2] } else { rot += 1; vec![rot % 3] };
        for f in frames { out.push(json!({"kind": "spmsg", "variant": variant, "frame": f, "dim": d, "pos": pos, "vbits": vbits})); }
    };
    for variant in SPF_CHECKED {
        for d in [0u64, 1, 4, 65536, 65537, 1 << 32, u64::MAX] {
            for pos in spf_positions(d) {
                let k = pos.len();
                let mut nvs: Vec<usize> = vec![k, k + 1, k + 3, 0];
                if k > 0 { nvs.push(k - 1); }
                nvs.sort_unstable();
                nvs.dedup();
                for nv in nvs {
                    push(&mut out, variant, d, &pos, spf_values("plain", nv));
                    if nv == k && k > 0 { for class in ["zero", "nan", "inf", "ninf", "big", "max"] { push(&mut out, variant, d, &pos, spf_values(class, nv)); } }
                }
            }
        }
    }
    for variant in SPF_UNCHECKED {
        for d in [4u64, u64::MAX] {
            for pos in spf_positions(d) {
                let k = pos.len();
                for nv in [k, k + 1] { push(&mut out, variant, d, &pos, spf_values("plain", nv)); }
                if k > 0 { push(&mut out, variant, d, &pos, spf_values("plain", k - 1)); push(&mut out, variant, d, &pos, spf_values("nan", k)); }
            }
        }
    }
    // every truncation and every single-bit flip of the v1 body of a valid message of each variant
    for variant in SPF_CHECKED.iter().chain(SPF_UNCHECKED.iter()) {
        let n = spf_body(&sparse_message(variant, spf_base_vector()), 0).len();
        for t in 0..n { out.push(json!({"kind": "spmsg", "variant": variant, "frame": 0, "trunc": t})); }
        for f in 0..n * 8 { out.push(json!({"kind": "spmsg", "variant": variant, "frame": 0, "flip": f})); }
    }
    out
}

// ---------------------------------------------------------------------------------------------------------
// C20.stream.reader: the streaming snapshot format
// ---------------------------------------------------------------------------------------------------------
fn st_small(i: usize) -> CompressedEntry {
    let mut fields = BTreeMap::new();
    fields.insert("v".to_string(), CompressedValue::Scalar(CompressedScalar::Int(i as i64 + 7)));
    CompressedEntry { key: format!("k{i}"), fields }
}

/// four shapes that together hold every CompressedValue variant (and every CompressedScalar)
fn st_full(i: usize) -> CompressedEntry {
    let mut fields = BTreeMap::new();
    let mut put = |k: &str, v: CompressedValue| { fields.insert(k.to_string(), v); };
    match i % 4 {
        0 => {
            put("i", CompressedValue::Scalar(CompressedScalar::Int(-(i as i64) - 1)));
            put("f", CompressedValue::Scalar(CompressedScalar::Float(0.5 + i as f64)));
            put("s", CompressedValue::Scalar(CompressedScalar::String(format!("text {i}"))));
            put("b", CompressedValue::Scalar(CompressedScalar::Bool(i % 8 == 0)));
            put("n", CompressedValue::Scalar(CompressedScalar::Null));
        },
        1 => {
            put("raw", CompressedValue::VectorRaw(vec![1.0, -0.0, i as f32]));
            put("sp", CompressedValue::VectorSparse { dimension: 8 + i, positions: compress_ids(&[1, 5]), values: vec![1.0, 2.0] });
        },
        2 => {
            put("tt", CompressedValue::VectorTT { cores: vec![TTCore { data: vec![0.5; 4], shape: (1, 2, 2) }, TTCore { data: vec![0.25; 4], shape: (2, 2, 1) }], original_dim: 4, shape: vec![2, 2], ranks: vec![1, 2, 1] });
            put("ids", CompressedValue::IdList(compress_ids(&[1, 2, 300 + i as u64])));
        },
        _ => {
            put("rle", CompressedValue::RleInt(RleEncoded { values: vec![7, -9], run_lengths: vec![3, 2] }));
            put("p", CompressedValue::Pointer(format!("node:{i}")));
            put("ps", CompressedValue::Pointers(vec!["a".to_string(), format!("b{i}")]));
        },
    }
    CompressedEntry { key: format!("key:{i}"), fields }
}

fn st_entries(base: u64) -> Vec<CompressedEntry> {
    match base {
        0 => vec![st_small(0), st_small(1)],
        1 => (0..4).map(st_full).collect(),
        2 => vec![],
        3 => vec![st_small(0)],
        n => (0..n as usize).map(st_full).collect(),
    }
}

fn st_config(base: u64) -> SnapConfig { if base % 2 == 1 { SnapConfig { delta_encoding: true, rle_encoding: true, ..SnapConfig::default() } } else { SnapConfig::default() } }

/// (stream bytes, offset of every entry's length prefix, offset of the trailer) through the real writer
fn st_write(entries: &[CompressedEntry], cfg: SnapConfig) -> Result<(Vec<u8>, Vec<usize>, usize), String> {
    let mut w = StreamingWriter::new(Cursor::new(Vec::new()), cfg).map_err(|e| format!("StreamingWriter::new = Err({e})"))?;
    let mut offs = vec![];
    for e in entries {
        offs.push(w.bytes_written() as usize);
        w.write_entry(e).map_err(|e| format!("write_entry = Err({e})"))?;
    }
    if w.entry_count() != entries.len() as u64 { return Err(format!("writer counts {} entries after {} writes", w.entry_count(), entries.len())); }
    let trailer = w.bytes_written() as usize;
    let bytes = w.finish().map_err(|e| format!("finish = Err({e})"))?.into_inner();
    Ok((bytes, offs, trailer))
}

fn ser(e: &CompressedEntry) -> Vec<u8> { bitcode::serialize(e).unwrap_or_default() }
fn same_entries(a: &[CompressedEntry], b: &[CompressedEntry]) -> bool { a.len() == b.len() && a.iter().zip(b).all(|(x, y)| ser(x) == ser(y)) }

fn u64_of(v: &Value) -> Option<u64> { v.as_u64().or_else(|| v.as_str().and_then(|s| s.parse().ok())) }

/// the input of a stream case
fn st_input(case: &Value) -> Result<(Vec<u8>, Vec<CompressedEntry>, bool), String> {
    let base = case["base"].as_u64().unwrap_or(0);
    let entries = st_entries(base);
    let (mut bytes, offs, trailer) = st_write(&entries, st_config(base))?;
    let mut untouched = true;
    if let Some(t) = case.get("trailer") {
        untouched = false;
        let mut magic = STREAMING_MAGIC;
        if let Some(m) = t["magic"].as_array() { for (i, b) in m.iter().take(4).enumerate() { magic[i] = b.as_u64().unwrap_or(0) as u8; } }
        let h = StreamingHeader {
            magic, version: t["version"].as_u64().map_or(STREAMING_VERSION, |v| v as u16), config: st_config(base),
            entry_count: u64_of(&t["count"]).unwrap_or(entries.len() as u64), data_start: u64_of(&t["start"]).unwrap_or(4),
        };
        let tb = bitcode::serialize(&h).map_err(|e| format!("harness: {e}"))?;
        bytes.truncate(trailer);
        bytes.extend_from_slice(&tb);
        bytes.extend_from_slice(&(tb.len() as u64).to_le_bytes());
    }
    if let Some(l) = u64_of(&case["tlen"]) { untouched = false; let n = bytes.len(); bytes[n - 8..].copy_from_slice(&l.to_le_bytes()); }
    if let Some(e) = case.get("elen") {
        untouched = false;
        let k = e["k"].as_u64().unwrap_or(0) as usize;
        let o = *offs.get(k).ok_or("harness: no such entry")?;
        bytes[o..o + 4].copy_from_slice(&(u64_of(&e["len"]).unwrap_or(0) as u32).to_le_bytes());
    }
    if case.get("trunc").is_some() || case.get("flip").is_some() { untouched = false; bytes = mutate(&bytes, case); }
    Ok((bytes, entries, untouched))
}

/// runs in the child: all readers of the format on one byte string
fn judge_stream(case: &Value) -> Result<String, String> {
    let (bytes, written, untouched) = st_input(case)?;
    // (a) open + iterate, stopping at the first error like read_streaming_to_snapshot does
    let it = guarded("StreamingReader::open / next", || -> Result<(u64, Vec<CompressedEntry>, Option<String>, bool), String> {
        let mut rd = StreamingReader::open(Cursor::new(&bytes[..])).map_err(|e| e.to_string())?;
        let count = rd.entry_count();
        let mut got = vec![];
        let mut err = None;
        while rd.has_next() {
            match rd.next() { Some(Ok(e)) => got.push(e), Some(Err(e)) => { err = Some(e.to_string()); break; }, None => { err = Some("has_next() but next() = None".to_string()); break; } }
        }
        let done = err.is_some() || (rd.next().is_none() && rd.entries_read() == count);
        Ok((count, got, err, done))
    })?;
    // (b) the whole stream as a snapshot
    let snap = guarded("read_streaming_to_snapshot", || read_streaming_to_snapshot(Cursor::new(&bytes[..])).map_err(|e| e.to_string()))?;
    // (c) merged behind a valid stream
    let other = st_entries(3);
    let (ob, _, _) = st_write(&other, SnapConfig::default())?;
    let merged = guarded("merge_streaming", || -> Result<(u64, Vec<u8>), String> {
        let mut out = Cursor::new(Vec::new());
        let n = merge_streaming(vec![Cursor::new(&ob[..]), Cursor::new(&bytes[..])], &mut out, SnapConfig::default()).map_err(|e| e.to_string())?;
        Ok((n, out.into_inner()))
    })?;
    let reread = |b: &[u8]| guarded("read_streaming_to_snapshot of a re-encoded stream", || read_streaming_to_snapshot(Cursor::new(b)).map_err(|e| e.to_string()));
    let mut obs = String::new();
    let full: Option<Vec<CompressedEntry>> = match &it {
        Err(e) => { obs.push_str(&format!("open -> Err({e})")); None },
        Ok((count, got, Some(e), _)) => { obs.push_str(&format!("open -> Ok(count {count}), {} entries then Err({e})", got.len())); None },
        Ok((count, got, None, done)) => {
            if got.len() as u64 != *count || !*done { return Err(format!("the iterator ended without an error after {} entries but the header declares {count}", got.len())); }
            obs.push_str(&format!("open -> Ok, {} entries", got.len()));
            Some(got.clone())
        },
    };
    match (&snap, &full) {
        (Ok(s), Some(got)) => {
            if s.header.validate().is_err() { return Err("read_streaming_to_snapshot returned a header that does not validate".to_string()); }
            if s.header.entry_count != s.entries.len() as u64 { return Err(format!("read_streaming_to_snapshot: header.entry_count {} but {} entries", s.header.entry_count, s.entries.len())); }
            if !same_entries(&s.entries, got) { return Err("read_streaming_to_snapshot and the iterator disagree about the entries".to_string()); }
            let mut out = Cursor::new(Vec::new());
            let n = guarded("convert_to_streaming", || convert_to_streaming(s, &mut out).map_err(|e| e.to_string()))?.map_err(|e| format!("re-encoding the decoded snapshot = Err({e})"))?;
            let back = reread(&out.into_inner())?.map_err(|e| format!("the re-encoded stream is refused: Err({e})"))?;
            if n != got.len() as u64 || !same_entries(&back.entries, got) || back.header.entry_count != n { return Err(format!("the decoded snapshot ({} entries) re-encodes to {n} entries / reads back as {}", got.len(), back.entries.len())); }
        },
        (Ok(s), None) => return Err(format!("read_streaming_to_snapshot = Ok({} entries) although iterating the same bytes fails ({obs})", s.entries.len())),
        (Err(e), Some(got)) => return Err(format!("read_streaming_to_snapshot = Err({e}) although iterating the same bytes yields all {} entries", got.len())),
        (Err(_), None) => {},
    }
    match (&merged, &full) {
        (Ok((n, outb)), Some(got)) => {
            let back = reread(outb)?.map_err(|e| format!("the merged stream is refused: Err({e})"))?;
            let mut want = other.clone();
            want.extend(got.iter().cloned());
            if *n != want.len() as u64 || !same_entries(&back.entries, &want) { return Err(format!("merge_streaming = Ok({n}) but the output holds {} entries, expected the {} of both inputs in order", back.entries.len(), want.len())); }
        },
        (Ok((n, _)), None) => return Err(format!("merge_streaming = Ok({n}) although iterating the second input fails ({obs})")),
        (Err(e), Some(_)) => return Err(format!("merge_streaming = Err({e}) although both inputs iterate without an error")),
        (Err(_), None) => {},
    }
    if untouched {
        match &full {
            Some(got) if same_entries(got, &written) => {},
            Some(got) => return Err(format!("the stream written from {} entries reads back as {} different entries", written.len(), got.len())),
            None => return Err(format!("a stream written by StreamingWriter ({} entries, {} bytes) is refused: {obs}", written.len(), bytes.len())),
        }
    }
    Ok(obs)
}

fn st_cases(tier: Tier) -> Vec<Value> {
    let mut out = vec![];
    let big = 1u64 << 62;
    // exact round trips
    for base in [0u64, 1, 2, 3, 40] { out.push(json!({"kind": "stream", "base": base})); }
    for base in [0u64, 1, 2, 3] {
        let entries = st_entries(base);
        let Ok((bytes, offs, trailer)) = st_write(&entries, st_config(base)) else { continue };
        let (n, len) = (entries.len() as u64, bytes.len() as u64);
        let step = if tier == Tier::Thorough || base != 1 { 1 } else { 3 };
        for t in (0..bytes.len()).step_by(step) { out.push(json!({"kind": "stream", "base": base, "trunc": t})); }
        for f in (0..bytes.len() * 8).step_by(step) { out.push(json!({"kind": "stream", "base": base, "flip": f})); }
        // the trailer re-serialised with other counts / offsets
        let mut counts = vec![0u64, 1, n.saturating_sub(1), n, n + 1, 1 << 31, big, (u64::MAX >> 1) + 1, u64::MAX];
        counts.sort_unstable();
        counts.dedup();
        let mut starts = vec![0u64, 1, 3, 4, 5, *offs.get(1).unwrap_or(&4) as u64, trailer as u64, len - 1, len, len + 1, 1 << 31, big, (u64::MAX >> 1) + 1, u64::MAX];
        starts.sort_unstable();
        starts.dedup();
        for c in &counts { for s in &starts { out.push(json!({"kind": "stream", "base": base, "trailer": {"count": c.to_string(), "start": s.to_string()}})); } }
        for magic in [[0u8, 69, 85, 83], [78, 0, 85, 83], [78, 69, 0, 83], [78, 69, 85, 0], [78, 69, 85, 77], [0, 0, 0, 0], [110, 69, 85, 83]] { out.push(json!({"kind": "stream", "base": base, "trailer": {"magic": magic}})); }
        for v in [0u64, 1, 2, 255, 256, 65535] { out.push(json!({"kind": "stream", "base": base, "trailer": {"version": v}})); }
        // the trailer length field
        let tl = len - 8 - trailer as u64;
        for l in [0u64, 1, tl - 1, tl + 1, len - 8, len - 7, len, 1 << 20, (1 << 20) + 1, 1 << 31, big, (u64::MAX >> 1) + 1, u64::MAX - 8, u64::MAX] { out.push(json!({"kind": "stream", "base": base, "tlen": l.to_string()})); }
        // entry length prefixes
        for (k, o) in offs.iter().enumerate() {
            let real = u32::from_le_bytes([bytes[*o], bytes[o + 1], bytes[o + 2], bytes[o + 3]]) as u64;
            let remaining = len - *o as u64 - 4;
            for l in [0u64, 1, real - 1, real + 1, remaining, remaining + 1, 100 << 20, (100 << 20) + 1, 1 << 31, u64::from(u32::MAX)] { out.push(json!({"kind": "stream", "base": base, "elen": {"k": k, "len": l}})); }
        }
    }
    out
}

/// runs in the child: one case of the batch kinds -> (obligation, verdict, nontrivial)
fn judge_batch_case(case: &Value) -> (&'static str, Result<String, String>, bool) {
    match case["kind"].as_str().unwrap_or("") {
        "spmsg" => judge_spmsg(case),
        "stream" => { let r = judge_stream(case); let nt = r.as_ref().is_ok_and(|s| s.starts_with("open -> Ok,")); (O_STR, r, nt) },
        _ => (O_STR, Err("unknown case".to_string()), false),
    }
}

fn batch_default_ob(case: &Value) -> &'static str { if case["kind"] == "spmsg" { spf_default_ob(case) } else { O_STR } }

fn child_batch(case: &Value) -> String {
    use std::io::Write;
    let single = [case.clone()];
    let batch: &[Value] = case["batch"].as_array().map_or(&single[..], |a| &a[..]);
    let out = std::io::stdout();
    for (i, c) in batch.iter().enumerate() {
        { let mut o = out.lock(); let _ = writeln!(o, "@S {i}"); let _ = o.flush(); }
        let (ob, r, nt) = no_panic(AssertUnwindSafe(|| judge_batch_case(c))).unwrap_or_else(|p| (batch_default_ob(c), Err(format!("panicked outside a guarded call: {p}")), false));
        let line = match r { Ok(d) => json!({"ok": true, "d": d, "ob": ob, "nt": nt}), Err(d) => json!({"ok": false, "d": d, "ob": ob, "nt": nt}) };
        { let mut o = out.lock(); let _ = writeln!(o, "@R {i} {line}"); let _ = o.flush(); }
    }
    "batch done".to_string()
}

struct BatchRes { ok: bool, detail: String, ob: &'static str, nontrivial: bool }

fn ob_static(s: &str, case: &Value) -> &'static str { [O_SPF, O_SPFL, O_SPFU, O_STR].into_iter().find(|o| *o == s).unwrap_or_else(|| batch_default_ob(case)) }

/// parent side: evaluate `cases` in child processes under the address-space cap; a child that dies fails the
/// case it was running and the rest continues in a new child
fn run_batch(cases: &[Value]) -> Vec<BatchRes> {
    let mut res: Vec<Option<BatchRes>> = cases.iter().map(|_| None).collect();
    let mut start = 0usize;
    let exe = match std::env::current_exe() { Ok(e) => e, Err(e) => return cases.iter().map(|c| BatchRes { ok: false, detail: format!("harness: current_exe: {e}"), ob: batch_default_ob(c), nontrivial: false }).collect() };
    while start < cases.len() {
        let out = std::process::Command::new("sh")
            .arg("-c").arg("ulimit -v 3145728; exec \"$0\" replay c20_garbage \"$1\" \"$2\"")
            .arg(&exe).arg(O_STR).arg(json!({"batch": &cases[start..]}).to_string())
            .env("C20_GARBAGE_CHILD", "1")
            .output();
        let o = match out { Ok(o) => o, Err(e) => { for (r, c) in res.iter_mut().zip(cases).skip(start) { *r = Some(BatchRes { ok: false, detail: format!("harness: cannot spawn child: {e}"), ob: batch_default_ob(c), nontrivial: false }); } break; } };
        let text = String::from_utf8_lossy(&o.stdout);
        let mut started: Option<usize> = None;
        let mut done = 0usize;
        for line in text.lines() {
            if let Some(i) = line.strip_prefix("@S ").and_then(|x| x.parse::<usize>().ok()) { started = Some(i); }
            else if let Some((i, j)) = line.strip_prefix("@R ").and_then(|rest| rest.split_once(' ')) {
                if let (Ok(i), Ok(v)) = (i.parse::<usize>(), serde_json::from_str::<Value>(j)) {
                    if start + i < res.len() {
                        res[start + i] = Some(BatchRes { ok: v["ok"].as_bool().unwrap_or(false), detail: v["d"].as_str().unwrap_or("").to_string(), ob: ob_static(v["ob"].as_str().unwrap_or(""), &cases[start + i]), nontrivial: v["nt"].as_bool().unwrap_or(false) });
                        done = i + 1;
                        started = None;
                    }
                }
            }
        }
        if done == cases.len() - start { break; }
        let err = String::from_utf8_lossy(&o.stderr);
        // the line that says why (allocation failure / panic message) if there is one, else the last line
        let last = err.lines().find(|l| l.contains("memory allocation of") || l.contains("capacity overflow") || l.starts_with("PANIC:"))
            .or_else(|| err.lines().rev().find(|l| !l.trim().is_empty())).unwrap_or("").chars().take(200).collect::<String>();
        let dead = start + started.unwrap_or(done);
        if dead >= res.len() { break; }
        res[dead] = Some(BatchRes { ok: false, detail: format!("decoder did not return: child status {:?}; {last}", o.status), ob: batch_default_ob(&cases[dead]), nontrivial: false });
        start = dead + 1;
    }
    res.into_iter().zip(cases).map(|(r, c)| r.unwrap_or_else(|| BatchRes { ok: false, detail: "harness: no result from the child".to_string(), ob: batch_default_ob(c), nontrivial: false })).collect()
}

fn run_batches(cases: &[Value]) -> Vec<BatchRes> {
    if cases.is_empty() { return vec![]; }
    let chunks: Vec<&[Value]> = cases.chunks(150).collect();
    let next = std::sync::atomic::AtomicUsize::new(0);
    let slots: Vec<std::sync::Mutex<Vec<BatchRes>>> = chunks.iter().map(|_| std::sync::Mutex::new(vec![])).collect();
    std::thread::scope(|sc| {
        for _ in 0..12usize.min(chunks.len()) {
            sc.spawn(|| loop {
                let i = next.fetch_add(1, std::sync::atomic::Ordering::SeqCst);
                if i >= chunks.len() { break; }
                let r = run_batch(chunks[i]);
                if let Ok(mut g) = slots[i].lock() { *g = r; }
            });
        }
    });
    slots.into_iter().flat_map(|m| m.into_inner().unwrap_or_default()).collect()
}

fn is_batch_kind(case: &Value) -> bool { case.get("batch").is_some() || matches!(case["kind"].as_str(), Some("spmsg" | "stream")) }

/// runs INSIDE the child process: call the decoder; returning at all is success
fn exec(case: &Value) -> String {
    match case["kind"].as_str().unwrap_or("") {
        "sparse" | "tt" | "rle" => {
            let v = value_of(case).expect("harness: case");
            if case["kind"] == "rle" { format!("decompress_ints -> {} values", decompress_ints(&v).len()) }
            else { format!("decompress_vector -> {:?}", decompress_vector(&v).map(|x| x.len()).map_err(|e| e.to_string())) }
        },
        "snapbytes" => {
            let b = mutate(&small_snapshot(), case);
            match bitcode::deserialize::<CompressedSnapshot>(&b) {
                Err(_) => "deserialize -> Err".to_string(),
                Ok(s) => {
                    let ok = s.header.validate().is_ok();
                    let mut n = 0usize;
                    if ok { for e in &s.entries { for v in e.fields.values() { n += decompress_vector(v).map(|x| x.len()).unwrap_or(0); n += decompress_ints(v).len(); } } }
                    format!("deserialize -> Ok (header valid: {ok}), {n} decoded elements")
                },
            }
        },
        "frame" => {
            let which = case["which"].as_u64().unwrap_or(0);
            let b = mutate(&frame_body(which), case);
            let codec = LengthDelimitedCodec::new(1 << 20);
            let r = if which % 4 < 2 { codec.decode_payload(&b).map(|_| ()) } else { codec.decode_payload_v2(&b).map(|_| ()) };
            format!("decode -> {}", if r.is_ok() { "Ok" } else { "Err" })
        },
        _ => "unknown case".to_string(),
    }
}

fn ob_of(case: &Value) -> &'static str {
    match case["kind"].as_str().unwrap_or("") { "snapbytes" => O_BYTES, "frame" => O_FRM, _ => O_VAL }
}

/// parent side: run one case in a child under an address-space cap
fn run_child(case: &Value) -> (bool, String) {
    let exe = std::env::current_exe().expect("harness: current_exe");
    let out = std::process::Command::new("sh")
        .arg("-c").arg("ulimit -v 3145728; exec \"$0\" replay c20_garbage \"$1\" \"$2\"")
        .arg(&exe).arg(ob_of(case)).arg(case.to_string())
        .env("C20_GARBAGE_CHILD", "1")
        .output();
    match out {
        Ok(o) => {
            let ok = o.status.code() == Some(0);
            let mut d = String::from_utf8_lossy(&o.stdout).trim().to_string();
            if !ok {
                let err = String::from_utf8_lossy(&o.stderr);
                let last = err.lines().rev().find(|l| !l.trim().is_empty()).unwrap_or("");
                d = format!("decoder did not return: child status {:?}; {}", o.status, last.chars().take(200).collect::<String>());
            }
            (ok, d)
        },
        Err(e) => (false, format!("harness: cannot spawn child: {e}")),
    }
}

fn cases(tier: Tier) -> Vec<Value> {
    let mut v = vec![];
    for d in 0..dims().len() { v.push(json!({"kind": "sparse", "dim": d})); }
    for t in 0..9 { v.push(json!({"kind": "tt", "v": t})); }
    for (nvals, runs) in [(2, vec![3u64, 2]), (2, vec![0, 0]), (1, vec![1 << 16]), (1, vec![2, 2]), (3, vec![1])] {
        v.push(json!({"kind": "rle", "nvals": nvals, "runs": runs}));
    }
    let sn = small_snapshot().len();
    let step = if tier == Tier::Thorough { 1 } else { 3 };
    for t in (0..sn).step_by(step) { v.push(json!({"kind": "snapbytes", "trunc": t})); }
    for f in (0..sn * 8).step_by(step * 2 + 1) { v.push(json!({"kind": "snapbytes", "flip": f})); }
    for which in 0..8u64 {
        let n = frame_body(which).len();
        for t in (0..n).step_by(step) { v.push(json!({"kind": "frame", "which": which, "trunc": t})); }
        for f in (0..n * 8).step_by(step * 4 + 1) { v.push(json!({"kind": "frame", "which": which, "flip": f})); }
    }
    v
}

pub fn run(tier: Tier, _seed: u64) -> Report {
    let mut rep = Report::new("c20_garbage",
        "corrupt snapshot values (sparse dimension up to usize::MAX, inconsistent tensor-train shapes, RLE run lengths up to u32::MAX), every truncation / sampled single-bit flips of a small compressed-snapshot encoding and of 8 frame bodies (v1/v2, compressed or not); each case runs in a child process under a 3 GiB address-space cap; \
         sparse_fields: messages {RequestVote, PreVote, AppendEntries.block_embedding, TxPrepare, QueryRequest.embedding | unchecked: TxPrepareResponse Yes.delta, DataMergeResponse.state_embedding} carrying a wire SparseVector with dimension {0,1,4,65536,65537,2^32,usize::MAX} x 23 position lists (sorted / unsorted / duplicated / = d / d+1 / u32::MAX) x value count {=,-1,+1,+3,0} x value class {plain, zero, NaN, +inf, -inf, 1e30, f32::MAX} x framing {v1, v2 plain, v2 LZ4} (quick: framing rotates), + every truncation and single-bit flip of the v1 body of a valid message of each of the 7 variants; decode -> validate -> consumers (SparseVector::{to_dense, magnitude, dot, cosine_similarity}, RaftNode::handle_message, DistributedTxCoordinator::{handle_prepare, record_vote}); \
         stream: StreamingWriter -> StreamingReader / read_streaming_to_snapshot / convert_to_streaming / merge_streaming on streams of 0 / 1 / 2 / 4 / 40 entries (every CompressedValue variant); every truncation and single-bit flip (quick: every 3rd of the 4-entry stream); trailer re-serialised with entry_count x data_start over {0, 1, n-1, n, n+1, entry / trailer offsets, len-1, len, len+1, 2^31, 2^62, 2^63, u64::MAX}, 7 corrupted magics, 6 versions; trailer length field and every entry length prefix replaced by {0, 1, real-1, real+1, remaining(+1), limit, limit+1, 2^31, 2^62.., MAX} (batches of 150 cases per child, same cap)",
        false, &["tensor_compress::format::decompress_vector", "tensor_compress::format::decompress_ints", "bitcode::deserialize::<CompressedSnapshot>", "LengthDelimitedCodec::decode_payload", "LengthDelimitedCodec::decode_payload_v2",
                 "CompositeValidator::validate", "EmbeddingValidator::validate", "SparseVector::{to_dense, magnitude, dot, cosine_similarity}", "RaftNode::handle_message", "DistributedTxCoordinator::handle_prepare", "DistributedTxCoordinator::record_vote",
                 "tensor_compress::streaming::StreamingWriter::{new, write_entry, finish}", "StreamingReader::{open, next}", "read_streaming_to_snapshot", "convert_to_streaming", "merge_streaming"]);
    for o in [O_VAL, O_BYTES, O_FRM] { rep.declare(o, "decoders"); }
    rep.declare(O_SPF, "LengthDelimitedCodec::{decode_payload, decode_payload_v2} -> CompositeValidator::validate / EmbeddingValidator::validate -> SparseVector consumers, RaftNode::handle_message, DistributedTxCoordinator::handle_prepare");
    rep.declare(O_SPFL, "LengthDelimitedCodec::{decode_payload, decode_payload_v2} -> EmbeddingValidator::validate (positions.len() != values.len()) -> SparseVector::dot / cosine_similarity, RaftNode::handle_message, DistributedTxCoordinator::handle_prepare");
    rep.declare(O_SPFU, "LengthDelimitedCodec::decode_payload -> CompositeValidator::validate (TxPrepareResponse, DataMergeResponse) -> SparseVector consumers, DistributedTxCoordinator::record_vote");
    rep.declare(O_STR, "tensor_compress::streaming::{StreamingReader::open, StreamingReader::next, read_streaming_to_snapshot, convert_to_streaming, merge_streaming}");
    let cs = cases(tier);
    // children in parallel (each is a separate process)
    let results: Vec<(Value, bool, String)> = std::thread::scope(|s| {
        let chunks: Vec<&[Value]> = cs.chunks((cs.len() + 11) / 12).collect();
        let hs: Vec<_> = chunks.into_iter().map(|ch| s.spawn(move || ch.iter().map(|c| { let (ok, d) = run_child(c); (c.clone(), ok, d) }).collect::<Vec<_>>())).collect();
        hs.into_iter().flat_map(|h| h.join().expect("harness: worker")).collect()
    });
    for (c, ok, d) in results {
        rep.eval(true);
        let cc = c.clone();
        rep.check(ob_of(&c), ok, &|| cc.clone(), &|| d.clone());
    }
    rep.sample(json!({"kind": "sparse", "dim": 5}));
    rep.sample(json!({"kind": "snapbytes", "trunc": 7}));
    // ---- batch kinds (malformed sparse vectors in messages, the streaming snapshot format)
    let mut bc = spf_cases(tier);
    bc.extend(st_cases(tier));
    let results = run_batches(&bc);
    for (c, r) in bc.iter().zip(results) {
        rep.eval(r.nontrivial);
        rep.check(r.ob, r.ok, &|| c.clone(), &|| r.detail.clone());
    }
    rep.sample(json!({"kind": "spmsg", "variant": "ae", "frame": 2, "dim": 4, "pos": [0, 4], "vbits": [1_065_353_216u32, 1_073_741_824u32]}));
    rep.sample(json!({"kind": "spmsg", "variant": "rv", "frame": 0, "flip": 77}));
    rep.sample(json!({"kind": "stream", "base": 0, "trailer": {"count": "4611686018427387904", "start": "4"}}));
    rep
}

pub fn replay(ob: &str, case: &Value) -> Result<String, String> {
    if is_batch_kind(case) {
        if std::env::var("C20_GARBAGE_CHILD").is_ok() { return Ok(child_batch(case)); }
        let r = run_batch(std::slice::from_ref(case)).pop().ok_or("harness: no result")?;
        // a failure recorded under another obligation of this set does not fail `ob`
        return if r.ok || r.ob != ob { Ok(format!("[{}] {}", r.ob, r.detail)) } else { Err(r.detail) };
    }
    if std::env::var("C20_GARBAGE_CHILD").is_ok() {
        // child: a panic / abort here IS the observation
        return Ok(exec(case));
    }
    let (ok, d) = run_child(case);
    if ok { Ok(d) } else { Err(d) }
}
