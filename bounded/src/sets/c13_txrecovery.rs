//! C13 (bounded): a 2PC coordinator restarted from its write-ahead log keeps every logged decision.
//!
//! C13.fold.classify -- `TxRecoveryState::from_entries` on EVERY sequence of length <= 5 (thorough 6)
//! over a 15-symbol alphabet of `TxWalEntry` for two transaction ids (begin, yes/no vote, phase changes
//! to Prepared/Committing/Aborting, TxComplete{Committed|Aborted}, LockRelease, AllLocksReleased),
//! compared with a specification fold written from the property text: a TxBegin opens a transaction
//! (Preparing, no votes); votes and phase changes of an open transaction are recorded; TxComplete
//! closes it; records of a transaction that is not open are ignored.  An open transaction whose last
//! logged phase is Prepared / Committing / Aborting is in exactly that list with its participants and
//! its votes in log order; everything else (closed, never begun, still Preparing) is in no list;
//! orphaned locks are the yes-handles of closed transactions that were neither released individually
//! nor covered by AllLocksReleased.
//!
//! C13.recover.no_reversal / C13.recover.votes_carried / C13.reopen.append_visible -- real WAL files
//! are produced by scripted runs of a real coordinator with a `TxWal` (begin, real yes votes through
//! `handle_prepare`, no votes, duplicate and late votes, commit, abort, a timeout sweep).  The file is
//! cut at EVERY byte offset; for every cut ("light" pass) a new coordinator is opened `with_wal` +
//! `recover_from_wal` on the prefix and the recovered state, the locks, `cleanup_timeouts`, the abort
//! queue, abort/complete_abort of commit-decided and commit/complete_commit of abort-completed
//! transactions are checked, then one more record is appended (a `begin`) and the file is re-read.
//! At every record boundary and at three torn offsets inside every record (thorough: at every byte of
//! the curated scripts) the "drive" pass additionally completes the recovered transactions (abort side
//! and commit side, each on a fresh copy of the prefix) and restarts two more times on the grown file.
//!
//! Recovered transactions get a fresh start time and the default 5 s timeout, so right after a restart
//! the timeout sweeper has nothing expired (no sleeping here); the sweeper guard for an *expired*
//! Committing transaction is exercised in c03_2pc (C03.abort.once).
use crate::fw::{self, Report, Tier};
use serde_json::{json, Value};
use std::collections::{BTreeMap, BTreeSet};
use std::path::Path;
use tensor_chain::{
    ConsensusConfig, ConsensusManager, DistributedTxConfig, DistributedTxCoordinator, PrepareRequest, PrepareVote,
    PrepareVoteKind, Transaction, TxOutcome, TxPhase, TxRecoveryState, TxWal, TxWalEntry,
};
use tensor_store::SparseVector;

const O_FOLD: &str = "C13.fold.classify";
const O_NOREV: &str = "C13.recover.no_reversal";
const O_VOTES: &str = "C13.recover.votes_carried";
const O_APPEND: &str = "C13.reopen.append_visible";

// ------------------------------------------------------------------------------------------------
// specification fold (shared by the fold obligation and by the recovery obligations)
// ------------------------------------------------------------------------------------------------

#[derive(Clone, PartialEq, Debug)]
struct Live { parts: Vec<usize>, votes: Vec<(usize, PrepareVoteKind)>, phase: TxPhase }

#[derive(Clone, PartialEq, Debug)]
enum S { Live(Live), Done(TxOutcome) }

#[derive(Default, Debug)]
struct Spec { tx: BTreeMap<u64, S>, orphaned: BTreeSet<(u64, u64)> }

fn spec_fold(entries: &[TxWalEntry]) -> Spec {
    let mut sp = Spec::default();
    let mut closed_handles: BTreeSet<(u64, u64)> = BTreeSet::new();
    let mut released: BTreeSet<(u64, u64)> = BTreeSet::new();
    let mut all_released: BTreeSet<u64> = BTreeSet::new();
    for e in entries {
        match e {
            TxWalEntry::TxBegin { tx_id, participants } => {
                sp.tx.insert(*tx_id, S::Live(Live { parts: participants.clone(), votes: vec![], phase: TxPhase::Preparing }));
            },
            TxWalEntry::PrepareVote { tx_id, shard, vote } => {
                if let Some(S::Live(l)) = sp.tx.get_mut(tx_id) { l.votes.push((*shard, *vote)); }
            },
            TxWalEntry::PhaseChange { tx_id, to, .. } => {
                if let Some(S::Live(l)) = sp.tx.get_mut(tx_id) { l.phase = *to; }
            },
            TxWalEntry::TxComplete { tx_id, outcome } => {
                if let Some(S::Live(l)) = sp.tx.get(tx_id) {
                    for (_, v) in &l.votes { if let PrepareVoteKind::Yes { lock_handle } = v { closed_handles.insert((*tx_id, *lock_handle)); } }
                }
                sp.tx.insert(*tx_id, S::Done(*outcome));
            },
            TxWalEntry::LockRelease { tx_id, lock_handle } => { released.insert((*tx_id, *lock_handle)); },
            TxWalEntry::AllLocksReleased { tx_id } => { all_released.insert(*tx_id); },
            _ => {},
        }
    }
    sp.orphaned = closed_handles.into_iter().filter(|(t, h)| !all_released.contains(t) && !released.contains(&(*t, *h))).collect();
    sp
}

/// 0 = prepared list, 1 = committing list, 2 = aborting list
fn class_of(phase: TxPhase) -> Option<u8> {
    match phase { TxPhase::Prepared => Some(0), TxPhase::Committing => Some(1), TxPhase::Aborting => Some(2), _ => None }
}

type Row = (u8, u64, Vec<usize>, Vec<(usize, bool, u64)>);

fn vk(v: &PrepareVoteKind) -> (bool, u64) {
    match v { PrepareVoteKind::Yes { lock_handle } => (true, *lock_handle), _ => (false, 0) }
}

fn spec_rows(sp: &Spec) -> Vec<Row> {
    let mut r: Vec<Row> = vec![];
    for (id, s) in &sp.tx {
        if let S::Live(l) = s {
            if let Some(c) = class_of(l.phase) {
                r.push((c, *id, l.parts.clone(), l.votes.iter().map(|(s, v)| { let (y, h) = vk(v); (*s, y, h) }).collect()));
            }
        }
    }
    r.sort();
    r
}

fn real_rows(st: &TxRecoveryState) -> Vec<Row> {
    let mut r: Vec<Row> = vec![];
    for (c, list) in [(0u8, &st.prepared_txs), (1, &st.committing_txs), (2, &st.aborting_txs)] {
        for t in list {
            r.push((c, t.tx_id, t.participants.clone(), t.votes.iter().map(|(s, v)| { let (y, h) = vk(v); (*s, y, h) }).collect()));
        }
    }
    r.sort();
    r
}

const T1: u64 = 1;
const T2: u64 = 2;
const H1: u64 = 11;
const H2: u64 = 21;
const NSYM: usize = 15;

fn sym(k: usize) -> TxWalEntry {
    use TxPhase::{Aborting, Committing, Prepared, Preparing};
    match k {
        0 => TxWalEntry::TxBegin { tx_id: T1, participants: vec![0, 1] },
        1 => TxWalEntry::PrepareVote { tx_id: T1, shard: 0, vote: PrepareVoteKind::Yes { lock_handle: H1 } },
        2 => TxWalEntry::PrepareVote { tx_id: T1, shard: 1, vote: PrepareVoteKind::No },
        3 => TxWalEntry::PhaseChange { tx_id: T1, from: Preparing, to: Prepared },
        4 => TxWalEntry::PhaseChange { tx_id: T1, from: Prepared, to: Committing },
        5 => TxWalEntry::PhaseChange { tx_id: T1, from: Preparing, to: Aborting },
        6 => TxWalEntry::TxComplete { tx_id: T1, outcome: TxOutcome::Committed },
        7 => TxWalEntry::TxBegin { tx_id: T2, participants: vec![0] },
        8 => TxWalEntry::PrepareVote { tx_id: T2, shard: 0, vote: PrepareVoteKind::Yes { lock_handle: H2 } },
        9 => TxWalEntry::PhaseChange { tx_id: T2, from: Preparing, to: Prepared },
        10 => TxWalEntry::PhaseChange { tx_id: T2, from: Prepared, to: Committing },
        11 => TxWalEntry::PhaseChange { tx_id: T2, from: Prepared, to: Aborting },
        12 => TxWalEntry::TxComplete { tx_id: T2, outcome: TxOutcome::Aborted },
        13 => TxWalEntry::LockRelease { tx_id: T1, lock_handle: H1 },
        _ => TxWalEntry::AllLocksReleased { tx_id: T1 },
    }
}

/// the fold obligation on one entry sequence; Ok(nontrivial) or Err(detail)
fn fold_check(entries: &[TxWalEntry]) -> Result<bool, String> {
    let st = TxRecoveryState::from_entries(entries);
    let sp = spec_fold(entries);
    let want = spec_rows(&sp);
    let got = real_rows(&st);
    let orph: BTreeSet<(u64, u64)> = st.orphaned_locks.iter().map(|o| (o.tx_id, o.lock_handle)).collect();
    // direct reading of the first sentence: a TxComplete that is not followed by a new TxBegin of the
    // same id keeps the transaction out of every list
    let mut direct_ok = true;
    for id in [T1, T2] {
        let last_begin = entries.iter().rposition(|e| matches!(e, TxWalEntry::TxBegin { tx_id, .. } if *tx_id == id));
        let last_done = entries.iter().rposition(|e| matches!(e, TxWalEntry::TxComplete { tx_id, .. } if *tx_id == id));
        let listed = got.iter().any(|r| r.1 == id);
        if listed && (last_begin.is_none() || last_done.is_some_and(|d| Some(d) > last_begin)) { direct_ok = false; }
    }
    if want == got && orph == sp.orphaned && direct_ok {
        Ok(!want.is_empty() || sp.tx.values().any(|s| matches!(s, S::Done(_))))
    } else {
        Err(format!("from_entries gives (list,tx,participants,votes) {got:?} orphaned {orph:?}; the property demands {want:?} orphaned {:?}", sp.orphaned))
    }
}

fn run_fold(rep: &mut Report, maxlen: usize) {
    let syms: Vec<TxWalEntry> = (0..NSYM).map(sym).collect();
    fn rec(rep: &mut Report, syms: &[TxWalEntry], idx: &mut Vec<usize>, cur: &mut Vec<TxWalEntry>, maxlen: usize) {
        let r = fold_check(cur);
        rep.eval(matches!(r, Ok(true)));
        rep.check(O_FOLD, r.is_ok(), &|| json!({"dom": "fold", "seq": idx}), &|| r.clone().err().unwrap_or_default());
        if cur.len() == maxlen { return; }
        for k in 0..syms.len() {
            idx.push(k);
            cur.push(syms[k].clone());
            rec(rep, syms, idx, cur, maxlen);
            cur.pop();
            idx.pop();
        }
    }
    rec(rep, &syms, &mut vec![], &mut vec![], maxlen);
}

// ------------------------------------------------------------------------------------------------
// scripted coordinator runs -> WAL file -> every byte prefix
// ------------------------------------------------------------------------------------------------

#[derive(Clone, Copy, PartialEq, Eq, Debug)]
enum Op { Begin(usize), Vote(usize, usize, bool), Commit(usize), Abort(usize), Sweep }

impl Op {
    fn enc(&self) -> String {
        match self {
            Op::Begin(i) => format!("b{i}"),
            Op::Vote(i, s, y) => format!("v{i}.{s}.{}", if *y { "Y" } else { "N" }),
            Op::Commit(i) => format!("c{i}"),
            Op::Abort(i) => format!("a{i}"),
            Op::Sweep => "t".to_string(),
        }
    }
    fn dec(s: &str) -> Option<Op> {
        if s == "t" { return Some(Op::Sweep); }
        let rest = s.get(1..)?;
        match s.as_bytes().first()? {
            b'b' => rest.parse().ok().map(Op::Begin),
            b'c' => rest.parse().ok().map(Op::Commit),
            b'a' => rest.parse().ok().map(Op::Abort),
            b'v' => {
                let p: Vec<&str> = rest.split('.').collect();
                if p.len() != 3 { return None; }
                Some(Op::Vote(p[0].parse().ok()?, p[1].parse().ok()?, p[2] == "Y"))
            },
            _ => None,
        }
    }
}

fn script(s: &str) -> Vec<Op> { s.split_whitespace().map(|w| Op::dec(w).expect("script literal")).collect() }

fn new_coord() -> DistributedTxCoordinator {
    let cfg = DistributedTxConfig { prepare_timeout_ms: 0, ..DistributedTxConfig::default() };
    DistributedTxCoordinator::new(ConsensusManager::new(ConsensusConfig::default()), cfg)
}

const PARTS: [usize; 2] = [0, 1];

struct ScriptRun {
    ids: Vec<u64>,
    /// votes the coordinator accepted before the crash, per tx: shard -> (yes, lock handle)
    accepted: Vec<BTreeMap<usize, (bool, u64)>>,
    bytes: Vec<u8>,
    /// end offsets of the whole records
    bounds: Vec<usize>,
    entries: Vec<TxWalEntry>,
}

fn record_bounds(bytes: &[u8]) -> Vec<usize> {
    let mut out = vec![];
    let mut off = 0usize;
    while off + 8 <= bytes.len() {
        let len = u32::from_le_bytes([bytes[off], bytes[off + 1], bytes[off + 2], bytes[off + 3]]) as usize;
        if off + 8 + len > bytes.len() { break; }
        off += 8 + len;
        out.push(off);
    }
    out
}

fn vote_kind(v: &PrepareVote) -> (bool, u64) {
    match v { PrepareVote::Yes { lock_handle, .. } => (true, *lock_handle), _ => (false, 0) }
}

fn run_script(dir: &Path, ops: &[Op]) -> Result<ScriptRun, String> {
    let path = dir.join("script.wal");
    let _ = std::fs::remove_file(&path);
    let wal = TxWal::open(&path).map_err(|e| format!("open: {e}"))?;
    let coord = new_coord().with_wal(wal);
    let mut ids: Vec<u64> = vec![];
    let mut accepted: Vec<BTreeMap<usize, (bool, u64)>> = vec![];
    let mut cache: BTreeMap<(usize, usize), PrepareVote> = BTreeMap::new();
    for op in ops {
        match *op {
            Op::Begin(i) => {
                if i != ids.len() { return Err(format!("script: b{i} out of order")); }
                let tx = coord.begin(&"coord".to_string(), &PARTS).map_err(|e| format!("begin: {e}"))?;
                ids.push(tx.tx_id);
                accepted.push(BTreeMap::new());
            },
            Op::Vote(i, s, yes) => {
                if i >= ids.len() { return Err(format!("script: vote for tx {i} before its begin")); }
                let msg = if yes {
                    if let Some(v) = cache.get(&(i, s)) { v.clone() } else {
                        let mut emb = vec![0.0f32; 8];
                        emb[(i * 2 + s) % 8] = 1.0;
                        let v = coord.handle_prepare(&PrepareRequest {
                            tx_id: ids[i], coordinator: "coord".to_string(),
                            operations: vec![Transaction::Put { key: format!("t{i}s{s}"), data: vec![1] }],
                            delta_embedding: SparseVector::from_dense(&emb), timeout_ms: 0 });
                        cache.insert((i, s), v.clone());
                        v
                    }
                } else { PrepareVote::No { reason: "no".to_string() } };
                if coord.record_vote(ids[i], s, msg.clone()).is_ok() { accepted[i].insert(s, vote_kind(&msg)); }
            },
            Op::Commit(i) => { if i < ids.len() { let _ = coord.commit(ids[i]); } },
            Op::Abort(i) => { if i < ids.len() { let _ = coord.abort(ids[i], "script"); } },
            Op::Sweep => {
                // timeout 0: expired from the first clock tick after begin (spin, no sleep)
                for id in &ids { while let Some(t) = coord.get(*id) { if t.is_timed_out() { break; } std::hint::spin_loop(); } }
                let _ = coord.cleanup_timeouts();
                let _ = coord.take_pending_aborts();
            },
        }
    }
    drop(coord);
    let bytes = std::fs::read(&path).map_err(|e| format!("read: {e}"))?;
    let bounds = record_bounds(&bytes);
    let entries = TxWal::open(&path).and_then(|w| w.replay()).map_err(|e| format!("replay of the uncut log: {e}"))?;
    if bounds.last().copied().unwrap_or(0) != bytes.len() || entries.len() != bounds.len() {
        return Err(format!("uncut log: {} bytes, whole records end at {:?}, replay gives {} entries", bytes.len(), bounds, entries.len()));
    }
    Ok(ScriptRun { ids, accepted, bytes, bounds, entries })
}

fn fresh_recover(path: &Path) -> Result<DistributedTxCoordinator, String> {
    let wal = TxWal::open(path).map_err(|e| format!("TxWal::open failed: {e}"))?;
    let c = new_coord().with_wal(wal);
    c.recover_from_wal().map_err(|e| format!("recover_from_wal failed: {e}"))?;
    Ok(c)
}

#[derive(Clone, Copy, PartialEq, Eq, Debug)]
enum Cls { Forgotten, Prepared, Committing, Aborting, DoneCommitted, DoneAborted }

fn cls(sp: &Spec, id: u64) -> Cls {
    match sp.tx.get(&id) {
        Some(S::Done(TxOutcome::Committed)) => Cls::DoneCommitted,
        Some(S::Done(_)) => Cls::DoneAborted,
        Some(S::Live(l)) => match class_of(l.phase) { Some(0) => Cls::Prepared, Some(1) => Cls::Committing, Some(2) => Cls::Aborting, _ => Cls::Forgotten },
        None => Cls::Forgotten,
    }
}

#[derive(Default)]
struct CutResult { norev: Vec<String>, votes: Vec<String>, append: Vec<String>, votes_cases: u32, nontrivial: bool }

/// never-reversed checks that must hold on ANY coordinator recovered from a log in which the
/// transactions have the classes `classes` (no WAL writes unless something is wrong)
fn final_checks(c: &DistributedTxCoordinator, ids: &[u64], classes: &[Cls], tag: &str, out: &mut Vec<String>) {
    let swept = c.cleanup_timeouts();
    let queue = c.take_pending_aborts();
    for (i, id) in ids.iter().enumerate() {
        match classes[i] {
            Cls::DoneCommitted | Cls::Committing => {
                if swept.contains(id) { out.push(format!("{tag}: tx{i} decided commit but cleanup_timeouts swept it")); }
                if queue.iter().any(|q| q.0 == *id) { out.push(format!("{tag}: tx{i} decided commit but is in the abort queue")); }
                if c.complete_abort(*id).is_ok() { out.push(format!("{tag}: tx{i} decided commit but complete_abort succeeded")); }
                if c.abort(*id, "after restart").is_ok() { out.push(format!("{tag}: tx{i} decided commit but abort succeeded")); }
                let ph = c.get(*id).map(|t| t.phase);
                let want = if classes[i] == Cls::Committing { Some(TxPhase::Committing) } else { None };
                if ph != want { out.push(format!("{tag}: tx{i} ({:?}) is {ph:?} after the refused aborts, expected {want:?}", classes[i])); }
            },
            Cls::DoneAborted => {
                if c.commit(*id).is_ok() { out.push(format!("{tag}: tx{i} completed as aborted but commit succeeded")); }
                if c.complete_commit(*id).is_ok() { out.push(format!("{tag}: tx{i} completed as aborted but complete_commit succeeded")); }
                if c.get(*id).is_some() { out.push(format!("{tag}: tx{i} completed as aborted but is pending again")); }
            },
            _ => {},
        }
    }
}

fn check_cut(dir: &Path, run: &ScriptRun, cut: usize, drive: bool) -> CutResult {
    let mut res = CutResult::default();
    let k = run.bounds.iter().filter(|b| **b <= cut).count();
    let surv = &run.entries[..k];
    let sp = spec_fold(surv);
    let classes: Vec<Cls> = run.ids.iter().map(|id| cls(&sp, *id)).collect();
    res.nontrivial = classes.iter().any(|c| *c != Cls::Forgotten);
    let path = dir.join("cut.wal");
    let write_prefix = || { let _ = std::fs::remove_file(&path); std::fs::write(&path, &run.bytes[..cut]).expect("write prefix"); };

    // ---- light pass: restart, look, refused reversals, then append + re-read --------------------
    write_prefix();
    match fresh_recover(&path) {
        Err(e) => { res.norev.push(format!("restart on the {cut}-byte prefix: {e}")); res.append.push(format!("restart on the {cut}-byte prefix: {e}")); },
        Ok(c) => {
            for (i, id) in run.ids.iter().enumerate() {
                let got = c.get(*id);
                match (&classes[i], sp.tx.get(id)) {
                    (Cls::Prepared | Cls::Committing | Cls::Aborting, Some(S::Live(l))) => match &got {
                        Some(t) if t.phase == l.phase && t.participants == l.parts => {
                            res.votes_cases += 1;
                            let rv: BTreeMap<usize, (bool, u64)> = t.votes.iter().map(|(s, v)| (*s, vote_kind(v))).collect();
                            if rv != run.accepted[i] {
                                res.votes.push(format!("tx{i} recovered in {:?} with votes (shard -> yes,handle) {rv:?}; before the crash the coordinator held {:?}", t.phase, run.accepted[i]));
                            }
                        },
                        other => res.norev.push(format!("tx{i}: log says {:?} with participants {:?}, recovered {:?}", l.phase, l.parts, other.as_ref().map(|t| (t.phase, t.participants.clone())))),
                    },
                    (cl, _) => if let Some(t) = &got { res.norev.push(format!("tx{i}: log class {cl:?} but it is pending again in phase {:?}", t.phase)); },
                }
            }
            let lc = c.lock_manager().active_lock_count();
            if lc != 0 { res.norev.push(format!("{lc} locks held right after the restart")); }
            final_checks(&c, &run.ids, &classes, "restart 1", &mut res.norev);
            // append one more record through the reopened log and read everything back
            match c.begin(&"coord".to_string(), &PARTS) {
                Err(e) => res.append.push(format!("append after reopen failed: {e}")),
                Ok(tx) => {
                    drop(c);
                    let mut want: Vec<TxWalEntry> = surv.to_vec();
                    want.push(TxWalEntry::TxBegin { tx_id: tx.tx_id, participants: PARTS.to_vec() });
                    match TxWal::open(&path) {
                        Err(e) => res.append.push(format!("second reopen failed: {e}")),
                        Ok(w) => {
                            match w.replay() {
                                Ok(got) if got == want => {},
                                Ok(got) => res.append.push(format!("after cut at {cut} (keeps {k} whole records) + reopen + append, replay gives {} entries {got:?}, expected {want:?}", got.len())),
                                Err(e) => res.append.push(format!("after cut at {cut} + reopen + append, replay fails: {e}")),
                            }
                            if w.entry_count() != k as u64 + 1 { res.append.push(format!("entry_count {} after reopen, expected {}", w.entry_count(), k + 1)); }
                            let fb = std::fs::read(&path).unwrap_or_default();
                            let b2 = record_bounds(&fb);
                            let keep = if k == 0 { 0 } else { run.bounds[k - 1] };
                            if b2.len() != k + 1 || b2.last().copied() != Some(fb.len()) || fb.get(..keep) != Some(&run.bytes[..keep]) {
                                res.append.push(format!("file after cut at {cut} + append: {} bytes, whole records end at {b2:?}; expected the first {keep} bytes unchanged + exactly one new record", fb.len()));
                            }
                        },
                    }
                },
            }
        },
    }
    if !drive { return res; }

    // ---- drive pass, abort side ---------------------------------------------------------------
    write_prefix();
    let mut after_a = classes.clone();
    match fresh_recover(&path) {
        Err(e) => res.norev.push(format!("drive/abort restart: {e}")),
        Ok(c) => {
            for (i, id) in run.ids.iter().enumerate() {
                let r = c.abort(*id, "operator").is_ok();
                match classes[i] {
                    Cls::DoneCommitted | Cls::Committing => if r { res.norev.push(format!("drive/abort: tx{i} decided commit but abort succeeded")); },
                    Cls::Prepared | Cls::Aborting => {
                        if r { after_a[i] = Cls::DoneAborted; } else { res.norev.push(format!("drive/abort: tx{i} recovered as {:?} could not be aborted to completion", classes[i])); }
                    },
                    _ => {},
                }
            }
            if c.lock_manager().active_lock_count() != 0 { res.norev.push("drive/abort: locks left".to_string()); }
            drop(c);
            for n in 2..=3 {
                match fresh_recover(&path) {
                    Err(e) => { res.norev.push(format!("drive/abort restart {n}: {e}")); break; },
                    Ok(c2) => final_checks(&c2, &run.ids, &after_a, &format!("drive/abort restart {n}"), &mut res.norev),
                }
            }
        },
    }
    // ---- drive pass, commit side --------------------------------------------------------------
    write_prefix();
    let mut after_b = classes.clone();
    match fresh_recover(&path) {
        Err(e) => res.norev.push(format!("drive/commit restart: {e}")),
        Ok(c) => {
            for (i, id) in run.ids.iter().enumerate() {
                match classes[i] {
                    Cls::DoneAborted => {
                        if c.commit(*id).is_ok() || c.complete_commit(*id).is_ok() { res.norev.push(format!("drive/commit: tx{i} completed as aborted was committed")); }
                    },
                    Cls::Aborting => {
                        if c.commit(*id).is_ok() || c.complete_commit(*id).is_ok() { res.norev.push(format!("drive/commit: tx{i} recovered as Aborting was committed")); }
                        if c.complete_abort(*id).is_err() || c.get(*id).is_some() { res.norev.push(format!("drive/commit: tx{i} recovered as Aborting cannot be finished with complete_abort")); }
                    },
                    Cls::Committing => {
                        if c.complete_commit(*id).is_err() || c.get(*id).is_some() { res.norev.push(format!("drive/commit: tx{i} recovered as Committing cannot be finished with complete_commit")); }
                    },
                    Cls::Prepared => {
                        if c.commit(*id).is_ok() && c.get(*id).is_none() { after_b[i] = Cls::DoneCommitted; }
                        else { res.norev.push(format!("drive/commit: tx{i} recovered as Prepared cannot be driven to commit")); }
                    },
                    Cls::Forgotten => {
                        if c.commit(*id).is_ok() || c.complete_commit(*id).is_ok() { res.norev.push(format!("drive/commit: tx{i} was still collecting votes (forgotten) but was committed")); }
                    },
                    Cls::DoneCommitted => {},
                }
            }
            if c.lock_manager().active_lock_count() != 0 { res.norev.push("drive/commit: locks left".to_string()); }
            drop(c);
            for n in 2..=3 {
                match fresh_recover(&path) {
                    Err(e) => { res.norev.push(format!("drive/commit restart {n}: {e}")); break; },
                    Ok(c2) => final_checks(&c2, &run.ids, &after_b, &format!("drive/commit restart {n}"), &mut res.norev),
                }
            }
        },
    }
    res
}

/// (record index, offset inside that record) of an absolute cut; robust against the per-run ids
fn locate(bounds: &[usize], cut: usize) -> (usize, usize) {
    let k = bounds.iter().filter(|b| **b <= cut).count();
    (k, cut - if k == 0 { 0 } else { bounds[k - 1] })
}

fn wal_case(ops: &[Op], bounds: &[usize], cut: usize, drive: bool) -> Value {
    let (rec, within) = locate(bounds, cut);
    json!({"dom": "wal", "script": ops.iter().map(Op::enc).collect::<Vec<_>>(), "cut": cut, "rec": rec, "within": within, "drive": drive})
}

fn run_wal_script(rep: &mut Report, dir: &Path, ops: &[Op], drive_every_byte: bool) {
    let run = match run_script(dir, ops) {
        Ok(r) => r,
        Err(e) => {
            // the uncut log itself is unreadable / the script could not run: count it against no_reversal
            rep.eval(false);
            rep.check(O_NOREV, false, &|| json!({"dom": "wal", "script": ops.iter().map(Op::enc).collect::<Vec<_>>(), "cut": -1}), &|| e.clone());
            return;
        },
    };
    // torn offsets with the drive pass: boundaries, +1, middle, -1 of every record
    let mut drive_at: BTreeSet<usize> = BTreeSet::new();
    let mut prev = 0usize;
    drive_at.insert(0);
    for b in &run.bounds {
        for c in [prev + 1, (prev + *b) / 2, *b - 1, *b] { drive_at.insert(c); }
        prev = *b;
    }
    for cut in 0..=run.bytes.len() {
        let drive = drive_every_byte || drive_at.contains(&cut);
        let r = check_cut(dir, &run, cut, drive);
        rep.eval(r.nontrivial);
        let case = || wal_case(ops, &run.bounds, cut, drive);
        rep.check(O_NOREV, r.norev.is_empty(), &case, &|| r.norev.join("; "));
        rep.check(O_APPEND, r.append.is_empty(), &case, &|| r.append.join("; "));
        if r.votes_cases > 0 { rep.check(O_VOTES, r.votes.is_empty(), &case, &|| r.votes.join("; ")); }
    }
}

const CURATED: [&str; 12] = [
    "b0 v0.0.Y v0.1.Y c0",
    "b0 v0.0.Y v0.1.Y a0",
    "b0 v0.0.Y v0.1.N a0",
    "b0 v0.0.Y a0",
    "b0 b1 v0.0.Y v1.0.Y v0.1.Y v1.1.Y c0 a1",
    "b0 v0.0.Y v0.1.Y c0 b1 v1.0.Y v1.1.N",
    // a second, different vote of a shard that already voted (rejected as duplicate, but logged)
    "b0 v0.0.Y v0.0.N v0.1.Y c0",
    // a late vote after Prepared (rejected as wrong phase, but logged)
    "b0 v0.0.Y v0.1.Y v0.1.N",
    // identical re-deliveries of a yes vote, then commit, late abort, late commit
    "b0 v0.0.Y v0.0.Y v0.1.Y v0.0.Y c0 a0 c0",
    // a prepared transaction swept by the timeout (the sweep writes no WAL record)
    "b0 v0.0.Y v0.1.Y t",
    "b0 v0.0.Y v0.1.Y",
    "b0 v0.0.Y",
];
const N_QUICK: usize = 10;

pub fn run(tier: Tier, _seed: u64) -> Report {
    let thorough = tier == Tier::Thorough;
    let maxlen = if thorough { 6 } else { 5 };
    let nscripts = if thorough { CURATED.len() } else { N_QUICK };
    let dom = format!(
        "fold: all TxWalEntry sequences of length <= {maxlen} over 15 symbols for 2 tx ids; WAL: {} scripted coordinator runs{} with a real TxWal, every byte prefix of every file (restart + refused reversals + append/re-read at every byte; completion on abort side and commit side + 2 more restarts at {})",
        nscripts, if thorough { " + all 156 one-transaction scripts b0 + <=3 ops over {v0.0.Y,v0.1.Y,v0.1.N,c0,a0}" } else { "" },
        if thorough { "every byte (curated) / record boundaries and 3 torn offsets per record (enumerated)" } else { "record boundaries and 3 torn offsets per record" });
    let mut rep = Report::new("c13_txrecovery", &dom, true,
        &["TxRecoveryState::from_entries", "TxRecoveryState::from_wal", "TxWal::open", "TxWal::append", "TxWal::replay",
          "DistributedTxCoordinator::with_wal", "recover_from_wal", "cleanup_timeouts", "take_pending_aborts", "abort", "commit",
          "complete_commit", "complete_abort", "begin", "record_vote"]);
    rep.declare(O_FOLD, "TxRecoveryState::from_entries");
    rep.declare(O_NOREV, "DistributedTxCoordinator::{with_wal, recover_from_wal} then cleanup_timeouts/abort/commit/complete_*");
    rep.declare(O_VOTES, "DistributedTxCoordinator::{record_vote, recover_from_wal}");
    rep.declare(O_APPEND, "TxWal::{open, append, replay}");
    run_fold(&mut rep, maxlen);
    rep.sample(json!({"dom": "fold", "seq": [0, 1, 3, 4, 6]}));
    let dir = fw::tmpdir("c13_txrecovery");
    for s in CURATED.iter().take(nscripts) { run_wal_script(&mut rep, &dir, &script(s), thorough); }
    if thorough {
        let alpha = [Op::Vote(0, 0, true), Op::Vote(0, 1, true), Op::Vote(0, 1, false), Op::Commit(0), Op::Abort(0)];
        for len in 0..=3usize {
            for idx in 0..5u32.pow(len as u32) {
                let mut ops = vec![Op::Begin(0)];
                let mut x = idx;
                for _ in 0..len { ops.push(alpha[(x % 5) as usize]); x /= 5; }
                run_wal_script(&mut rep, &dir, &ops, false);
            }
        }
    }
    rep.sample(json!({"dom": "wal", "script": ["b0", "v0.0.Y", "v0.1.Y", "c0"], "rec": 5, "within": 3, "drive": true}));
    let _ = std::fs::remove_dir_all(&dir);
    rep
}

pub fn replay(ob: &str, case: &Value) -> Result<String, String> {
    if case["dom"] == "fold" {
        let entries: Vec<TxWalEntry> = case["seq"].as_array().ok_or("seq")?.iter().map(|v| sym(v.as_u64().unwrap_or(0) as usize)).collect();
        return fold_check(&entries).map(|_| format!("from_entries agrees with the specification fold on {} entries", entries.len()));
    }
    let ops: Vec<Op> = case["script"].as_array().ok_or("script")?.iter()
        .map(|v| v.as_str().and_then(Op::dec).ok_or_else(|| format!("bad op {v}"))).collect::<Result<_, _>>()?;
    let dir = fw::tmpdir("c13_txrecovery_replay");
    let out = (|| {
        let run = run_script(&dir, &ops)?;
        // ids and lock handles differ from run to run, so the cut is addressed as (record, offset in record)
        let cut = match (case["rec"].as_u64(), case["within"].as_u64()) {
            (Some(r), Some(w)) => {
                let r = (r as usize).min(run.bounds.len());
                let start = if r == 0 { 0 } else { run.bounds[r - 1] };
                let end = run.bounds.get(r).copied().unwrap_or(run.bytes.len());
                if end > start { start + (w as usize).min(end - start - 1) } else { start }
            },
            _ => (case["cut"].as_u64().unwrap_or(0) as usize).min(run.bytes.len()),
        };
        let r = check_cut(&dir, &run, cut, case["drive"].as_bool().unwrap_or(true));
        let fails = match ob { O_NOREV => &r.norev, O_VOTES => &r.votes, O_APPEND => &r.append, _ => return Err(format!("unknown obligation {ob}")) };
        if fails.is_empty() { Ok(format!("{ob} holds for the cut at byte {cut} of {} ({} whole records)", run.bytes.len(), locate(&run.bounds, cut).0)) }
        else { Err(format!("cut at byte {cut} of {}: {}", run.bytes.len(), fails.join("; "))) }
    })();
    let _ = std::fs::remove_dir_all(&dir);
    out
}
