//! C07 (bounded): snapshots reproduce the store exactly and replace files atomically.
//!
//! `view(S)` (contract side, `view()`): every key of `scan("")` with every field of `get(key)`
//! (floats by bit pattern), `len`, entity-index membership and embedding-slab vector per key,
//! every relational table (schema + rows by row id), graph-tensor edges per node key (with edge
//! data), blob-log chunks, and - when the store was populated through the engines - engine-level
//! reads (`RelationalEngine::select`, `GraphEngine::get_node/get_edge`, `VectorEngine::get_embedding`).
//! The cache ring is excluded.
//!
//! Vector rule (property text): a vector shorter than the documented compression threshold
//! (`TT_MIN_DIMENSION = 256`, tensor_store/src/embedding_slab.rs) must read back bit-identical; a
//! longer one must be within the documented reconstruction tolerance ("<1% error",
//! tensor_compress::TensorMode / tensor_store::hnsw docs), taken as relative L2 error <= 0.01.
//! In the quantising format (`save_snapshot_compressed`, default `CompressionConfig`) a sparse
//! vector may come back dense (payload only is compared); everything else must be exact.
//!
//! Formats: bytes (`TensorStore::snapshot_bytes` + `restore_from_bytes` into a FRESH store;
//! `SlabRouter::to_bytes/from_bytes`), file with zstd (`save_snapshot`), file without
//! (`snapshot::save_v3_uncompressed`), quantising file (`save_snapshot_compressed`).
//! Crash pre-states are built from real `save` output; the temp sibling is `path.with_extension("tmp")`
//! as in `save_v3_with_compression` / `save_snapshot_compressed`.
//!
//! C07.save.error_propagates: a complete snapshot S_old is at `path`; the writer's temp sibling
//! (`path.with_extension("tmp")`) is made a symlink to /dev/full, so that every write of the next save
//! fails with ENOSPC (checked by the harness first); saving a DIFFERENT store to `path` must return Err and
//! `path` must still be a regular file that loads as exactly S_old (no old file: `path` must not appear).
//! `path` is never loaded if it is not a regular file (a renamed symlink to /dev/full reads zeros forever).
//!
//! C07.roundtrip.resnapshot: populate, snapshot once (discarded; files: written to the same path), then
//! overwrite the same keys in place with different values (other kind / other length / other embedding
//! class: 384-dim slab embedding ramp <-> exact half-zero, 4..8-dim `_embedding` / `vector` under emb:* keys,
//! dimension changes in both directions), delete keys (one plain, one emb:* with a slab slot) and insert new
//! ones (the new emb:* key re-uses the freed slab slot), optionally add a table row; snapshot AGAIN and load:
//! the loaded view must equal the CURRENT view under the same rules as C07.roundtrip.*.  Contents stay
//! outside the known-finding classes (no components below 1e-6 in slab embeddings, smooth 384-dim vectors,
//! no Bytes / tables in the quantising format, no graph / blob data).  Router level: slab dimension 4 / 8.
use crate::fw::{tmpdir, Report, Rng, Tier};
use serde_json::{json, Value};
use std::collections::{BTreeMap, HashMap};
use std::panic::{catch_unwind, AssertUnwindSafe};
use std::path::{Path, PathBuf};
use tensor_store::relational_slab::{ColumnDef, ColumnType, ColumnValue, TableSchema};
use tensor_store::{ChunkHash, ScalarValue, SlabRouter, SlabRouterConfig, SparseVector, TensorData, TensorStore, TensorValue};

const OB_BYTES: &str = "C07.roundtrip.bytes";
const OB_BYTES_SLABS: &str = "C07.roundtrip.bytes.slabs";
const OB_FILE: &str = "C07.roundtrip.file";
const OB_FILE_SLABS: &str = "C07.roundtrip.file.slabs";
const OB_QUANT: &str = "C07.roundtrip.quantised";
const OB_QUANT_SLABS: &str = "C07.roundtrip.quantised.slabs";
const OB_THRESH: &str = "C07.embedding.threshold";
const OB_ATOMIC: &str = "C07.load.atomic";
const OB_TRUNC: &str = "C07.load.atomic.truncated";
const OB_SAVE_ERR: &str = "C07.save.error_propagates";
const OB_RESNAP: &str = "C07.roundtrip.resnapshot";

const THRESHOLD: usize = 256; // TT_MIN_DIMENSION
const TOLERANCE: f64 = 0.01; // "<1% error"

// ---------------------------------------------------------------- value catalogue

const VALS: [&str; 34] = [
    "null", "bool_t", "bool_f", "int_min", "int_max", "int_0", "int_m1", "f_nan", "f_inf", "f_ninf", "f_negzero", "f_denorm", "f_1_5",
    "str_empty", "str_ascii", "str_uni", "str_long", "str_bytes_like", "bytes_empty", "bytes_mix", "bytes_long",
    "vec_empty", "vec_dense", "vec_special", "vec_zeros", "vec_sorted_ints", "vec_unsorted_ints", "vec_long300",
    "sparse", "sparse_zero", "sparse_tiny", "ptr", "ptrs", "ptrs_empty",
];

fn val(name: &str) -> TensorValue {
    use ScalarValue as S;
    use TensorValue as V;
    match name {
        "null" => V::Scalar(S::Null),
        "bool_t" => V::Scalar(S::Bool(true)),
        "bool_f" => V::Scalar(S::Bool(false)),
        "int_min" => V::Scalar(S::Int(i64::MIN)),
        "int_max" => V::Scalar(S::Int(i64::MAX)),
        "int_0" => V::Scalar(S::Int(0)),
        "int_m1" => V::Scalar(S::Int(-1)),
        "f_nan" => V::Scalar(S::Float(f64::NAN)),
        "f_inf" => V::Scalar(S::Float(f64::INFINITY)),
        "f_ninf" => V::Scalar(S::Float(f64::NEG_INFINITY)),
        "f_negzero" => V::Scalar(S::Float(-0.0)),
        "f_denorm" => V::Scalar(S::Float(5e-324)),
        "f_1_5" => V::Scalar(S::Float(1.5)),
        "str_empty" => V::Scalar(S::String(String::new())),
        "str_ascii" => V::Scalar(S::String("hello".into())),
        "str_uni" => V::Scalar(S::String("\u{e9}\u{4e16}\u{0}\n\"q\"".into())),
        "str_long" => V::Scalar(S::String("abcdefghij".repeat(30))),
        "str_bytes_like" => V::Scalar(S::String("bytes:3".into())),
        "bytes_empty" => V::Scalar(S::Bytes(vec![])),
        "bytes_mix" => V::Scalar(S::Bytes(vec![0, 1, 255, 128])),
        "bytes_long" => V::Scalar(S::Bytes((0..=255u8).collect())),
        "vec_empty" => V::Vector(vec![]),
        "vec_dense" => V::Vector(vec![1.0, -0.5, 1e-20, 3.4e38]),
        "vec_special" => V::Vector(vec![f32::NAN, f32::INFINITY, -0.0, f32::MIN_POSITIVE]),
        "vec_zeros" => V::Vector(vec![0.0; 8]),
        "vec_sorted_ints" => V::Vector(vec![1.0, 2.0, 3.0]),
        "vec_unsorted_ints" => V::Vector(vec![5.0, 3.0]),
        "vec_long300" => V::Vector((0..300).map(|i| 1.0 + (i as f32) * 0.01).collect()),
        "sparse" => V::Sparse(SparseVector::from_dense(&[0.0, 0.0, 0.5, 0.0, 0.0, 0.0, -1.0, 0.0])),
        "sparse_zero" => V::Sparse(SparseVector::new(4)),
        "sparse_tiny" => V::Sparse(SparseVector::from_dense(&[0.0, 1e-20, 0.0, 0.0, 1e-7, 0.0])),
        "ptr" => V::Pointer("node:1".into()),
        "ptrs" => V::Pointers(vec!["a".into(), String::new(), "\u{e9}".into()]),
        // beyond the catalogue (resnapshot contents)
        "vec_small8" => V::Vector(vec![0.0, 0.0, 0.0, 1.0, 2.0, 3.0, -4.0, 0.5]),
        "vec_small4b" => V::Vector(vec![0.25, 2.0, -1.0, 8.0]),
        "vec_ramp384" => V::Vector(emb384(1)),
        "vec_ramp384b" => V::Vector(emb384(5)),
        "vec_half384" => V::Vector(emb384(2)),
        _ => V::Pointers(vec![]),
    }
}

const KEYS: [&str; 9] = ["k", "user:1", "emb:e1", "node:7", "edge:9", "table:x:1", "_blob:meta:b", "", "\u{e9}:\u{4e16}"];

// ---------------------------------------------------------------- content (the replayable case)

#[derive(Clone, Debug, Default)]
struct Content {
    entries: Vec<(String, String, String)>, // key, field, value name
    table: bool,   // relational slab: table "t", 6 column types, 2 rows
    graph: bool,   // graph tensor: 2 entity nodes, 1 edge with data
    blob: bool,    // blob log: 2 chunks
    emb: u8,       // 384-dim `_embedding` under an emb: key (lands in the embedding slab): 1 ramp, 2 half-zero, 3 half-zero + 1e-7, 4 pseudo-random, 5 falling ramp
    engines: bool, // 1 table / 2 rows, 2 nodes / 1 edge, 1 embedding written through the three engines
}

impl Content {
    fn kv(entries: &[(&str, &str, &str)]) -> Self {
        Content { entries: entries.iter().map(|(k, f, v)| ((*k).to_string(), (*f).to_string(), (*v).to_string())).collect(), ..Default::default() }
    }
    fn to_json(&self) -> Value {
        json!({"entries": self.entries.iter().map(|(k, f, v)| json!([k, f, v])).collect::<Vec<_>>(),
               "table": self.table, "graph": self.graph, "blob": self.blob, "emb": self.emb, "engines": self.engines})
    }
    fn parse(j: &Value) -> Self {
        Content {
            entries: j["entries"].as_array().map(|a| a.iter().map(|e| (e[0].as_str().unwrap_or("").to_string(), e[1].as_str().unwrap_or("").to_string(), e[2].as_str().unwrap_or("").to_string())).collect()).unwrap_or_default(),
            table: j["table"].as_bool().unwrap_or(false), graph: j["graph"].as_bool().unwrap_or(false), blob: j["blob"].as_bool().unwrap_or(false),
            emb: j["emb"].as_u64().unwrap_or(0) as u8, engines: j["engines"].as_bool().unwrap_or(false),
        }
    }
    fn direct_slabs(&self) -> bool { self.graph || self.blob }
    fn beyond_kv(&self) -> bool { self.graph || self.blob || self.table || self.engines }
}

fn emb384(kind: u8) -> Vec<f32> {
    match kind {
        1 => (0..384).map(|i| 1.0 + (i as f32) * 0.001).collect(),
        2 => (0..384).map(|i| if i % 2 == 0 { 0.0 } else { 1.0 + (i as f32) / 384.0 }).collect(),
        3 => (0..384).map(|i| if i == 0 { 1e-7 } else if i % 2 == 0 { 0.0 } else { 1.0 + (i as f32) / 384.0 }).collect(),
        5 => (0..384).map(|i| 2.0 - (i as f32) * 0.002).collect(),
        _ => { let mut s = 12345u32; (0..384).map(|_| { s = s.wrapping_mul(1_664_525).wrapping_add(1_013_904_223); ((s >> 8) as f32) / 8_388_608.0 - 1.0 }).collect() },
    }
}

const BLOBS: [&[u8]; 2] = [b"hello blob", &[7u8; 300]];

fn populate(r: &SlabRouter, store: Option<&TensorStore>, c: &Content) -> Result<(), String> {
    let mut order: Vec<String> = vec![];
    let mut by_key: BTreeMap<String, TensorData> = BTreeMap::new();
    for (k, f, v) in &c.entries {
        if !by_key.contains_key(k) { order.push(k.clone()); }
        by_key.entry(k.clone()).or_default().set(f.clone(), val(v));
    }
    for k in order { r.put(&k, by_key.remove(&k).unwrap_or_default()).map_err(|e| format!("put({k:?}) = Err({e})"))?; }
    if c.emb > 0 {
        let mut d = TensorData::new();
        d.set("_embedding", TensorValue::Vector(emb384(c.emb)));
        d.set("title", TensorValue::Scalar(ScalarValue::String("doc".into())));
        r.put("emb:doc", d).map_err(|e| format!("put(emb:doc) = Err({e})"))?;
    }
    if c.table {
        let schema = TableSchema::new(vec![
            ColumnDef::new("id", ColumnType::Int, false), ColumnDef::new("f", ColumnType::Float, true), ColumnDef::new("s", ColumnType::String, true),
            ColumnDef::new("b", ColumnType::Bool, true), ColumnDef::new("y", ColumnType::Bytes, true), ColumnDef::new("j", ColumnType::Json, true)]).with_primary_key("id");
        r.relations.create_table("t", schema).map_err(|e| format!("create_table = Err({e})"))?;
        r.relations.insert("t", vec![ColumnValue::Int(i64::MIN), ColumnValue::Float(f64::NAN), ColumnValue::String("\u{e9}\u{0}".into()), ColumnValue::Bool(true),
                                     ColumnValue::Bytes(vec![0, 255]), ColumnValue::Json("{\"a\":1}".into())]).map_err(|e| format!("insert = Err({e})"))?;
        r.relations.insert("t", vec![ColumnValue::Int(i64::MAX), ColumnValue::Float(-0.0), ColumnValue::Null, ColumnValue::Bool(false), ColumnValue::Null, ColumnValue::Null])
            .map_err(|e| format!("insert = Err({e})"))?;
    }
    if c.graph {
        for k in ["emb:g1", "emb:g2"] {
            let mut d = TensorData::new();
            d.set("name", TensorValue::Scalar(ScalarValue::String(k.into())));
            r.put(k, d).map_err(|e| format!("put({k}) = Err({e})"))?;
        }
        let (a, b) = (r.index.get("emb:g1").ok_or("emb:g1 not indexed")?, r.index.get("emb:g2").ok_or("emb:g2 not indexed")?);
        let e = r.graph.add_edge(a, b, "knows", true);
        let mut d = TensorData::new();
        d.set("w", TensorValue::Scalar(ScalarValue::Float(0.5)));
        r.graph.set_edge_data(e, d);
    }
    if c.blob { for b in BLOBS { let _ = r.blobs.append(b); } }
    if c.engines {
        let s = store.ok_or("engines content needs a TensorStore")?;
        use relational_engine::{Column, ColumnType as CT, RelationalEngine, Schema, Value as RV};
        let rel = RelationalEngine::with_store(s.clone());
        rel.create_table("people", Schema::new(vec![Column::new("id", CT::Int), Column::new("name", CT::String).nullable(), Column::new("x", CT::Float).nullable()]))
            .map_err(|e| format!("rel.create_table = Err({e})"))?;
        rel.insert("people", HashMap::from([("id".to_string(), RV::Int(1)), ("name".to_string(), RV::String("Ann".into())), ("x".to_string(), RV::Float(1.5))])).map_err(|e| format!("rel.insert = Err({e})"))?;
        rel.insert("people", HashMap::from([("id".to_string(), RV::Int(i64::MAX)), ("name".to_string(), RV::Null), ("x".to_string(), RV::Float(f64::NEG_INFINITY))])).map_err(|e| format!("rel.insert = Err({e})"))?;
        use graph_engine::{GraphEngine, PropertyValue as PV};
        let g = GraphEngine::with_store(s.clone());
        let n1 = g.create_node("Person", HashMap::from([("name".to_string(), PV::String("Ann".into())), ("age".to_string(), PV::Int(30))])).map_err(|e| format!("create_node = Err({e})"))?;
        let n2 = g.create_node("Person", HashMap::from([("name".to_string(), PV::String("Bob".into()))])).map_err(|e| format!("create_node = Err({e})"))?;
        g.create_edge(n1, n2, "KNOWS", HashMap::from([("w".to_string(), PV::Float(0.5))]), true).map_err(|e| format!("create_edge = Err({e})"))?;
        let v = vector_engine::VectorEngine::with_store(s.clone());
        v.store_embedding("e", vec![1.0, 0.0, 0.5, 1e-20]).map_err(|e| format!("store_embedding = Err({e})"))?;
    }
    Ok(())
}

// ---------------------------------------------------------------- view

#[derive(Clone, Debug, PartialEq)]
enum Item { Text(String), Vector(Vec<f32>), Sparse(usize, Vec<u32>, Vec<f32>) }
type View = BTreeMap<String, Item>;

fn hex(b: &[u8]) -> String { b.iter().map(|x| format!("{x:02x}")).collect() }

fn item(v: &TensorValue) -> Item {
    match v {
        TensorValue::Scalar(ScalarValue::Null) => Item::Text("null".into()),
        TensorValue::Scalar(ScalarValue::Bool(b)) => Item::Text(format!("bool:{b}")),
        TensorValue::Scalar(ScalarValue::Int(i)) => Item::Text(format!("int:{i}")),
        TensorValue::Scalar(ScalarValue::Float(f)) => Item::Text(format!("f64:{f:?}/{:#018x}", f.to_bits())),
        TensorValue::Scalar(ScalarValue::String(s)) => Item::Text(format!("str:{s:?}")),
        TensorValue::Scalar(ScalarValue::Bytes(b)) => Item::Text(format!("bytes:[{}]", hex(b))),
        TensorValue::Vector(v) => Item::Vector(v.clone()),
        TensorValue::Sparse(s) => Item::Sparse(s.dimension(), s.positions().to_vec(), s.values().to_vec()),
        TensorValue::Pointer(p) => Item::Text(format!("ptr:{p:?}")),
        TensorValue::Pointers(p) => Item::Text(format!("ptrs:{p:?}")),
    }
}

fn data_text(d: &TensorData) -> String {
    let m: BTreeMap<&String, Item> = d.iter().map(|(k, v)| (k, item(v))).collect();
    format!("{m:?}")
}

fn colval(v: &ColumnValue) -> String {
    match v { ColumnValue::Float(f) => format!("Float({f:?}/{:#018x})", f.to_bits()), o => format!("{o:?}") }
}

fn view(r: &SlabRouter, store: Option<&TensorStore>, c: &Content) -> View {
    let mut v = View::new();
    let mut keys = r.scan("");
    keys.sort();
    v.insert("len".into(), Item::Text(r.len().to_string()));
    v.insert("keys".into(), Item::Text(format!("{keys:?}")));
    for k in &keys {
        if k.starts_with("_cache:") { continue; }
        match r.get(k) {
            Ok(d) => {
                v.insert(format!("kv/{k:?}"), Item::Text(format!("{} field(s), exists={}", d.len(), r.exists(k))));
                for (f, x) in d.iter() { v.insert(format!("kv/{k:?}/{f:?}"), item(x)); }
            },
            Err(_) => { v.insert(format!("kv/{k:?}"), Item::Text("listed by scan, get = NotFound".into())); },
        }
    }
    for (k, id) in r.index.scan_prefix("") {
        v.insert(format!("idx/{k:?}"), Item::Text("indexed".into()));
        if let Some(e) = r.embeddings.get(id) { v.insert(format!("embslab/{k:?}"), Item::Vector(e)); }
        let mut out: Vec<String> = r.graph.outgoing(id).into_iter().map(|(to, e)| format!("->{:?} data={} typed={}", r.index.key_for(to), r.graph.get_edge_data(e).map(|d| data_text(&d)).unwrap_or_default(), r.graph.edge_exists(id, to, Some("knows")))).collect();
        let mut inc: Vec<String> = r.graph.incoming(id).into_iter().map(|(from, _)| format!("<-{:?}", r.index.key_for(from))).collect();
        out.sort();
        inc.sort();
        if !out.is_empty() { v.insert(format!("graph/out/{k:?}"), Item::Text(format!("{out:?}"))); }
        if !inc.is_empty() { v.insert(format!("graph/in/{k:?}"), Item::Text(format!("{inc:?}"))); }
    }
    v.insert("embslab/len".into(), Item::Text(r.embeddings.len().to_string()));
    v.insert("graph/edge_count".into(), Item::Text(r.graph.edge_count().to_string()));
    let mut tables = r.relations.table_names();
    tables.sort();
    v.insert("rel/tables".into(), Item::Text(format!("{tables:?}")));
    for t in &tables {
        if let Some(s) = r.relations.get_schema(t) {
            v.insert(format!("rel/{t}/schema"), Item::Text(format!("{:?} pk={:?}", s.columns.iter().map(|c| (c.name.clone(), format!("{:?}", c.col_type), c.nullable)).collect::<Vec<_>>(), s.primary_key)));
        }
        v.insert(format!("rel/{t}/row_count"), Item::Text(format!("{:?}", r.relations.row_count(t).ok())));
        if let Ok(rows) = r.relations.scan_all(t) {
            for (id, row) in rows { v.insert(format!("rel/{t}/row/{}", id.as_u64()), Item::Text(format!("{:?}", row.iter().map(colval).collect::<Vec<_>>()))); }
        }
    }
    v.insert("blob/count".into(), Item::Text(r.blobs.chunk_count().to_string()));
    if c.blob { for (i, b) in BLOBS.iter().enumerate() { v.insert(format!("blob/{i}"), Item::Text(r.blobs.get(&ChunkHash::from_data(b)).map(|x| hex(&x)).unwrap_or_else(|| "absent".into()))); } }
    if let (true, Some(s)) = (c.engines, store) {
        let rel = relational_engine::RelationalEngine::with_store(s.clone());
        match rel.select("people", relational_engine::Condition::True) {
            Ok(mut rows) => { rows.sort_by_key(|r| r.id); for r in rows { v.insert(format!("eng/rel/people/{}", r.id), Item::Text(format!("{:?}", r.values))); } },
            Err(e) => { v.insert("eng/rel/people".into(), Item::Text(format!("select = Err({e})"))); },
        }
        v.insert("eng/rel/schema".into(), Item::Text(format!("{:?}", rel.get_schema("people").map(|s| s.columns.iter().map(|c| format!("{c:?}")).collect::<Vec<_>>()).map_err(|e| e.to_string()))));
        let g = graph_engine::GraphEngine::with_store(s.clone());
        for id in [1u64, 2] {
            v.insert(format!("eng/graph/node/{id}"), Item::Text(match g.get_node(id) { Ok(n) => format!("{:?} {:?} {:?} {:?}", n.labels, n.properties.iter().collect::<BTreeMap<_, _>>(), n.created_at, n.updated_at), Err(e) => format!("Err({e})") }));
        }
        v.insert("eng/graph/edge/1".into(), Item::Text(match g.get_edge(1) { Ok(e) => format!("{}->{} {} {:?} directed={}", e.from, e.to, e.edge_type, e.properties.iter().collect::<BTreeMap<_, _>>(), e.directed), Err(e) => format!("Err({e})") }));
        let ve = vector_engine::VectorEngine::with_store(s.clone());
        match ve.get_embedding("e") { Ok(x) => { v.insert("eng/vec/e".into(), Item::Vector(x)); }, Err(e) => { v.insert("eng/vec/e".into(), Item::Text(format!("Err({e})"))); } }
    }
    v
}

fn vec_rule(a: &[f32], b: &[f32]) -> Result<(), String> {
    if a.len() != b.len() { return Err(format!("length {} -> {}", a.len(), b.len())); }
    let same = a.iter().zip(b).all(|(x, y)| x.to_bits() == y.to_bits());
    if same { return Ok(()); }
    if a.len() < THRESHOLD {
        let i = a.iter().zip(b).position(|(x, y)| x.to_bits() != y.to_bits()).unwrap_or(0);
        return Err(format!("dimension {} < {THRESHOLD} must be bit-identical; component {i}: {:e} ({:#x}) -> {:e} ({:#x})", a.len(), a[i], a[i].to_bits(), b[i], b[i].to_bits()));
    }
    let (mut num, mut den) = (0f64, 0f64);
    for (x, y) in a.iter().zip(b) { let d = f64::from(*x) - f64::from(*y); num += d * d; den += f64::from(*x) * f64::from(*x); }
    let rel = if den == 0.0 { if num == 0.0 { 0.0 } else { f64::INFINITY } } else { (num / den).sqrt() };
    if rel <= TOLERANCE { Ok(()) } else { Err(format!("dimension {} >= {THRESHOLD}: relative L2 reconstruction error {rel:.4} > documented {TOLERANCE}", a.len())) }
}

fn dense(i: &Item) -> Option<Vec<f32>> {
    match i {
        Item::Vector(v) => Some(v.clone()),
        Item::Sparse(d, p, x) => { let mut o = vec![0f32; *d]; for (pp, xx) in p.iter().zip(x) { if (*pp as usize) < *d { o[*pp as usize] = *xx; } } Some(o) },
        Item::Text(_) => None,
    }
}

/// all differences between the original and the reloaded view (empty = equal)
fn diff(orig: &View, got: &View, quantised: bool) -> Vec<String> {
    let mut out = vec![];
    for (k, a) in orig {
        match got.get(k) {
            None => out.push(format!("{k}: lost (was {})", short(a))),
            Some(b) => {
                let r = match (a, b) {
                    (Item::Text(x), Item::Text(y)) => if x == y { Ok(()) } else { Err(format!("{} -> {}", short(a), short(b))) },
                    (Item::Vector(x), Item::Vector(y)) => vec_rule(x, y),
                    (Item::Sparse(d1, p1, x1), Item::Sparse(d2, p2, x2)) => if d1 == d2 && p1 == p2 { vec_rule(x1, x2) } else { Err(format!("{} -> {}", short(a), short(b))) },
                    (Item::Sparse(..), Item::Vector(y)) if quantised => vec_rule(&dense(a).unwrap_or_default(), y),
                    _ => Err(format!("representation changed: {} -> {}", short(a), short(b))),
                };
                if let Err(e) = r { out.push(format!("{k}: {e}")); }
            },
        }
    }
    for (k, b) in got { if !orig.contains_key(k) { out.push(format!("{k}: appeared ({})", short(b))); } }
    out
}

fn short(i: &Item) -> String {
    let s = match i { Item::Text(t) => t.clone(), o => format!("{o:?}") };
    if s.len() > 160 { format!("{}...", s.chars().take(160).collect::<String>()) } else { s }
}

fn verdict(d: Vec<String>) -> Result<(), String> {
    if d.is_empty() { Ok(()) } else { Err(format!("{} difference(s): {}", d.len(), d.iter().take(6).cloned().collect::<Vec<_>>().join(" | "))) }
}

// ---------------------------------------------------------------- round trips

#[derive(Clone, Copy, PartialEq, Debug)]
enum Fmt { BytesStore, BytesRouter, FileZstd, FileRaw, Quantised, /** SlabRouter::save_to_file / load_from_file (new obligations only) */ RouterFile }
const FMTS: [Fmt; 5] = [Fmt::BytesStore, Fmt::BytesRouter, Fmt::FileZstd, Fmt::FileRaw, Fmt::Quantised];
const ALL_FMTS: [Fmt; 6] = [Fmt::BytesStore, Fmt::BytesRouter, Fmt::FileZstd, Fmt::FileRaw, Fmt::Quantised, Fmt::RouterFile];
const FILE_FMTS: [Fmt; 4] = [Fmt::FileZstd, Fmt::FileRaw, Fmt::Quantised, Fmt::RouterFile];
impl Fmt {
    fn name(self) -> &'static str { match self { Fmt::BytesStore => "bytes_store", Fmt::BytesRouter => "bytes_router", Fmt::FileZstd => "file_zstd", Fmt::FileRaw => "file_raw", Fmt::Quantised => "quantised", Fmt::RouterFile => "router_file" } }
    fn parse(s: &str) -> Fmt { ALL_FMTS.into_iter().find(|f| f.name() == s).unwrap_or(Fmt::FileZstd) }
    fn ob(self, c: &Content) -> &'static str {
        // a store holding nothing but one slab embedding decides the embedding clause of the property
        let pure_emb = c.emb > 0 && c.entries.is_empty() && !c.beyond_kv();
        match self {
            Fmt::BytesStore | Fmt::BytesRouter => if c.direct_slabs() { OB_BYTES_SLABS } else if pure_emb { OB_THRESH } else { OB_BYTES },
            Fmt::FileZstd | Fmt::FileRaw | Fmt::RouterFile => if c.direct_slabs() { OB_FILE_SLABS } else if pure_emb { OB_THRESH } else { OB_FILE },
            Fmt::Quantised => if c.beyond_kv() { OB_QUANT_SLABS } else { OB_QUANT },
        }
    }
}

fn guard<T>(what: &str, f: impl FnOnce() -> Result<T, String>) -> Result<T, String> {
    match catch_unwind(AssertUnwindSafe(f)) { Ok(r) => r, Err(p) => Err(format!("{what} panicked: {}", p.downcast_ref::<String>().cloned().or_else(|| p.downcast_ref::<&str>().map(|s| (*s).to_string())).unwrap_or_default())) }
}

fn save_file(s: &TensorStore, fmt: Fmt, path: &Path) -> Result<(), String> {
    guard("save", || match fmt {
        Fmt::FileRaw => tensor_store::snapshot::save_v3_uncompressed(s.router(), path).map_err(|e| format!("save_v3_uncompressed = Err({e})")),
        Fmt::Quantised => s.save_snapshot_compressed(path, tensor_compress::CompressionConfig::default()).map_err(|e| format!("save_snapshot_compressed = Err({e})")),
        Fmt::RouterFile => s.router().save_to_file(path).map_err(|e| format!("SlabRouter::save_to_file = Err({e})")),
        _ => s.save_snapshot(path).map_err(|e| format!("save_snapshot = Err({e})")),
    })
}

enum Loaded { Store(TensorStore), Router(SlabRouter) }
impl Loaded {
    fn router(&self) -> &SlabRouter { match self { Loaded::Store(s) => s.router(), Loaded::Router(r) => r } }
    fn store(&self) -> Option<&TensorStore> { match self { Loaded::Store(s) => Some(s), Loaded::Router(_) => None } }
}

fn load_file(fmt: Fmt, path: &Path) -> Result<Loaded, String> {
    guard("load", || match fmt {
        Fmt::Quantised => TensorStore::load_snapshot_compressed(path).map(Loaded::Store).map_err(|e| format!("load_snapshot_compressed = Err({e})")),
        Fmt::RouterFile => SlabRouter::load_from_file(path).map(Loaded::Router).map_err(|e| format!("SlabRouter::load_from_file = Err({e})")),
        _ => TensorStore::load_snapshot(path).map(Loaded::Store).map_err(|e| format!("load_snapshot = Err({e})")),
    })
}

fn roundtrip(c: &Content, fmt: Fmt, dir: &Path) -> Result<(), String> {
    let s = TensorStore::new();
    populate(s.router(), Some(&s), c).map_err(|e| format!("populate: {e}"))?;
    let orig = view(s.router(), Some(&s), c);
    match fmt {
        Fmt::BytesStore => {
            let bytes = guard("snapshot_bytes", || s.snapshot_bytes().map_err(|e| format!("snapshot_bytes = Err({e})")))?;
            let fresh = TensorStore::new();
            guard("restore_from_bytes", || fresh.restore_from_bytes(&bytes).map_err(|e| format!("restore_from_bytes = Err({e})")))?;
            verdict(diff(&orig, &view(fresh.router(), Some(&fresh), c), false))
        },
        Fmt::BytesRouter => {
            let bytes = guard("to_bytes", || s.router().to_bytes().map_err(|e| format!("to_bytes = Err({e})")))?;
            let r2 = guard("from_bytes", || SlabRouter::from_bytes(&bytes).map_err(|e| format!("from_bytes = Err({e})")))?;
            verdict(diff(&view(s.router(), None, c), &view(&r2, None, c), false))
        },
        _ => {
            let path = dir.join("rt.snap");
            let _ = std::fs::remove_file(&path);
            save_file(&s, fmt, &path)?;
            if path.with_extension("tmp").exists() { return Err("temp sibling left behind after save".into()); }
            let l = load_file(fmt, &path)?;
            verdict(diff(&orig, &view(l.router(), l.store(), c), fmt == Fmt::Quantised))
        },
    }
}

/// embedding slab below the documented threshold (router-level: the slab dimension is configurable only there)
fn small_embeddings() -> Vec<Vec<f32>> {
    vec![vec![1.0, 0.5, -1.0, 0.25], vec![0.0, 0.0, 0.0, 1.0], vec![0.0; 4], vec![1e-20, 1.0, 1.0, 1.0], vec![5e-7, 0.0, 0.0, 1.0], vec![1e-20, 0.0, 0.0, 1.0],
         vec![f32::MIN_POSITIVE, 0.0, 2.0, 0.0], vec![3.4e38, -3.4e38, 0.0, 0.0]]
}

fn threshold_case(e: &[f32], how: &str, dir: &Path) -> Result<(), String> {
    let cfg = SlabRouterConfig { embedding_dim: e.len(), ..SlabRouterConfig::default() };
    let r = SlabRouter::with_config(&cfg);
    let mut d = TensorData::new();
    d.set("_embedding", TensorValue::Vector(e.to_vec()));
    d.set("title", TensorValue::Scalar(ScalarValue::String("doc".into())));
    r.put("emb:doc", d).map_err(|x| format!("put = Err({x})"))?;
    let c = Content::default();
    let orig = view(&r, None, &c);
    if !orig.contains_key("embslab/\"emb:doc\"") { return Err("harness: embedding did not land in the slab".into()); }
    let r2 = guard("roundtrip", || match how {
        "bytes" => SlabRouter::from_bytes(&r.to_bytes().map_err(|x| format!("to_bytes = Err({x})"))?).map_err(|x| format!("from_bytes = Err({x})")),
        "file_raw" => { let p = dir.join("th.snap"); tensor_store::snapshot::save_v3_uncompressed(&r, &p).map_err(|x| format!("save = Err({x})"))?; SlabRouter::load_from_file(&p).map_err(|x| format!("load = Err({x})")) },
        _ => { let p = dir.join("th.snap"); r.save_to_file(&p).map_err(|x| format!("save = Err({x})"))?; SlabRouter::load_from_file(&p).map_err(|x| format!("load = Err({x})")) },
    })?;
    verdict(diff(&orig, &view(&r2, None, &c), false))
}

// ---------------------------------------------------------------- crash pre-states

struct Images { old_bytes: Vec<u8>, new_bytes: Vec<u8>, old_view: View, new_view: View }

fn images(old: &Content, new: &Content, fmt: Fmt, dir: &Path) -> Result<Images, String> {
    let mut out = vec![];
    for (i, c) in [old, new].into_iter().enumerate() {
        let s = TensorStore::new();
        populate(s.router(), Some(&s), c).map_err(|e| format!("populate: {e}"))?;
        let p = dir.join(format!("img{i}.snap"));
        let _ = std::fs::remove_file(&p);
        save_file(&s, fmt, &p)?;
        let bytes = std::fs::read(&p).map_err(|e| e.to_string())?;
        let l = load_file(fmt, &p).map_err(|e| format!("complete file does not load: {e}"))?;
        out.push((bytes, view(l.router(), l.store(), c)));
    }
    let (nb, nv) = out.pop().unwrap_or_default();
    let (ob, ov) = out.pop().unwrap_or_default();
    Ok(Images { old_bytes: ob, new_bytes: nb, old_view: ov, new_view: nv })
}

fn loaded_view(fmt: Fmt, path: &Path, c: &Content) -> Result<View, String> {
    let l = load_file(fmt, path)?;
    Ok(view(l.router(), l.store(), c))
}

/// state in {"tmp_partial", "renamed", "save_over_tmp", "truncated"}
fn atomic_case(im: &Images, old: &Content, new: &Content, fmt: Fmt, state: &str, cut: usize, dir: &Path) -> Result<(), String> {
    let path = dir.join("live.snap");
    let tmp = path.with_extension("tmp");
    let _ = std::fs::remove_file(&path);
    let _ = std::fs::remove_file(&tmp);
    let w = |p: &Path, b: &[u8]| std::fs::write(p, b).map_err(|e| format!("harness write: {e}"));
    match state {
        "tmp_partial" => {
            w(&path, &im.old_bytes)?;
            w(&tmp, &im.new_bytes[..cut.min(im.new_bytes.len())])?;
            let v = loaded_view(fmt, &path, old).map_err(|e| format!("complete old file + temp sibling cut at {cut}: {e}"))?;
            verdict(diff(&im.old_view, &v, false)).map_err(|e| format!("not the old image: {e}"))
        },
        "renamed" => {
            w(&path, &im.old_bytes)?;
            w(&tmp, &im.new_bytes)?;
            std::fs::rename(&tmp, &path).map_err(|e| format!("harness rename: {e}"))?;
            let v = loaded_view(fmt, &path, new).map_err(|e| format!("complete new file: {e}"))?;
            verdict(diff(&im.new_view, &v, false)).map_err(|e| format!("not the new image: {e}"))
        },
        "save_over_tmp" => {
            w(&path, &im.old_bytes)?;
            w(&tmp, &im.new_bytes[..cut.min(im.new_bytes.len())])?;
            let s = TensorStore::new();
            populate(s.router(), Some(&s), new).map_err(|e| format!("populate: {e}"))?;
            // reference image: the same store saved to a clean path (engine-written data carries timestamps)
            let clean = dir.join("clean.snap");
            let _ = std::fs::remove_file(&clean);
            save_file(&s, fmt, &clean)?;
            let want = loaded_view(fmt, &clean, new)?;
            save_file(&s, fmt, &path).map_err(|e| format!("save after an interrupted save: {e}"))?;
            if tmp.exists() { return Err("temp sibling still present after a successful save".into()); }
            let v = loaded_view(fmt, &path, new)?;
            verdict(diff(&want, &v, false)).map_err(|e| format!("not the new image: {e}"))
        },
        _ => {
            w(&path, &im.old_bytes[..cut.min(im.old_bytes.len())])?;
            match load_file(fmt, &path) {
                Err(e) if e.contains("panicked") => Err(format!("file cut at {cut}/{}: {e}", im.old_bytes.len())),
                Err(_) => Ok(()),
                Ok(l) => Err(format!("file cut at {cut}/{} loads as a store with {} key(s) instead of an error", im.old_bytes.len(), l.router().scan("").len())),
            }
        },
    }
}

// ---------------------------------------------------------------- failing save (ENOSPC on the temp sibling)

/// `old` = None: no previous file.  The temp sibling of `path` is a symlink to /dev/full during the save.
fn save_error_case(old: Option<&Content>, new: &Content, fmt: Fmt, dir: &Path) -> Result<(), String> {
    use std::io::Write;
    let path = dir.join("full.snap");
    let tmp = path.with_extension("tmp");
    let _ = std::fs::remove_file(&path);
    let _ = std::fs::remove_file(&tmp);
    let mut old_view = None;
    if let Some(oc) = old {
        let s_old = TensorStore::new();
        populate(s_old.router(), Some(&s_old), oc).map_err(|e| format!("populate: {e}"))?;
        save_file(&s_old, fmt, &path).map_err(|e| format!("harness: saving S_old: {e}"))?;
        old_view = Some(loaded_view(fmt, &path, oc).map_err(|e| format!("harness: S_old does not load: {e}"))?);
    }
    let s_new = TensorStore::new();
    populate(s_new.router(), Some(&s_new), new).map_err(|e| format!("populate: {e}"))?;
    std::os::unix::fs::symlink("/dev/full", &tmp).map_err(|e| format!("harness: symlink to /dev/full: {e}"))?;
    let probe = std::fs::OpenOptions::new().write(true).open(&tmp).and_then(|mut f| f.write_all(b"x"));
    if probe.is_ok() { let _ = std::fs::remove_file(&tmp); return Err("harness: a write through the temp sibling did not fail".into()); }
    let r = save_file(&s_new, fmt, &path);
    let _ = std::fs::remove_file(&tmp);
    let mut bad: Vec<String> = vec![];
    match &r {
        Ok(()) => bad.push("save returned Ok although every write to its temp file failed with ENOSPC".into()),
        Err(e) if e.contains("panicked") => bad.push(e.clone()),
        Err(_) => {},
    }
    match std::fs::symlink_metadata(&path) {
        Ok(m) if m.file_type().is_file() => match (&old_view, old) {
            (Some(ov), Some(oc)) => match loaded_view(fmt, &path, oc) {
                Ok(v) => if let Err(e) = verdict(diff(ov, &v, false)) { bad.push(format!("the file no longer loads as S_old: {e}")); },
                Err(e) => bad.push(format!("the file no longer loads: {e}")),
            },
            _ => { bad.push(format!("a file of {} byte(s) appeared at the target path although nothing could be written", m.len())); let _ = std::fs::remove_file(&path); },
        },
        Ok(m) => {
            bad.push(format!("the target path was replaced by a non-regular file ({}): the previous snapshot is gone", if m.file_type().is_symlink() { "the symlink that stood for the temp file" } else { "not a file" }));
            let _ = std::fs::remove_file(&path);
        },
        Err(_) => if old.is_some() { bad.push("the previous snapshot file vanished".into()); },
    }
    if bad.is_empty() { Ok(()) } else { Err(format!("save = {}; {}", match &r { Ok(()) => "Ok".to_string(), Err(e) => e.clone() }, bad.join(" | "))) }
}

// ---------------------------------------------------------------- save over a stale temp file

/// An earlier save was interrupted before its rename and left `<path>.tmp` behind (here: `stale` bytes of
/// junk, longer than any snapshot of `new`).  A later successful save must still publish exactly the new image.
fn stale_temp_case(new: &Content, fmt: Fmt, stale: usize, dir: &Path) -> Result<(), String> {
    let s = TensorStore::new();
    populate(s.router(), Some(&s), new).map_err(|e| format!("populate: {e}"))?;
    // reference: the same store saved to a path with no leftover, and loaded
    let clean = dir.join("clean.snap");
    let _ = std::fs::remove_file(&clean);
    let _ = std::fs::remove_file(clean.with_extension("tmp"));
    save_file(&s, fmt, &clean).map_err(|e| format!("harness: clean save: {e}"))?;
    let want = loaded_view(fmt, &clean, new).map_err(|e| format!("harness: clean save does not load: {e}"))?;
    // the same save over a leftover temp file
    let path = dir.join("stale.snap");
    let tmp = path.with_extension("tmp");
    let _ = std::fs::remove_file(&path);
    std::fs::write(&tmp, vec![0xA5u8; stale]).map_err(|e| format!("harness: writing the leftover temp file: {e}"))?;
    let r = save_file(&s, fmt, &path);
    let got = loaded_view(fmt, &path, new);
    let _ = std::fs::remove_file(&tmp);
    r.map_err(|e| format!("save over a leftover temp file = Err({e})"))?;
    let got = got.map_err(|e| format!("after a successful save over a leftover temp file of {stale} bytes the snapshot does not load: {e}"))?;
    verdict(diff(&want, &got, false))
}

// ---------------------------------------------------------------- snapshot, mutate, snapshot again

fn row3() -> Vec<ColumnValue> {
    vec![ColumnValue::Int(3), ColumnValue::Float(2.5), ColumnValue::String("third".into()), ColumnValue::Bool(true), ColumnValue::Null, ColumnValue::Json("[]".into())]
}

/// `second` is applied on top of `first`: its entries / emb overwrite keys in place; `second.table` adds a row to table "t".
fn resnapshot_case(first: &Content, del: &[String], second: &Content, fmt: Fmt, dir: &Path) -> Result<(), String> {
    let s = TensorStore::new();
    populate(s.router(), Some(&s), first).map_err(|e| format!("populate: {e}"))?;
    let path = dir.join("re.snap");
    let _ = std::fs::remove_file(&path);
    // first snapshot (discarded)
    match fmt {
        Fmt::BytesStore => { guard("snapshot_bytes", || s.snapshot_bytes().map_err(|e| format!("first snapshot_bytes = Err({e})")))?; },
        Fmt::BytesRouter => { guard("to_bytes", || s.router().to_bytes().map_err(|e| format!("first to_bytes = Err({e})")))?; },
        _ => save_file(&s, fmt, &path).map_err(|e| format!("first save: {e}"))?,
    }
    // mutate in place
    for k in del { s.router().delete(k).map_err(|e| format!("harness: delete({k:?}) = Err({e})"))?; }
    populate(s.router(), Some(&s), &Content { entries: second.entries.clone(), emb: second.emb, ..Default::default() }).map_err(|e| format!("populate (second): {e}"))?;
    if second.table { s.router().relations.insert("t", row3()).map_err(|e| format!("harness: insert third row = Err({e})"))?; }
    let c = Content { blob: first.blob, ..Default::default() }; // `c` only tells view() which blob chunks to look up
    let cur = view(s.router(), Some(&s), &c);
    // second snapshot + load
    let got = match fmt {
        Fmt::BytesStore => {
            let bytes = guard("snapshot_bytes", || s.snapshot_bytes().map_err(|e| format!("snapshot_bytes = Err({e})")))?;
            let fresh = TensorStore::new();
            guard("restore_from_bytes", || fresh.restore_from_bytes(&bytes).map_err(|e| format!("restore_from_bytes = Err({e})")))?;
            view(fresh.router(), Some(&fresh), &c)
        },
        Fmt::BytesRouter => {
            let bytes = guard("to_bytes", || s.router().to_bytes().map_err(|e| format!("to_bytes = Err({e})")))?;
            let r2 = guard("from_bytes", || SlabRouter::from_bytes(&bytes).map_err(|e| format!("from_bytes = Err({e})")))?;
            view(&r2, None, &c)
        },
        _ => {
            save_file(&s, fmt, &path).map_err(|e| format!("second save: {e}"))?;
            if path.with_extension("tmp").exists() { return Err("temp sibling left behind after save".into()); }
            loaded_view(fmt, &path, &c)?
        },
    };
    verdict(diff(&cur, &got, fmt == Fmt::Quantised)).map_err(|e| format!("loaded second snapshot differs from the current store: {e}"))
}

/// (first, deleted keys, second) for one format; everything stays outside the known-finding classes of that format
fn resnapshot_contents(fmt: Fmt, tier: Tier) -> Vec<(Content, Vec<String>, Content)> {
    let quant = fmt == Fmt::Quantised;
    let d = |k: &[&str]| k.iter().map(|x| (*x).to_string()).collect::<Vec<String>>();
    let mut out = vec![];
    // every class at once; one plain and one slab-backed key deleted, new ones inserted
    out.push((Content { emb: 1, ..Content::kv(&[("k", "f", "str_ascii"), ("user:1", "n", "int_min"), ("user:1", "v", "vec_dense"), ("node:7", "p", "ptrs"), ("emb:e1", "_embedding", "vec_dense"),
                                                ("emb:e2", "vector", "vec_small8"), ("gone", "f", "int_0"), ("emb:gone", "_embedding", "vec_ramp384"), ("emb:keep", "_embedding", "vec_half384")]) },
              d(&["gone", "emb:gone"]),
              Content { emb: 5, ..Content::kv(&[("k", "f", "str_uni"), ("user:1", "n", "int_max"), ("user:1", "v", "vec_sorted_ints"), ("node:7", "p", "ptr"), ("emb:e1", "_embedding", "vec_small4b"),
                                                ("emb:e2", "vector", "vec_dense"), ("new", "f", "f_nan"), ("emb:new", "_embedding", "vec_ramp384b")]) }));
    // slab embedding classes: ramp <-> exact half-zero, falling ramp
    for (a, b) in [(1u8, 2u8), (2, 1), (1, 5), (2, 5)] { out.push((Content { emb: a, ..Default::default() }, vec![], Content { emb: b, ..Default::default() })); }
    // same, next to key/value data that is overwritten too, and with the slab entry deleted and re-inserted
    out.push((Content { emb: 2, ..Content::kv(&[("emb:e1", "vector", "vec_ramp384"), ("emb:e1", "title", "str_ascii"), ("k", "f", "int_0")]) }, d(&["emb:doc"]),
              Content { emb: 1, ..Content::kv(&[("emb:e1", "vector", "vec_ramp384b"), ("k", "f", "vec_small8")]) }));
    // small (4..8-dim) embedding values under emb:* keys overwritten by small ones
    out.push((Content::kv(&[("emb:e1", "_embedding", "vec_dense"), ("emb:e2", "_embedding", "vec_small8"), ("emb:e3", "vector", "vec_small4b")]), vec![],
              Content::kv(&[("emb:e1", "_embedding", "vec_small4b"), ("emb:e2", "_embedding", "vec_zeros"), ("emb:e3", "vector", "vec_small8")])));
    // dimension changes under the same emb:* key, both directions
    out.push((Content::kv(&[("emb:e1", "_embedding", "vec_dense")]), vec![], Content::kv(&[("emb:e1", "_embedding", "vec_ramp384")])));
    out.push((Content { emb: 1, ..Default::default() }, vec![], Content::kv(&[("emb:doc", "_embedding", "vec_small4b"), ("emb:doc", "title", "str_uni")])));
    // relational rows next to overwritten keys (the quantising format does not carry tables: known finding)
    if !quant {
        out.push((Content { table: true, emb: 1, ..Content::kv(&[("k", "f", "str_ascii"), ("table:x:1", "f", "int_0")]) }, d(&["k"]),
                  Content { table: true, emb: 2, ..Content::kv(&[("table:x:1", "f", "str_uni"), ("k2", "f", "int_m1")]) }));
    }
    // rolling 5-entry stores: every key class, every value kind replaced by another kind
    for w in 0..VALS.len() {
        if tier == Tier::Quick && w % 3 != 0 { continue; }
        let pick = |n: usize| { let v = VALS[n % VALS.len()]; if quant && v.starts_with("bytes_") { "int_0" } else { v } };
        let a: Vec<(&str, &str, &str)> = (0..5).map(|i| (KEYS[(w + i) % KEYS.len()], "f", pick(w + i * 7))).collect();
        let b: Vec<(&str, &str, &str)> = (0..5).map(|i| (KEYS[(w + i) % KEYS.len()], "f", pick(w + i * 7 + 11))).collect();
        let gone = KEYS[(w + 4) % KEYS.len()];
        out.push((Content::kv(&a), d(&[gone]), Content::kv(&b[..4])));
    }
    out
}

/// router-level slab of a small dimension: (first, second) vectors of emb:doc; emb:gone is deleted, emb:new re-uses its slot
fn small_pairs() -> Vec<(Vec<f32>, Vec<f32>)> {
    vec![(vec![1.0, 0.5, -1.0, 0.25], vec![0.0, 0.0, 0.0, 1.0]), (vec![0.0, 0.0, 0.0, 1.0], vec![1.0, 0.5, -1.0, 0.25]), (vec![1.0, 0.5, -1.0, 0.25], vec![0.0; 4]),
         (vec![0.0; 4], vec![3.4e38, -3.4e38, 0.0, 0.0]), (vec![0.25, 2.0, -1.0, 8.0], vec![8.0, -1.0, 2.0, 0.25]),
         (vec![0.0, 0.0, 0.0, 1.0, 2.0, 3.0, -4.0, 0.5], vec![0.0, 0.0, 0.0, 0.0, 0.0, 0.0, -4.0, 0.5]), (vec![0.0, 0.0, 0.0, 0.0, 0.0, 0.0, -4.0, 0.5], vec![1.0, 2.0, 3.0, 4.0, 5.0, 6.0, 7.0, 8.0])]
}

fn resnapshot_small(e1: &[f32], e2: &[f32], how: &str, dir: &Path) -> Result<(), String> {
    if e1.len() != e2.len() || e1.is_empty() { return Err("malformed case".into()); }
    let cfg = SlabRouterConfig { embedding_dim: e1.len(), ..SlabRouterConfig::default() };
    let r = SlabRouter::with_config(&cfg);
    let put = |k: &str, e: &[f32], t: &str| {
        let mut d = TensorData::new();
        d.set("_embedding", TensorValue::Vector(e.to_vec()));
        d.set("title", TensorValue::Scalar(ScalarValue::String(t.into())));
        r.put(k, d).map_err(|x| format!("put({k}) = Err({x})"))
    };
    let rev = |e: &[f32]| e.iter().rev().copied().collect::<Vec<f32>>();
    put("emb:doc", e1, "doc")?;
    put("emb:gone", &rev(e1), "gone")?;
    put("emb:keep", e2, "keep")?;
    let p = dir.join("re_small.snap");
    let _ = std::fs::remove_file(&p);
    let snap = |what: &str| -> Result<Option<Vec<u8>>, String> {
        guard(what, || match how {
            "bytes" => r.to_bytes().map(Some).map_err(|x| format!("{what} to_bytes = Err({x})")),
            "file_raw" => tensor_store::snapshot::save_v3_uncompressed(&r, &p).map(|()| None).map_err(|x| format!("{what} save = Err({x})")),
            _ => r.save_to_file(&p).map(|()| None).map_err(|x| format!("{what} save = Err({x})")),
        })
    };
    snap("first")?;
    put("emb:doc", e2, "doc v2")?;
    r.delete("emb:gone").map_err(|x| format!("harness: delete = Err({x})"))?;
    put("emb:new", &rev(e2), "new")?;
    let c = Content::default();
    let cur = view(&r, None, &c);
    if !cur.contains_key("embslab/\"emb:new\"") || cur.contains_key("embslab/\"emb:gone\"") { return Err("harness: slab does not hold the expected keys".into()); }
    let bytes = snap("second")?;
    let r2 = guard("load", || match &bytes {
        Some(b) => SlabRouter::from_bytes(b).map_err(|x| format!("from_bytes = Err({x})")),
        None => SlabRouter::load_from_file(&p).map_err(|x| format!("load = Err({x})")),
    })?;
    verdict(diff(&cur, &view(&r2, None, &c), false)).map_err(|e| format!("loaded second snapshot differs from the current router: {e}"))
}

// ---------------------------------------------------------------- domain

fn contents(tier: Tier) -> Vec<Content> {
    let mut out = vec![Content::default()];
    for v in VALS { out.push(Content::kv(&[("k", "f", v)])); }
    for k in &KEYS[1..] { for v in ["null", "int_min", "f_nan", "str_uni", "bytes_mix", "vec_dense", "sparse", "ptrs"] { out.push(Content::kv(&[(k, "f", v)])); } }
    // field names that steer the quantising format's heuristics
    for (k, f, v) in [("k", "ids", "vec_unsorted_ints"), ("k", "ids", "vec_dense"), ("k", "user_ids", "vec_sorted_ints"), ("k", "vector", "vec_dense"), ("k", "_embedding", "vec_long300"),
                      ("emb:e1", "vector", "vec_long300"), ("emb:e1", "vector", "sparse"), ("emb:e1", "_embedding", "vec_dense"), ("k", "", "int_0"), ("k", "\u{e9}", "str_uni")] {
        out.push(Content::kv(&[(k, f, v)]));
    }
    // <= 5 entries: rolling windows over the catalogue, keys cycling through all key classes
    for w in 0..VALS.len() {
        if tier == Tier::Quick && w % 3 != 0 { continue; }
        let e: Vec<(&str, &str, &str)> = (0..5).map(|i| (KEYS[(w + i) % KEYS.len()], "f", VALS[(w + i * 7) % VALS.len()])).collect();
        out.push(Content::kv(&e));
    }
    // one entity with every value kind as a field, next to a second key
    let mut all: Vec<(&str, &str, &str)> = VALS.iter().map(|v| ("user:1", *v, *v)).collect();
    all.push(("k", "f", "int_m1"));
    out.push(Content::kv(&all));
    // data classes beyond key/value
    let rich = [("k", "f", "str_uni"), ("user:1", "n", "int_min"), ("user:1", "v", "vec_dense"), ("node:7", "p", "ptrs"), ("emb:e1", "vector", "sparse")];
    out.push(Content { table: true, ..Default::default() });
    out.push(Content { engines: true, ..Default::default() });
    for e in 1..=4u8 { out.push(Content { emb: e, ..Default::default() }); }
    out.push(Content { table: true, emb: 2, engines: true, ..Content::kv(&rich) });
    out.push(Content { graph: true, ..Default::default() });
    out.push(Content { blob: true, ..Default::default() });
    out.push(Content { table: true, graph: true, blob: true, emb: 1, engines: true, ..Content::kv(&rich) });
    out
}

fn atomic_pairs(tier: Tier) -> Vec<(Content, Content)> {
    let small = Content::kv(&[("k", "f", "str_ascii"), ("user:1", "n", "int_min")]);
    let other = Content::kv(&[("k", "f", "f_nan"), ("z", "b", "bytes_mix"), ("emb:e1", "vector", "vec_dense")]);
    // no engine-written data here: it carries wall-clock timestamps, which would make the file length (= number of cut offsets) vary between runs
    let mut p = vec![(small.clone(), other.clone()), (Content { table: true, emb: 2, ..other.clone() }, Content { table: true, ..small.clone() })];
    if tier == Tier::Thorough {
        p.push((Content::default(), small.clone()));
        p.push((Content { table: true, emb: 1, ..small }, Content { emb: 3, ..other }));
    }
    p
}

// ---------------------------------------------------------------- run / replay

pub fn run(tier: Tier, seed: u64) -> Report {
    let th = tier == Tier::Thorough;
    let cs = contents(tier);
    let mut rep = Report::new("c07_snapshot",
        &format!("{} store contents: empty; every one of {} value kinds (null, bools, int extremes, f64 NaN/+-inf/-0/denormal, strings incl. unicode/NUL/300 chars, bytes, dense/special/300-dim vectors, sparse vectors, pointers) alone under a plain key; 8 kinds under each of 9 key classes (plain, user:, emb:, node:, edge:, table:, _blob:, empty, unicode); field names ids/_ids/vector/_embedding; rolling 5-entry stores; one entity with all kinds; relational table (6 column types, 2 rows, NULLs); engine-written table/2 nodes/1 edge/1 embedding; 384-dim slab embeddings (ramp, half-zero, half-zero+1e-7, pseudo-random); graph-tensor edge; blob chunks; all combined - each through 5 formats (bytes via TensorStore, bytes via SlabRouter, file zstd, file raw, quantising file with default config); 8 four-dim slab embeddings x 3 formats; crash states: {} old/new pair(s) x 3 file formats x (temp sibling cut at EVERY byte offset, renamed, save over a stale temp at 3 offsets, main file cut at EVERY byte offset); failing saves: the temp sibling is a symlink to /dev/full, (old,new) = the crash pairs in both orders, old + empty new, no old file, x 4 file formats (zstd, raw, quantising, SlabRouter::save_to_file); resnapshot: {} populate / snapshot / overwrite-delete-insert / snapshot / load scripts per format x 6 formats (5 above + SlabRouter::save_to_file) and {} vector pairs x 3 formats on a router whose slab dimension is 4 / 8{}",
                 cs.len(), VALS.len(), atomic_pairs(tier).len(), resnapshot_contents(Fmt::FileZstd, tier).len(), small_pairs().len(), if th { "; plus 300 seeded random stores of <= 6 entries and one 10^4-entry store (not exhaustive)" } else { "" }),
        true,
        &["TensorStore::snapshot_bytes", "TensorStore::restore_from_bytes", "SlabRouter::to_bytes", "SlabRouter::from_bytes", "TensorStore::save_snapshot", "TensorStore::load_snapshot",
          "snapshot::save_v3_uncompressed", "snapshot::load", "SlabRouter::put", "SlabRouter::delete", "TensorStore::save_snapshot_compressed", "TensorStore::load_snapshot_compressed", "SlabRouter::save_to_file", "SlabRouter::load_from_file"]);
    rep.declare(OB_BYTES, "TensorStore::snapshot_bytes/restore_from_bytes, SlabRouter::to_bytes/from_bytes");
    rep.declare(OB_BYTES_SLABS, "same, stores with graph-tensor / blob-log data");
    rep.declare(OB_FILE, "TensorStore::save_snapshot/load_snapshot, snapshot::save_v3_uncompressed");
    rep.declare(OB_FILE_SLABS, "same, stores with graph-tensor / blob-log data");
    rep.declare(OB_QUANT, "TensorStore::save_snapshot_compressed/load_snapshot_compressed (key/field data)");
    rep.declare(OB_QUANT_SLABS, "same, stores with tables / graph / blobs / engine data");
    rep.declare(OB_THRESH, "EmbeddingSlab::snapshot/restore via bytes and files: dimension 4 (< TT_MIN_DIMENSION, router level) and 384 (>= it, TensorStore level)");
    rep.declare(OB_ATOMIC, "snapshot::load / load_snapshot_compressed on crash pre-states");
    rep.declare(OB_TRUNC, "snapshot::load / load_snapshot_compressed on a truncated file");
    rep.declare(OB_SAVE_ERR, "save_snapshot / save_v3_uncompressed / save_snapshot_compressed / SlabRouter::save_to_file when every write to the temp file fails");
    rep.declare(OB_RESNAP, "every snapshot format, second snapshot of a store that was overwritten in place after the first");
    let dir = tmpdir("c07_snapshot");

    let mut failed_kinds: BTreeMap<&'static str, Vec<String>> = BTreeMap::new();
    let mut one = |rep: &mut Report, c: &Content, fmt: Fmt, dir: &Path| {
        let r = roundtrip(c, fmt, dir);
        rep.eval(!c.entries.is_empty() || c.beyond_kv() || c.emb > 0);
        if r.is_err() && c.entries.len() == 1 && !c.beyond_kv() && c.emb == 0 && c.entries[0].0 == "k" && c.entries[0].1 == "f" { failed_kinds.entry(fmt.name()).or_default().push(c.entries[0].2.clone()); }
        rep.check(fmt.ob(c), r.is_ok(), &|| json!({"kind": "roundtrip", "format": fmt.name(), "content": c.to_json()}), &|| r.clone().err().unwrap_or_default());
    };
    for c in &cs { for fmt in FMTS { one(&mut rep, c, fmt, &dir); } }
    rep.sample(json!({"kind": "roundtrip", "format": "file_zstd", "content": cs[cs.len() - 4].to_json()}));

    for e in small_embeddings() {
        for how in ["bytes", "file_zstd", "file_raw"] {
            let r = threshold_case(&e, how, &dir);
            rep.eval(true);
            rep.check(OB_THRESH, r.is_ok(), &|| json!({"kind": "threshold", "embedding_bits": e.iter().map(|x| x.to_bits()).collect::<Vec<_>>(), "how": how}), &|| r.clone().err().unwrap_or_default());
        }
    }

    for (old, new) in atomic_pairs(tier) {
        for fmt in [Fmt::FileZstd, Fmt::FileRaw, Fmt::Quantised] {
            let case = |state: &str, cut: usize| json!({"kind": "atomic", "format": fmt.name(), "old": old.to_json(), "new": new.to_json(), "state": state, "cut": cut});
            let im = match images(&old, &new, fmt, &dir) {
                Ok(i) => i,
                Err(e) => { rep.check(OB_ATOMIC, false, &|| case("images", 0), &|| format!("real save/load of complete images failed: {e}")); continue; },
            };
            for cut in 0..=im.new_bytes.len() {
                let r = atomic_case(&im, &old, &new, fmt, "tmp_partial", cut, &dir);
                rep.eval(cut > 0);
                rep.check(OB_ATOMIC, r.is_ok(), &|| case("tmp_partial", cut), &|| r.clone().err().unwrap_or_default());
            }
            let r = atomic_case(&im, &old, &new, fmt, "renamed", 0, &dir);
            rep.eval(true);
            rep.check(OB_ATOMIC, r.is_ok(), &|| case("renamed", 0), &|| r.clone().err().unwrap_or_default());
            for cut in [0, im.new_bytes.len() / 2, im.new_bytes.len()] {
                let r = atomic_case(&im, &old, &new, fmt, "save_over_tmp", cut, &dir);
                rep.eval(true);
                rep.check(OB_ATOMIC, r.is_ok(), &|| case("save_over_tmp", cut), &|| r.clone().err().unwrap_or_default());
            }
            for cut in 0..im.old_bytes.len() {
                let r = atomic_case(&im, &old, &new, fmt, "truncated", cut, &dir);
                rep.eval(true);
                rep.check(OB_TRUNC, r.is_ok(), &|| case("truncated", cut), &|| r.clone().err().unwrap_or_default());
            }
            rep.sample(json!({"observation": "snapshot file sizes (bytes)", "format": fmt.name(), "old": im.old_bytes.len(), "new": im.new_bytes.len()}));
        }
    }

    // failing saves (ENOSPC on the temp sibling)
    let mut err_pairs: Vec<(Option<Content>, Content)> = vec![];
    for (old, new) in atomic_pairs(tier) {
        err_pairs.push((Some(old.clone()), new.clone()));
        err_pairs.push((Some(new.clone()), old.clone()));
    }
    if let Some((old, new)) = atomic_pairs(tier).into_iter().next() {
        err_pairs.push((Some(old), Content::default()));
        err_pairs.push((None, new));
    }
    for (old, new) in &err_pairs {
        for fmt in FILE_FMTS {
            let r = save_error_case(old.as_ref(), new, fmt, &dir);
            rep.eval(true);
            rep.check(OB_SAVE_ERR, r.is_ok(), &|| json!({"kind": "save_error", "format": fmt.name(), "old": old.as_ref().map(Content::to_json), "new": new.to_json()}), &|| r.clone().err().unwrap_or_default());
        }
    }
    rep.sample(json!({"kind": "save_error", "format": "file_zstd", "old": err_pairs[0].0.as_ref().map(Content::to_json), "new": err_pairs[0].1.to_json()}));

    // a successful save over the leftover temp file of an interrupted earlier save
    for (_, new) in &err_pairs {
        for fmt in FILE_FMTS {
            for stale in [1usize, 4096, 1 << 20] {
                let r = stale_temp_case(new, fmt, stale, &dir);
                rep.eval(true);
                rep.check(OB_SAVE_ERR, r.is_ok(), &|| json!({"kind": "stale_temp", "format": fmt.name(), "new": new.to_json(), "stale": stale}), &|| r.clone().err().unwrap_or_default());
            }
        }
    }

    // snapshot, overwrite in place, snapshot again
    for fmt in ALL_FMTS {
        for (first, del, second) in resnapshot_contents(fmt, tier) {
            let r = resnapshot_case(&first, &del, &second, fmt, &dir);
            rep.eval(true);
            rep.check(OB_RESNAP, r.is_ok(), &|| json!({"kind": "resnapshot", "format": fmt.name(), "first": first.to_json(), "delete": del, "second": second.to_json()}), &|| r.clone().err().unwrap_or_default());
        }
    }
    for (e1, e2) in small_pairs() {
        for how in ["bytes", "file_zstd", "file_raw"] {
            let r = resnapshot_small(&e1, &e2, how, &dir);
            rep.eval(true);
            rep.check(OB_RESNAP, r.is_ok(), &|| json!({"kind": "resnapshot_small", "how": how, "first_bits": e1.iter().map(|x| x.to_bits()).collect::<Vec<_>>(), "second_bits": e2.iter().map(|x| x.to_bits()).collect::<Vec<_>>()}),
                      &|| r.clone().err().unwrap_or_default());
        }
    }
    {
        let (first, del, second) = resnapshot_contents(Fmt::FileZstd, tier).swap_remove(0);
        rep.sample(json!({"kind": "resnapshot", "format": "file_zstd", "first": first.to_json(), "delete": del, "second": second.to_json()}));
    }

    if th {
        let mut rng = Rng(seed ^ 0xC07);
        for _ in 0..300 {
            let n = 1 + rng.below(6) as usize;
            let e: Vec<(String, String, String)> = (0..n).map(|_| {
                let k = KEYS[rng.below(KEYS.len() as u64) as usize];
                (if rng.below(2) == 0 { k.to_string() } else { format!("{k}{}", rng.below(3)) }, ["f", "g", "ids", "vector"][rng.below(4) as usize].to_string(), VALS[rng.below(VALS.len() as u64) as usize].to_string())
            }).collect();
            let c = Content { entries: e, table: rng.below(4) == 0, emb: if rng.below(4) == 0 { 1 + rng.below(3) as u8 } else { 0 }, engines: rng.below(8) == 0, ..Default::default() };
            for fmt in FMTS { one(&mut rep, &c, fmt, &dir); }
        }
        // one large store (10^4 entries)
        let big: Vec<(String, String, String)> = (0..10_000).map(|i| (format!("{}{i}", ["k", "user:", "emb:", "node:"][i % 4]), "f".to_string(), VALS[i % VALS.len()].to_string())).collect();
        let c = Content { entries: big, table: true, ..Default::default() };
        for fmt in FMTS {
            let r = roundtrip(&c, fmt, &dir);
            rep.eval(true);
            rep.check(fmt.ob(&c), r.is_ok(), &|| json!({"kind": "roundtrip_big", "format": fmt.name(), "entries": 10_000}), &|| r.clone().err().unwrap_or_default());
        }
    }
    rep.sample(json!({"observation": "value kinds that do not survive alone under key \"k\", field \"f\"", "by_format": failed_kinds}));
    let _ = std::fs::remove_dir_all(&dir);
    rep
}

pub fn replay(ob: &str, case: &Value) -> Result<String, String> {
    let dir: PathBuf = tmpdir("c07_snapshot_replay");
    let r = match case["kind"].as_str().unwrap_or("") {
        "threshold" => {
            let e: Vec<f32> = case["embedding_bits"].as_array().map(|a| a.iter().map(|x| f32::from_bits(x.as_u64().unwrap_or(0) as u32)).collect()).unwrap_or_default();
            threshold_case(&e, case["how"].as_str().unwrap_or("bytes"), &dir)
        },
        "atomic" => {
            let (old, new) = (Content::parse(&case["old"]), Content::parse(&case["new"]));
            let fmt = Fmt::parse(case["format"].as_str().unwrap_or(""));
            images(&old, &new, fmt, &dir).and_then(|im| atomic_case(&im, &old, &new, fmt, case["state"].as_str().unwrap_or(""), case["cut"].as_u64().unwrap_or(0) as usize, &dir))
        },
        "save_error" => {
            let old = if case["old"].is_null() { None } else { Some(Content::parse(&case["old"])) };
            save_error_case(old.as_ref(), &Content::parse(&case["new"]), Fmt::parse(case["format"].as_str().unwrap_or("")), &dir)
        },
        "stale_temp" => stale_temp_case(&Content::parse(&case["new"]), Fmt::parse(case["format"].as_str().unwrap_or("")), case["stale"].as_u64().unwrap_or(4096) as usize, &dir),
        "resnapshot" => {
            let del: Vec<String> = case["delete"].as_array().map(|a| a.iter().filter_map(|x| x.as_str().map(str::to_string)).collect()).unwrap_or_default();
            resnapshot_case(&Content::parse(&case["first"]), &del, &Content::parse(&case["second"]), Fmt::parse(case["format"].as_str().unwrap_or("")), &dir)
        },
        "resnapshot_small" => {
            let bits = |v: &Value| -> Vec<f32> { v.as_array().map(|a| a.iter().map(|x| f32::from_bits(x.as_u64().unwrap_or(0) as u32)).collect()).unwrap_or_default() };
            resnapshot_small(&bits(&case["first_bits"]), &bits(&case["second_bits"]), case["how"].as_str().unwrap_or("bytes"), &dir)
        },
        "roundtrip_big" => {
            let big: Vec<(String, String, String)> = (0..10_000).map(|i| (format!("{}{i}", ["k", "user:", "emb:", "node:"][i % 4]), "f".to_string(), VALS[i % VALS.len()].to_string())).collect();
            roundtrip(&Content { entries: big, table: true, ..Default::default() }, Fmt::parse(case["format"].as_str().unwrap_or("")), &dir)
        },
        _ => roundtrip(&Content::parse(&case["content"]), Fmt::parse(case["format"].as_str().unwrap_or("")), &dir),
    };
    let _ = std::fs::remove_dir_all(&dir);
    let _ = ob;
    r.map(|()| "holds".to_string())
}
