//! C03 (bounded): `DistributedTxCoordinator::force_resolve` as a decision-taking call.  The V unit
//! C03.coord states `C03.force.no_reversal` over the durable record sequence; this set attaches
//! concrete call sequences on the real coordinator: every pre-state reachable with
//! {begin; k Yes votes (k = 0..=2 of 2 shards); optionally a No vote; optionally recover() to reach
//! Committing} followed by force_resolve(tx, commit) for both values of `commit`.
//!
//!   C03.force.no_reversal   a transaction whose decision is taken (phase Committing / Aborting) is never
//!                           resolved the other way: the call must be refused
//!   C03.force.needs_all_yes a commit is forced only when every participant voted yes
use crate::fw::{Report, Tier};
use serde_json::{json, Value};
use tensor_chain::{
    ConsensusConfig, ConsensusManager, DistributedTxConfig, DistributedTxCoordinator, PrepareRequest, PrepareVote,
    Transaction, TxPhase,
};
use tensor_store::SparseVector;

const O_REV: &str = "C03.force.no_reversal";
const O_YES: &str = "C03.force.needs_all_yes";

fn new_coord() -> DistributedTxCoordinator {
    // a long timeout: recover() must see the transaction as live
    let cfg = DistributedTxConfig { prepare_timeout_ms: 3_600_000, ..DistributedTxConfig::default() };
    DistributedTxCoordinator::new(ConsensusManager::new(ConsensusConfig::default()), cfg)
}

/// pre: "yes<k>" (k yes votes), "yes1no" (one yes, one no), "committing" (2 yes + recover())
fn build(pre: &str) -> Result<(DistributedTxCoordinator, u64, TxPhase), String> {
    let c = new_coord();
    let tx = c.begin(&"coord".to_string(), &[0, 1]).map_err(|e| format!("begin: {e:?}"))?;
    let id = tx.tx_id;
    let yes = |s: usize| -> PrepareVote {
        let mut emb = vec![0.0f32; 2];
        emb[s] = 1.0;
        c.handle_prepare(&PrepareRequest {
            tx_id: id, coordinator: "coord".to_string(),
            operations: vec![Transaction::Put { key: format!("k{s}"), data: vec![s as u8] }],
            delta_embedding: SparseVector::from_dense(&emb), timeout_ms: 3_600_000,
        })
    };
    let nyes = match pre { "yes0" => 0, "yes1" | "yes1no" => 1, _ => 2 };
    for s in 0..nyes {
        let v = yes(s);
        if !matches!(v, PrepareVote::Yes { .. }) { return Err(format!("harness: prepare of a free key voted {v:?}")); }
        c.record_vote(id, s, v).map_err(|e| format!("record_vote: {e:?}"))?;
    }
    if pre == "yes1no" {
        c.record_vote(id, 1, PrepareVote::No { reason: "no".to_string() }).map_err(|e| format!("record_vote: {e:?}"))?;
    }
    if pre == "committing" { let _ = c.recover(); }
    let phase = c.get(id).map(|t| t.phase).ok_or("harness: transaction vanished")?;
    let want = match pre { "yes0" | "yes1" => TxPhase::Preparing, "yes2" => TxPhase::Prepared, "yes1no" => TxPhase::Aborting, _ => TxPhase::Committing };
    if phase != want { return Err(format!("harness: pre-state {pre} has phase {phase:?}, expected {want:?}")); }
    Ok((c, id, phase))
}

fn eval(pre: &str, commit: bool) -> Vec<(&'static str, bool, String)> {
    let mut out = vec![];
    let (c, id, phase) = match build(pre) { Ok(x) => x, Err(e) => { out.push((O_REV, false, e)); return out; } };
    let r = c.force_resolve(id, commit);
    let gone = c.get(id).is_none();
    match (phase, commit) {
        (TxPhase::Committing, false) =>
            out.push((O_REV, r.is_err() && !gone, format!("phase Committing (commit decision taken): force_resolve(tx, false) = {r:?}, transaction still pending afterwards: {}", !gone))),
        (TxPhase::Aborting, true) =>
            out.push((O_REV, r.is_err() && !gone, format!("phase Aborting (a participant voted no): force_resolve(tx, true) = {r:?}, transaction still pending afterwards: {}", !gone))),
        (TxPhase::Preparing, true) =>
            out.push((O_YES, r.is_err() && !gone, format!("phase Preparing with {pre} of 2 participants: force_resolve(tx, true) = {r:?} (commit without every yes vote)"))),
        _ => out.push((O_REV, r.is_ok() && gone, format!("phase {phase:?}, force_resolve(tx, {commit}) = {r:?}, removed: {gone}"))),
    }
    out
}

const PRES: [&str; 5] = ["yes0", "yes1", "yes2", "yes1no", "committing"];

pub fn run(_tier: Tier, _seed: u64) -> Report {
    let mut rep = Report::new("c03_force",
        "pre-states {begin + 0/1/2 yes votes of 2 participants; 1 yes + 1 no; 2 yes + recover() = Committing} x force_resolve(tx, commit in {true,false}) on a real coordinator",
        true, &["DistributedTxCoordinator::force_resolve"]);
    rep.declare(O_REV, "DistributedTxCoordinator::force_resolve");
    rep.declare(O_YES, "DistributedTxCoordinator::force_resolve");
    for pre in PRES {
        for commit in [true, false] {
            let res = eval(pre, commit);
            rep.eval(true);
            for (ob, ok, detail) in res {
                rep.check(ob, ok, &|| json!({"pre": pre, "commit": commit}), &|| detail.clone());
            }
        }
    }
    rep.sample(json!({"pre": "committing", "commit": false}));
    rep
}

pub fn replay(ob: &str, case: &Value) -> Result<String, String> {
    let pre = case["pre"].as_str().unwrap_or("yes2").to_string();
    let commit = case["commit"].as_bool().unwrap_or(true);
    for (o, ok, detail) in eval(&pre, commit) {
        if o == ob && !ok { return Err(detail); }
    }
    Ok("force_resolve respected the decision".to_string())
}
