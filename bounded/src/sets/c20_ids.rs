//! C20 (bounded pair of the V unit C20.ids): id-list codec on the natively compiled functions.
//! Domain: every list of length <= 4 (quick) / 5 (thorough) over the alphabet
//! {0, 1, 2, 127, 128, 2^32, u64::MAX-1, u64::MAX}; plus seeded random lists (thorough).
use crate::fw::{no_panic, Report, Rng, Tier};
use serde_json::{json, Value};
use tensor_compress::{compress_ids, decompress_ids, delta_decode, delta_encode, varint_decode, varint_encode};

const ALPHA: [u64; 8] = [0, 1, 2, 127, 128, 1 << 32, u64::MAX - 1, u64::MAX];

fn check_one(rep: &mut Report, ids: &[u64]) {
    let sorted = ids.windows(2).all(|w| w[0] <= w[1]);
    rep.eval(ids.len() >= 2 && !sorted);
    let case = || json!({"ids": ids.iter().map(|x| x.to_string()).collect::<Vec<_>>()});
    let got = no_panic(|| decompress_ids(&compress_ids(ids)));
    rep.check("C20.ids.roundtrip_all", got.as_deref() == Ok(ids), &case,
              &|| format!("decompress_ids(compress_ids({ids:?})) = {got:?}"));
    let d = no_panic(|| delta_decode(&delta_encode(ids)));
    rep.check("C20.delta.roundtrip_all", d.as_deref() == Ok(ids), &case, &|| format!("delta_decode(delta_encode({ids:?})) = {d:?}"));
    let v = no_panic(|| varint_decode(&varint_encode(ids)));
    rep.check("C20.varint.roundtrip", v.as_deref() == Ok(ids), &case, &|| format!("varint_decode(varint_encode({ids:?})) = {v:?}"));
}

fn check_bytes(rep: &mut Report, bytes: &[u8]) {
    rep.eval(bytes.len() >= 2);
    let case = || json!({"bytes": bytes});
    let r = no_panic(|| decompress_ids(bytes));
    let ok = matches!(&r, Ok(v) if v.len() <= bytes.len());
    rep.check("C20.ids.decompress_total", ok, &case, &|| format!("decompress_ids({bytes:?}) = {r:?}"));
}

pub fn run(tier: Tier, seed: u64) -> Report {
    let maxlen = if tier == Tier::Thorough { 5 } else { 4 };
    let mut rep = Report::new("c20_ids",
        &format!("all u64 lists of length <= {maxlen} over {{0,1,2,127,128,2^32,MAX-1,MAX}}; all byte strings of length <= 2 and all 3-byte strings over 9 bytes, as decoder input{}",
                 if tier == Tier::Thorough { "; plus 20000 seeded random lists/byte strings (not exhaustive)" } else { "" }),
        true, &["tensor_compress::compress_ids", "decompress_ids", "delta_encode", "delta_decode", "varint_encode", "varint_decode"]);
    for o in ["C20.ids.roundtrip_all", "C20.delta.roundtrip_all", "C20.varint.roundtrip", "C20.ids.decompress_total"] { rep.declare(o, "tensor_compress::delta"); }
    let mut cur: Vec<u64> = vec![];
    fn rec(rep: &mut Report, cur: &mut Vec<u64>, maxlen: usize) {
        check_one(rep, cur);
        if cur.len() == maxlen { return; }
        for a in ALPHA { cur.push(a); rec(rep, cur, maxlen); cur.pop(); }
    }
    rec(&mut rep, &mut cur, maxlen);
    rep.sample(json!({"ids": ["5", "3"]}));
    // decoder totality on arbitrary bytes
    for a in 0..=255u8 { check_bytes(&mut rep, &[a]); for b in 0..=255u8 { check_bytes(&mut rep, &[a, b]); } }
    let bs = [0u8, 1, 0x7f, 0x80, 0x81, 0xfe, 0xff, 0x40, 0xc0];
    for a in bs { for b in bs { for c in bs { check_bytes(&mut rep, &[a, b, c]); } } }
    check_bytes(&mut rep, &[0xff; 12]);
    check_bytes(&mut rep, &[0xff, 0xff, 0xff, 0xff, 0xff, 0xff, 0xff, 0xff, 0xff, 0xff, 0x01]);
    if tier == Tier::Thorough {
        let mut rng = Rng(seed ^ 0xC20);
        for _ in 0..20000 {
            let n = rng.below(12) as usize;
            let ids: Vec<u64> = (0..n).map(|_| if rng.below(3) == 0 { ALPHA[rng.below(8) as usize] } else { rng.next() >> rng.below(64) }).collect();
            check_one(&mut rep, &ids);
            let m = rng.below(24) as usize;
            let by: Vec<u8> = (0..m).map(|_| rng.next() as u8).collect();
            check_bytes(&mut rep, &by);
        }
    }
    rep
}

pub fn replay(ob: &str, case: &Value) -> Result<String, String> {
    if let Some(ids) = case.get("ids") {
        let ids: Vec<u64> = ids.as_array().unwrap().iter().map(|v| v.as_str().unwrap().parse().unwrap()).collect();
        let got = match ob {
            "C20.delta.roundtrip_all" => delta_decode(&delta_encode(&ids)),
            "C20.varint.roundtrip" => varint_decode(&varint_encode(&ids)),
            _ => decompress_ids(&compress_ids(&ids)),
        };
        if got == ids { Ok(format!("{ids:?} round-trips")) } else { Err(format!("input {ids:?} decodes to {got:?}")) }
    } else {
        let bytes: Vec<u8> = case["bytes"].as_array().unwrap().iter().map(|v| v.as_u64().unwrap() as u8).collect();
        match no_panic(|| decompress_ids(&bytes)) {
            Ok(v) if v.len() <= bytes.len() => Ok(format!("{} values", v.len())),
            r => Err(format!("decompress_ids({bytes:?}) = {r:?}")),
        }
    }
}
