//! C08 (bounded): rolling back to a checkpoint restores exactly the checkpointed database.
//!
//! One TensorStore is shared by a RelationalEngine, a GraphEngine, a VectorEngine and plain
//! key/value entries.  A *case* is a JSON value (kind, driver, pre-state subset, mutation script,
//! checkpoint indices); `eval_case` rebuilds everything from scratch, so `run` and `replay` evaluate
//! the very same predicate.
//!
//! Drivers
//!   restore : `TensorStore::{snapshot_bytes, restore_from_bytes}` directly
//!   mgr     : `CheckpointManager::{create, rollback, list}`, blobs in the data store (the wiring of
//!             `QueryRouter::init_blob` and of the crate's own tests); engines through their API
//!   mgr_sep : the same with the blob store on its own TensorStore
//!   router  : `QueryRouter::execute_parsed("CHECKPOINT 'n'" / "ROLLBACK TO 'n'" / "CHECKPOINTS")`,
//!             every statement as text (auto-checkpoints and confirmation switched off)
//!
//! View = every read of a fixed probe universe rendered canonically: tables {t,u,w} (schema, all
//! rows, row_count, equality select [hash index when present]), list_tables, node 1..5 / edge 1..3
//! (get, neighbors x3 directions, edges_of), node/edge counts and id sets, embeddings {e1,e2,post}
//! + list_keys + count + search_similar, point reads of the kv / cache keys, the full key scan and
//! the value of every key.  The router driver adds the text probes SELECT * (t,u,w), SELECT .. WHERE,
//! SHOW TABLES, NODE GET, EDGE GET, NEIGHBORS (3 directions), EMBED GET, SIMILAR.
//!
//! Obligations
//!   C08.restore.view        view after restore_from_bytes == view at snapshot_bytes (in place and,
//!                           with fresh = true, into a new store read by new engines)
//!   C08.restore.slabs       same, bit-exact, for plain store entries whose value lives in the embedding
//!                           slab (`emb:` key with a 384-d `_embedding` field)
//!   C08.rollback.queries    view after rollback == view at checkpoint, for every rollback in `cps`
//!                           order and `cycles` checkpoint/rollback cycles; after each rollback an
//!                           insert / node / embed / put succeeds and is visible
//!   C08.rollback.derived    same for reads answered from engine-resident derived structures (graph
//!                           label / edge-type index incl. the text statement AGGREGATE NODE PROPERTY ..
//!                           BY LABEL, relational B-tree index range selects)
//!   C08.rollback.counters   same for RelationalEngine::table_count
//!   C08.retention           with max_checkpoints = n, after n+k creates exactly the newest n are listed
//!                           (checkpoint names unique, and all checkpoints sharing one name)
//!   C08.retention.rollback  every listed checkpoint rolls back (Ok), satisfies rollback.queries' view
//!                           equality and leaves the database usable
//!   C08.rollback.repeat     a checkpoint that was rolled back to, and every checkpoint listed before
//!                           that rollback, is still listed and can be rolled back to afterwards
//!
//!   C08.restore.store_variants   the raw-store restore clause over EVERY public TensorStore constructor
//!                           (kind "variants", see `VARIANTS`): every probe of the engine view plus get / exists
//!                           of a fixed key universe, scan / scan_count / scan_filter_map of fixed prefixes and
//!                           len after restore_from_bytes == the same probes at snapshot_bytes, in place (after
//!                           further writes / deletes / clear) and into a fresh store of each variant; point
//!                           lookups and scans agree with each other; keys written after the restore read back,
//!                           are listed, can be overwritten and deleted (and restored keys too)
//!   C08.restore.filter_unseen    the same clause for the input class "the destination store has a Bloom filter
//!                           that has not seen the snapshot's keys" (fresh store with a filter, or `clear` after
//!                           the snapshot); a case belongs to this obligation by its INPUT, never by its outcome
//!   C08.rollback.choice_by_name  (kind "choice") >= 3 retained checkpoints with distinct database states whose
//!                           NAMES are related (proper prefix, case only, spaces, quotes, > 28 chars with a common
//!                           28-char prefix, a name equal to / a prefix of another checkpoint's id text), every
//!                           creation order; ROLLBACK by name and, as a control, by id must give the view recorded
//!                           at exactly the checkpoint the text designates (when a text is the id of one
//!                           checkpoint and the name of another: the view of one of those two).  Driver mgr_sep:
//!                           every target in turn in one world; driver router (text, blobs inside the data
//!                           store): one rollback per world.  Two checkpoints never share a name here.
//!
//! On the tree this was written against restore.view, rollback.queries and retention.rollback hold;
//! restore.slabs (lossy tensor-train snapshot of the embedding slab), rollback.derived / counters
//! (engine-resident indexes and counters are not rebuilt by a rollback), retention (creation time
//! has 1 s resolution, ties broken by hash order) and rollback.repeat (router wiring keeps the
//! checkpoint blobs inside the store that is rolled back) fail.
//!
//! Cost note: every `TensorStore::new` / `restore_from_bytes` fills a 16 MB embedding chunk
//! (~2.5 ms), which bounds the number of cases per tier.
use crate::fw::{tmpdir, Report, Rng, Tier};
use graph_engine::{Direction, GraphEngine, PropertyValue};
use query_router::QueryRouter;
use relational_engine::{Column, ColumnType, Condition, RelationalEngine, Schema, Value as RV};
use serde_json::{json, Value};
use std::collections::HashMap;
use std::sync::Arc;
use tensor_blob::{BlobConfig, BlobStore};
use tensor_checkpoint::{CheckpointConfig, CheckpointManager};
use tensor_store::{ScalarValue, TensorData, TensorStore, TensorValue, WalConfig};
use vector_engine::VectorEngine;

const OB_RESTORE: &str = "C08.restore.view";
const OB_SLABS: &str = "C08.restore.slabs";
const OB_QUERIES: &str = "C08.rollback.queries";
const OB_DERIVED: &str = "C08.rollback.derived";
const OB_COUNTERS: &str = "C08.rollback.counters";
const OB_RETAIN: &str = "C08.retention";
const OB_RETAIN_RB: &str = "C08.retention.rollback";
const OB_REPEAT: &str = "C08.rollback.repeat";
const OB_VARIANTS: &str = "C08.restore.store_variants";
const OB_UNSEEN: &str = "C08.restore.filter_unseen";
const OB_CHOICE: &str = "C08.rollback.choice_by_name";

/// mutation alphabet; 0..11 is the stated domain, 11..14 are overwrite variants (update in place)
const OPS: [&str; 14] = [
    "ins_row", "del_row", "drop_t", "create_u", "add_node", "del_edge", "del_node", "put_emb", "del_emb", "put_key", "del_key",
    "upd_row", "upd_emb", "upd_key",
];
const BASE_OPS: usize = 11;

type View = Vec<(String, String)>;

struct Outcome { ob: &'static str, ok: bool, detail: String, nontrivial: bool }

// ---------------------------------------------------------------------------------------------
// world
// ---------------------------------------------------------------------------------------------

enum Cp {
    None,
    Mgr { mgr: CheckpointManager, rt: tokio::runtime::Runtime },
    Router,
}

struct World {
    store: TensorStore,
    rel: Option<Arc<RelationalEngine>>,
    graph: Option<Arc<GraphEngine>>,
    vec: Option<Arc<VectorEngine>>,
    router: Option<QueryRouter>,
    cp: Cp,
    post_seq: std::cell::Cell<i64>,
    /// raw key writes go through put_durable / delete_durable (WAL-backed store variants)
    durable: bool,
}

/// a string literal of the statement syntax: single quotes, embedded quote doubled, backslash escaped
fn lit(s: &str) -> String { format!("'{}'", s.replace('\\', "\\\\").replace('\'', "''")) }

fn sval(s: &str) -> TensorData {
    let mut t = TensorData::new();
    t.set("v", TensorValue::Scalar(ScalarValue::String(s.to_string())));
    t
}

impl World {
    fn new(driver: &str, max_checkpoints: usize) -> Result<World, String> {
        let store = TensorStore::new();
        let cfg = CheckpointConfig::new().with_max_checkpoints(max_checkpoints).with_auto_checkpoint(false).with_interactive_confirm(false);
        match driver {
            "router" => {
                let mut router = QueryRouter::with_shared_store(store.clone());
                router.init_blob().map_err(|e| format!("init_blob: {e}"))?;
                router.init_checkpoint_with_config(cfg).map_err(|e| format!("init_checkpoint: {e}"))?;
                Ok(World { store, rel: None, graph: None, vec: None, router: Some(router), cp: Cp::Router, post_seq: std::cell::Cell::new(0), durable: false })
            },
            _ => {
                let rel = Arc::new(RelationalEngine::with_store(store.clone()));
                let graph = Arc::new(GraphEngine::with_store(store.clone()));
                let vec = Arc::new(VectorEngine::with_store(store.clone()));
                let cp = if driver == "mgr" || driver == "mgr_sep" {
                    let rt = tokio::runtime::Builder::new_current_thread().build().map_err(|e| e.to_string())?;
                    // "mgr": blobs live in the data store (as in QueryRouter::init_blob and the crate's own tests); "mgr_sep": own store
                    let blob_store = if driver == "mgr" { store.clone() } else { TensorStore::new() };
                    let blob = rt.block_on(BlobStore::new(blob_store, BlobConfig::default())).map_err(|e| format!("blob: {e}"))?;
                    Cp::Mgr { mgr: CheckpointManager::new(Arc::new(tokio::sync::Mutex::new(blob)), cfg), rt }
                } else { Cp::None };
                Ok(World { store, rel: Some(rel), graph: Some(graph), vec: Some(vec), router: None, cp, post_seq: std::cell::Cell::new(0), durable: false })
            },
        }
    }
    /// engines on an existing store (any constructor variant), no checkpoint driver
    fn on_store(store: TensorStore, durable: bool) -> World {
        let rel = Arc::new(RelationalEngine::with_store(store.clone()));
        let graph = Arc::new(GraphEngine::with_store(store.clone()));
        let vec = Arc::new(VectorEngine::with_store(store.clone()));
        World { store, rel: Some(rel), graph: Some(graph), vec: Some(vec), router: None, cp: Cp::None, post_seq: std::cell::Cell::new(0), durable }
    }
    fn kput(&self, k: String, t: TensorData) -> bool { if self.durable { self.store.put_durable(k, t).is_ok() } else { self.store.put(k, t).is_ok() } }
    fn kdel(&self, k: &str) -> bool { if self.durable { self.store.delete_durable(k).is_ok() } else { self.store.delete(k).is_ok() } }
    fn rel(&self) -> &RelationalEngine { match &self.router { Some(r) => r.relational(), None => self.rel.as_ref().unwrap() } }
    fn graph(&self) -> &GraphEngine { match &self.router { Some(r) => r.graph(), None => self.graph.as_ref().unwrap() } }
    fn vec(&self) -> &VectorEngine { match &self.router { Some(r) => r.vector(), None => self.vec.as_ref().unwrap() } }

    /// one statement; text through the router when there is one, engine API otherwise. true = Ok
    fn text(&self, q: &str) -> Result<Value, String> {
        let r = self.router.as_ref().unwrap();
        match r.execute_parsed(q) { Ok(v) => Ok(canon(&serde_json::to_value(&v).unwrap_or(Value::Null))), Err(e) => Err(e.to_string()) }
    }

    fn create_t(&self, rows: u64, idx: bool) -> bool {
        let mut ok = true;
        if self.router.is_some() {
            ok &= self.text("CREATE TABLE t (id INT NOT NULL, name TEXT NOT NULL)").is_ok();
        } else {
            ok &= self.rel().create_table("t", Schema::new(vec![Column::new("id", ColumnType::Int), Column::new("name", ColumnType::String)])).is_ok();
        }
        if idx {
            ok &= self.rel().create_index("t", "name").is_ok();
            ok &= self.rel().create_btree_index("t", "id").is_ok();
        }
        for (i, n) in [(1i64, "a"), (2, "b")].iter().take(rows as usize) { ok &= self.ins_row("t", *i, n); }
        ok
    }
    fn ins_row(&self, t: &str, id: i64, name: &str) -> bool {
        if self.router.is_some() { return self.text(&format!("INSERT INTO {t} (id, name) VALUES ({id}, '{name}')")).is_ok(); }
        self.rel().insert(t, HashMap::from([("id".to_string(), RV::Int(id)), ("name".to_string(), RV::String(name.into()))])).is_ok()
    }
    fn add_node(&self, name: &str) -> Option<u64> {
        if self.router.is_some() {
            let v = self.text(&format!("NODE CREATE person {{ name: '{name}' }}")).ok()?;
            return v.get("Ids")?.get(0)?.as_u64();
        }
        self.graph().create_node("person", HashMap::from([("name".to_string(), PropertyValue::String(name.into()))])).ok()
    }
    fn put_emb(&self, k: &str, v: [f32; 3]) -> bool {
        if self.router.is_some() { return self.text(&format!("EMBED STORE '{k}' [{:?}, {:?}, {:?}]", v[0], v[1], v[2])).is_ok(); }
        self.vec().store_embedding(k, v.to_vec()).is_ok()
    }

    /// the plain key/value class: one entry per TensorStore key class that is reachable only through
    /// put/get (metadata slab, cache ring, embedding slab + entity index via a 384-d `_embedding` field)
    fn put_keys(&self, n: &str, s: &str, x: f32) -> bool {
        let mut e = sval(s);
        e.set("_embedding", TensorValue::Vector((0..384).map(|i| if i % 7 == 0 { x } else { 0.125 }).collect()));
        self.kput(format!("kv:k{n}"), sval(s)) & self.kput(format!("_cache:c{n}"), sval(s)) & self.kput(format!("emb:raw{n}"), e)
    }

    fn build_pre(&self, pre: &Value) -> Result<(), String> {
        let rows = pre["rows"].as_u64().unwrap_or(0);
        let idx = pre["idx"].as_bool().unwrap_or(false);
        if rows > 0 && !self.create_t(rows, idx) { return Err("pre-state: table t".into()); }
        if pre["graph"].as_bool().unwrap_or(false) {
            let a = self.add_node("n1").ok_or("pre-state: node")?;
            let b = self.add_node("n2").ok_or("pre-state: node")?;
            let ok = if self.router.is_some() { self.text(&format!("EDGE CREATE {a} -> {b} : knows")).is_ok() }
                     else { self.graph().create_edge(a, b, "knows", HashMap::new(), true).is_ok() };
            if !ok || (a, b) != (1, 2) { return Err(format!("pre-state: edge {a}->{b}")); }
        }
        if pre["emb"].as_bool().unwrap_or(false) && !self.put_emb("e1", [1.0, 2.0, 3.0]) { return Err("pre-state: embedding".into()); }
        if pre["kv"].as_bool().unwrap_or(false) && !self.put_keys("1", "one", 0.25) { return Err("pre-state: kv".into()); }
        Ok(())
    }

    /// apply one mutation; an Err from the engine is a legitimate outcome (e.g. table absent)
    fn apply(&self, op: &str) -> bool {
        let txt = self.router.is_some();
        match op {
            "ins_row" => self.ins_row("t", 9, "z"),
            "del_row" => if txt { self.text("DELETE FROM t WHERE id = 1").is_ok() } else { self.rel().delete_rows("t", Condition::Eq("id".into(), RV::Int(1))).is_ok() },
            "upd_row" => if txt { self.text("UPDATE t SET name = 'upd' WHERE id = 1").is_ok() }
                         else { self.rel().update("t", Condition::Eq("id".into(), RV::Int(1)), HashMap::from([("name".to_string(), RV::String("upd".into()))])).is_ok() },
            "drop_t" => if txt { self.text("DROP TABLE t").is_ok() } else { self.rel().drop_table("t").is_ok() },
            "create_u" => {
                let ok = if txt { self.text("CREATE TABLE u (id INT NOT NULL, name TEXT NOT NULL)").is_ok() }
                         else { self.rel().create_table("u", Schema::new(vec![Column::new("id", ColumnType::Int), Column::new("name", ColumnType::String)])).is_ok() };
                ok && self.ins_row("u", 7, "u7")
            },
            "add_node" => self.add_node("n3").is_some(),
            "del_edge" => if txt { self.text("EDGE DELETE 1").is_ok() } else { self.graph().delete_edge(1).is_ok() },
            "del_node" => if txt { self.text("NODE DELETE 1").is_ok() } else { self.graph().delete_node(1).is_ok() },
            "put_emb" => self.put_emb("e2", [0.0, 1.0, 0.5]),
            "upd_emb" => self.put_emb("e1", [3.0, 2.0, 1.0]),
            "del_emb" => if txt { self.text("EMBED DELETE 'e1'").is_ok() } else { self.vec().delete_embedding("e1").is_ok() },
            "put_key" => self.put_keys("2", "two", 0.5),
            "upd_key" => self.put_keys("1", "uno", 0.75),
            "del_key" => { let a = self.kdel("kv:k1"); let b = self.kdel("_cache:c1"); let c = self.kdel("emb:raw1"); a && b && c },
            // (kind "variants" only) the public delete-everything
            "clear" => { self.store.clear(); true },
            _ => false,
        }
    }

    // ---- checkpoints -------------------------------------------------------------------------
    fn cp_create(&self, name: &str) -> Result<String, String> {
        match &self.cp {
            Cp::Mgr { mgr, rt } => rt.block_on(mgr.create(Some(name), &self.store)).map_err(|e| e.to_string()),
            Cp::Router => {
                let v = self.text(&format!("CHECKPOINT {}", lit(name)))?;
                let s = v.get("Value").and_then(Value::as_str).ok_or_else(|| format!("unexpected CHECKPOINT result {v}"))?;
                s.strip_prefix("Checkpoint created: ").map(str::to_string).ok_or_else(|| format!("unexpected CHECKPOINT result {s}"))
            },
            Cp::None => Err("no checkpoint driver".into()),
        }
    }
    fn cp_rollback(&self, target: &str) -> Result<(), String> {
        match &self.cp {
            Cp::Mgr { mgr, rt } => rt.block_on(mgr.rollback(target, &self.store)).map_err(|e| e.to_string()),
            Cp::Router => self.text(&format!("ROLLBACK TO {}", lit(target))).map(|_| ()),
            Cp::None => Err("no checkpoint driver".into()),
        }
    }
    /// listed checkpoint ids, newest first as reported
    fn cp_list(&self) -> Result<Vec<String>, String> {
        match &self.cp {
            Cp::Mgr { mgr, rt } => rt.block_on(mgr.list(None)).map(|l| l.into_iter().map(|c| c.id).collect()).map_err(|e| e.to_string()),
            Cp::Router => {
                let r = self.router.as_ref().unwrap().execute_parsed("CHECKPOINTS").map_err(|e| e.to_string())?;
                match r { query_router::QueryResult::CheckpointList(l) => Ok(l.into_iter().map(|c| c.id).collect()), o => Err(format!("unexpected CHECKPOINTS result {o:?}")) }
            },
            Cp::None => Err("no checkpoint driver".into()),
        }
    }

    /// listed (id, name) pairs
    fn cp_list_named(&self) -> Result<Vec<(String, String)>, String> {
        match &self.cp {
            Cp::Mgr { mgr, rt } => rt.block_on(mgr.list(None)).map(|l| l.into_iter().map(|c| (c.id, c.name)).collect()).map_err(|e| e.to_string()),
            Cp::Router => {
                let r = self.router.as_ref().unwrap().execute_parsed("CHECKPOINTS").map_err(|e| e.to_string())?;
                match r { query_router::QueryResult::CheckpointList(l) => Ok(l.into_iter().map(|c| (c.id, c.name)).collect()), o => Err(format!("unexpected CHECKPOINTS result {o:?}")) }
            },
            Cp::None => Err("no checkpoint driver".into()),
        }
    }

    // ---- views -------------------------------------------------------------------------------
    fn core_view(&self) -> View { let mut v = engine_view(&self.store, self.rel(), self.graph(), self.vec()); if self.router.is_some() { self.text_view(&mut v); } v }

    fn text_view(&self, v: &mut View) {
        let mut qs: Vec<String> = vec!["SELECT * FROM t".into(), "SELECT * FROM u".into(), "SELECT * FROM w".into(), "SELECT * FROM t WHERE name = 'a'".into(),
            "SHOW TABLES".into(), "EMBED GET 'e1'".into(), "EMBED GET 'e2'".into(), "EMBED GET 'post'".into(),
            "SIMILAR [1.0, 2.0, 3.0] LIMIT 5".into()];
        for i in 1..=5 { qs.push(format!("NODE GET {i}")); }
        for i in 1..=3 { qs.push(format!("EDGE GET {i}")); }
        for i in 1..=3 { for d in ["OUTGOING", "INCOMING", "BOTH"] { qs.push(format!("NEIGHBORS {i} {d}")); } }
        for q in qs { let r = self.text(&q); v.push((format!("q:{q}"), match r { Ok(x) => x.to_string(), Err(e) => format!("Err({e})") })); }
    }

    fn derived_view(&self) -> View {
        let mut v = View::new();
        let g = self.graph();
        v.push(("find_nodes_by_label(person)".into(), format!("{:?}", g.find_nodes_by_label("person").map(|n| sorted(n.iter().map(|x| x.id).collect())).map_err(|e| e.to_string()))));
        v.push(("find_edges_by_type(knows)".into(), format!("{:?}", g.find_edges_by_type("knows").map(|n| sorted(n.iter().map(|x| x.id).collect())).map_err(|e| e.to_string()))));
        v.push(("count_nodes_by_label(person)".into(), format!("{:?}", g.count_nodes_by_label("person").map_err(|e| e.to_string()))));
        let r = self.rel();
        v.push(("select(t, id >= 0)".into(), rows_str(r.select("t", Condition::Ge("id".into(), RV::Int(0))))));
        v.push(("select(t, id < 100)".into(), rows_str(r.select("t", Condition::Lt("id".into(), RV::Int(100))))));
        if self.router.is_some() {
            // a text statement that is answered from the label index
            let q = "AGGREGATE NODE PROPERTY name COUNT BY LABEL person";
            v.push((format!("q:{q}"), match self.text(q) { Ok(x) => x.to_string(), Err(e) => format!("Err({e})") }));
        }
        v
    }

    fn counters_view(&self) -> View { vec![("rel.table_count".into(), self.rel().table_count().to_string())] }

    /// the database stays usable: a subsequent insert / node / embed / put succeeds and is visible
    fn usable(&self) -> Result<(), String> {
        // values unique per call: a later checkpoint may legitimately contain the writes of an earlier call
        let n = self.post_seq.get() + 1;
        self.post_seq.set(n);
        let (rid, tag) = (1000 + n, format!("post{n}"));
        let r = self.rel();
        let t = if r.get_schema("t").is_ok() { "t" } else if r.get_schema("w").is_ok() { "w" } else {
            let ok = if self.router.is_some() { self.text("CREATE TABLE w (id INT NOT NULL, name TEXT NOT NULL)").is_ok() }
                     else { r.create_table("w", Schema::new(vec![Column::new("id", ColumnType::Int), Column::new("name", ColumnType::String)])).is_ok() };
            if !ok { return Err("create table w after rollback failed".into()); }
            "w"
        };
        if !self.ins_row(t, rid, &tag) { return Err(format!("insert into {t} after rollback failed")); }
        let got = r.select(t, Condition::Eq("id".into(), RV::Int(rid))).map_err(|e| format!("select after rollback: {e}"))?;
        if got.len() != 1 || got[0].get("name") != Some(&RV::String(tag.clone())) { return Err(format!("row inserted after rollback not visible: {got:?}")); }
        if !r.select(t, Condition::True).map(|a| a.iter().any(|x| x.get("id") == Some(&RV::Int(rid)))).unwrap_or(false) { return Err("row inserted after rollback missing from full select".into()); }
        let id = self.add_node(&tag).ok_or("node create after rollback failed")?;
        let nd = self.graph().get_node(id).map_err(|e| format!("node created after rollback not readable: {e}"))?;
        if nd.properties.get("name") != Some(&PropertyValue::String(tag.clone())) || !nd.has_label("person") { return Err(format!("node after rollback wrong: {nd:?}")); }
        let ev = [3.0, 2.0, 1.5 + n as f32];
        if !self.put_emb("post", ev) { return Err("embed store after rollback failed".into()); }
        let e = self.vec().get_embedding("post").map_err(|e| format!("embedding stored after rollback not readable: {e}"))?;
        if e != ev.to_vec() { return Err(format!("embedding after rollback = {e:?}")); }
        self.store.put("kv:post", sval(&tag)).map_err(|e| format!("put after rollback: {e}"))?;
        let k = self.store.get("kv:post").map_err(|e| format!("get after rollback: {e}"))?;
        if td_str(&k) != td_str(&sval(&tag)) || !self.store.scan("kv:").contains(&"kv:post".to_string()) { return Err("key put after rollback not visible".into()); }
        Ok(())
    }
}

// ---------------------------------------------------------------------------------------------
// canonical rendering
// ---------------------------------------------------------------------------------------------

fn sorted<T: Ord>(mut v: Vec<T>) -> Vec<T> { v.sort(); v }

/// order-insensitive form of a serialized QueryResult: every array that is a direct member of the
/// top-level enum wrapper is sorted (result sets carry no order contract without ORDER BY)
fn canon(v: &Value) -> Value {
    match v {
        Value::Object(m) => Value::Object(m.iter().map(|(k, x)| (k.clone(), match x {
            Value::Array(a) => { let mut a: Vec<Value> = a.clone(); a.sort_by_key(|e| e.to_string()); Value::Array(a) },
            o => o.clone(),
        })).collect()),
        o => o.clone(),
    }
}

/// exact (bitwise) but short rendering of a value: long vectors as length + FNV-1a of the bit patterns + head
fn tv_str(v: &TensorValue) -> String {
    match v {
        TensorValue::Vector(x) if x.len() > 8 => {
            let h = x.iter().fold(0xcbf2_9ce4_8422_2325u64, |h, f| (h ^ u64::from(f.to_bits())).wrapping_mul(0x0100_0000_01b3));
            format!("Vector(len={}, fnv={h:016x}, head={:?})", x.len(), &x[..4])
        },
        o => format!("{o:?}"),
    }
}

fn td_str(t: &TensorData) -> String {
    let mut f: Vec<String> = t.fields_iter().map(|(k, v)| format!("{k}={}", tv_str(v))).collect();
    f.sort();
    f.join(";")
}

fn rows_str(r: Result<Vec<relational_engine::Row>, relational_engine::RelationalError>) -> String {
    match r {
        Ok(rows) => { let v = sorted(rows.iter().map(|x| format!("#{} {:?}", x.id, x.values)).collect::<Vec<_>>()); format!("Ok({v:?})") },
        Err(e) => format!("Err({e})"),
    }
}

fn props_str(p: &HashMap<String, PropertyValue>) -> String { sorted(p.iter().map(|(k, v)| format!("{k}={v:?}")).collect::<Vec<_>>()).join(",") }

fn engine_view(store: &TensorStore, rel: &RelationalEngine, g: &GraphEngine, ve: &VectorEngine) -> View {
    let mut v = View::new();
    // relational
    v.push(("list_tables".into(), format!("{:?}", sorted(rel.list_tables()))));
    for t in ["t", "u", "w"] {
        v.push((format!("schema({t})"), format!("{:?}", rel.get_schema(t).map_err(|e| e.to_string()))));
        v.push((format!("select({t}, *)"), rows_str(rel.select(t, Condition::True))));
        v.push((format!("select({t}, name = 'a')"), rows_str(rel.select(t, Condition::Eq("name".into(), RV::String("a".into()))))));
        v.push((format!("row_count({t})"), format!("{:?}", rel.row_count(t).map_err(|e| e.to_string()))));
        v.push((format!("table_exists({t})"), rel.table_exists(t).to_string()));
    }
    // graph
    v.push(("node_count".into(), g.node_count().to_string()));
    v.push(("edge_count".into(), g.edge_count().to_string()));
    v.push(("all_nodes".into(), format!("{:?}", sorted(g.all_nodes().iter().map(|n| n.id).collect()))));
    v.push(("all_edges".into(), format!("{:?}", sorted(g.all_edges().iter().map(|n| n.id).collect()))));
    for i in 1..=5u64 {
        v.push((format!("get_node({i})"), match g.get_node(i) {
            Ok(n) => format!("Ok(#{} {:?} {{{}}} c={:?} u={:?})", n.id, n.labels, props_str(&n.properties), n.created_at, n.updated_at),
            Err(e) => format!("Err({e})") }));
        for (dn, d) in [("out", Direction::Outgoing), ("in", Direction::Incoming), ("both", Direction::Both)] {
            v.push((format!("neighbors({i},{dn})"), format!("{:?}", g.neighbors(i, None, d, None).map(|n| sorted(n.iter().map(|x| x.id).collect())).map_err(|e| e.to_string()))));
        }
        v.push((format!("edges_of({i})"), format!("{:?}", g.edges_of(i, Direction::Both).map(|n| sorted(n.iter().map(|x| x.id).collect())).map_err(|e| e.to_string()))));
    }
    for i in 1..=3u64 {
        v.push((format!("get_edge({i})"), match g.get_edge(i) {
            Ok(e) => format!("Ok(#{} {}->{} {} dir={} {{{}}} c={:?} u={:?})", e.id, e.from, e.to, e.edge_type, e.directed, props_str(&e.properties), e.created_at, e.updated_at),
            Err(e) => format!("Err({e})") }));
    }
    // vector
    for k in ["e1", "e2", "post"] {
        v.push((format!("get_embedding({k})"), format!("{:?}", ve.get_embedding(k).map_err(|e| e.to_string()))));
        v.push((format!("vec.exists({k})"), ve.exists(k).to_string()));
    }
    v.push(("vec.list_keys".into(), format!("{:?}", sorted(ve.list_keys()))));
    v.push(("vec.count".into(), ve.count().to_string()));
    v.push(("search_similar([1,2,3],5)".into(), match ve.search_similar(&[1.0, 2.0, 3.0], 5) {
        Ok(r) => format!("Ok({:?})", sorted(r.iter().map(|x| format!("{}:{:?}", x.key, x.score)).collect::<Vec<_>>())),
        Err(e) => format!("Err({e})") }));
    // key/value: point reads + the whole key space with values
    for k in ["kv:k1", "kv:k2", "kv:post", "_cache:c1", "_cache:c2"] {
        v.push((format!("get({k})"), match store.get(k) { Ok(t) => format!("Ok({})", td_str(&t)), Err(e) => format!("Err({e})") }));
        v.push((format!("exists({k})"), store.exists(k).to_string()));
    }
    for k in ["emb:raw1", "emb:raw2"] { v.push((format!("exists({k})"), store.exists(k).to_string())); }
    let keys = sorted(store.scan(""));
    v.push(("scan('')".into(), format!("{keys:?}")));
    v.push(("len".into(), store.len().to_string()));
    // (the values of the raw embedding-slab entries are compared by C08.restore.slabs, see slab_view)
    for k in keys.iter().filter(|k| !k.starts_with("emb:raw")) { v.push((format!("dump[{k}]"), match store.get(k) { Ok(t) => td_str(&t), Err(e) => format!("Err({e})") })); }
    v
}

/// entries whose value lives in the embedding slab (key class `emb:` with a 384-d `_embedding` field)
fn slab_view(store: &TensorStore) -> View {
    ["emb:raw1", "emb:raw2"].iter().map(|k| (format!("get({k})"), match store.get(k) { Ok(t) => format!("Ok({})", td_str(&t)), Err(e) => format!("Err({e})") })).collect()
}

/// probes whose answers differ: (missing / extra / changed)
fn diff(at_cp: &View, now: &View) -> String {
    let a: HashMap<&String, &String> = at_cp.iter().map(|(k, v)| (k, v)).collect();
    let b: HashMap<&String, &String> = now.iter().map(|(k, v)| (k, v)).collect();
    let mut out = vec![];
    for (k, v) in at_cp { match b.get(k) { None => out.push(format!("{k}: was {v}, probe now absent")), Some(w) if *w != v => out.push(format!("{k}: was {v}, now {w}")), _ => {} } }
    for (k, v) in now { if !a.contains_key(k) { out.push(format!("{k}: did not exist, now {v}")); } }
    let n = out.len();
    out.truncate(6);
    format!("{n} probe(s) differ: {}", out.join(" | "))
}

// ---------------------------------------------------------------------------------------------
// case evaluation
// ---------------------------------------------------------------------------------------------

fn script_of(case: &Value) -> Vec<String> { case["script"].as_array().map(|a| a.iter().filter_map(|x| x.as_str().map(str::to_string)).collect()).unwrap_or_default() }
fn cps_of(case: &Value) -> Vec<usize> { case["cps"].as_array().map(|a| a.iter().filter_map(|x| x.as_u64().map(|n| n as usize)).collect()).unwrap_or_default() }

fn harness_err(ob: &'static str, e: String) -> Vec<Outcome> { vec![Outcome { ob, ok: false, detail: format!("harness/setup step failed: {e}"), nontrivial: false }] }

/// kind = "restore": {pre, script, at, fresh}: snapshot after the first `at` ops, run the rest, restore
/// in place; with fresh = true the same bytes are also restored into a new store read by new engines.
fn eval_restore(case: &Value) -> Vec<Outcome> {
    let script = script_of(case);
    let at = case["at"].as_u64().unwrap_or(0) as usize;
    let w = match World::new("direct", 10) { Ok(w) => w, Err(e) => return harness_err(OB_RESTORE, e) };
    if let Err(e) = w.build_pre(&case["pre"]) { return harness_err(OB_RESTORE, e); }
    for op in script.iter().take(at) { w.apply(op); }
    let (v0, s0) = (w.core_view(), slab_view(&w.store));
    let bytes = match w.store.snapshot_bytes() { Ok(b) => b, Err(e) => return vec![Outcome { ob: OB_RESTORE, ok: false, detail: format!("snapshot_bytes failed: {e}"), nontrivial: false }] };
    for op in script.iter().skip(at) { w.apply(op); }
    let mut changed = w.core_view() != v0;
    let (mut problems, mut sproblems) = (vec![], vec![]);
    match w.store.restore_from_bytes(&bytes) {
        Err(e) => problems.push(format!("restore_from_bytes failed: {e}")),
        Ok(()) => {
            let (v1, s1) = (w.core_view(), slab_view(&w.store));
            if v1 != v0 { problems.push(format!("in-place restore: {}", diff(&v0, &v1))); }
            if s1 != s0 { sproblems.push(format!("in-place restore: {}", diff(&s0, &s1))); }
        },
    }
    if case["fresh"].as_bool().unwrap_or(false) {
        let fresh = TensorStore::new();
        match fresh.restore_from_bytes(&bytes) {
            Err(e) => problems.push(format!("restore_from_bytes into a fresh store failed: {e}")),
            Ok(()) => {
                let (r, g, ve) = (RelationalEngine::with_store(fresh.clone()), GraphEngine::with_store(fresh.clone()), VectorEngine::with_store(fresh.clone()));
                let v2 = engine_view(&fresh, &r, &g, &ve);
                if v2 != v0 { problems.push(format!("fresh-store restore: {}", diff(&v0, &v2))); }
                let s2 = slab_view(&fresh);
                if s2 != s0 { sproblems.push(format!("fresh-store restore: {}", diff(&s0, &s2))); }
                changed |= fresh.len() > 0 || !r.list_tables().is_empty();
            },
        }
    }
    let has_slab = s0.iter().any(|(_, v)| v.starts_with("Ok"));
    vec![Outcome { ob: OB_RESTORE, ok: problems.is_empty(), detail: problems.join(" || "), nontrivial: changed },
         Outcome { ob: OB_SLABS, ok: sproblems.is_empty(), detail: sproblems.join(" || "), nontrivial: has_slab }]
}

/// kind = "rollback": {driver, pre, script, cps, cycles}: checkpoint #i is taken before op i (one
/// checkpoint for the empty script, at most 3); after the whole script the checkpoints listed in
/// `cps` are rolled back to, in that order; after every rollback the views are compared with the
/// ones recorded when that checkpoint was taken and the usability writes are made.
fn eval_rollback(case: &Value) -> Vec<Outcome> {
    let script = script_of(case);
    let driver = case["driver"].as_str().unwrap_or("mgr");
    let order = cps_of(case);
    let cycles = case["cycles"].as_u64().unwrap_or(1);
    let w = match World::new(driver, 10) { Ok(w) => w, Err(e) => return harness_err(OB_QUERIES, e) };
    if let Err(e) = w.build_pre(&case["pre"]) { return harness_err(OB_QUERIES, e); }
    let (mut problems, mut dproblems, mut cproblems, mut changed) = (vec![], vec![], vec![], false);
    'cyc: for cyc in 0..cycles {
        let ncp = script.len().clamp(1, 3);
        let mut cps: Vec<(String, String, View, View, View)> = vec![];
        for i in 0..script.len().max(1) {
            if i < ncp {
                let name = format!("c{cyc}p{i}");
                let (core, der, cnt) = (w.core_view(), w.derived_view(), w.counters_view());
                match w.cp_create(&name) { Ok(id) => cps.push((id, name, core, der, cnt)), Err(e) => { problems.push(format!("cycle {cyc}: checkpoint create #{i} failed: {e}")); break 'cyc; } }
            }
            if i < script.len() { w.apply(&script[i]); }
        }
        for &cpi in &order {
            let Some((id, name, core0, der0, cnt0)) = cps.get(cpi) else { continue };
            if w.core_view() != *core0 { changed = true; }
            let target = if driver == "router" { name } else { id };
            match w.cp_rollback(target) {
                Err(e) => { problems.push(format!("cycle {cyc}: rollback to checkpoint #{cpi} failed: {e}")); break 'cyc; },
                Ok(()) => {
                    let (core1, der1) = (w.core_view(), w.derived_view());
                    if core1 != *core0 { problems.push(format!("cycle {cyc}, rollback to #{cpi}: {}", diff(core0, &core1))); }
                    if der1 != *der0 { dproblems.push(format!("cycle {cyc}, rollback to #{cpi}: {}", diff(der0, &der1))); }
                    let cnt1 = w.counters_view();
                    if cnt1 != *cnt0 { cproblems.push(format!("cycle {cyc}, rollback to #{cpi}: {}", diff(cnt0, &cnt1))); }
                    if let Err(e) = w.usable() { problems.push(format!("cycle {cyc}, rollback to #{cpi}: not usable afterwards: {e}")); }
                },
            }
        }
    }
    vec![Outcome { ob: OB_QUERIES, ok: problems.is_empty(), detail: problems.join(" || "), nontrivial: changed },
         Outcome { ob: OB_DERIVED, ok: dproblems.is_empty(), detail: dproblems.join(" || "), nontrivial: changed },
         Outcome { ob: OB_COUNTERS, ok: cproblems.is_empty(), detail: cproblems.join(" || "), nontrivial: changed }]
}

/// kind = "retention": {driver, pre, script, max, reps}: len(script)+1 checkpoints (one before each op
/// and one after the last) with max_checkpoints = max; the listed checkpoints must be exactly the
/// newest `max`; then every listed checkpoint is rolled back to, newest first.  Checkpoint ids are
/// random UUIDs and creation times have 1 s resolution, so which checkpoints survive can differ from
/// run to run: the create+list part is repeated on `reps` fresh worlds and must hold on each.
fn retention_world(case: &Value) -> Result<(World, Vec<(String, String, View)>, Vec<Option<usize>>), (bool, String)> {
    let script = script_of(case);
    let driver = case["driver"].as_str().unwrap_or("mgr");
    let max = case["max"].as_u64().unwrap_or(1) as usize;
    let w = World::new(driver, max).map_err(|e| (true, e))?;
    w.build_pre(&case["pre"]).map_err(|e| (true, e))?;
    let mut cps: Vec<(String, String, View)> = vec![];
    for i in 0..=script.len() {
        // "names": "same" = every checkpoint reuses one name (a nightly job, the auto-before-<op> checkpoints)
        let name = if case["names"] == "same" { "nightly".to_string() } else { format!("r{i}") };
        let core = w.core_view();
        match w.cp_create(&name) { Ok(id) => cps.push((id, name, core)), Err(e) => return Err((false, format!("checkpoint create #{i} failed: {e}"))) }
        if i < script.len() { w.apply(&script[i]); }
    }
    let listed = w.cp_list().map_err(|e| (false, format!("list failed: {e}")))?;
    let listed_idx: Vec<Option<usize>> = listed.iter().map(|id| cps.iter().position(|c| &c.0 == id)).collect();
    Ok((w, cps, listed_idx))
}

fn eval_retention(case: &Value) -> Vec<Outcome> {
    let script = script_of(case);
    let driver = case["driver"].as_str().unwrap_or("mgr");
    let max = case["max"].as_u64().unwrap_or(1) as usize;
    let reps = case["reps"].as_u64().unwrap_or(1).max(1);
    let total = script.len() + 1;
    let want: Vec<usize> = (total.saturating_sub(max)..total).collect();
    let newest_ok = |l: &Vec<Option<usize>>| l.len() == want.len() && sorted(l.iter().flatten().copied().collect::<Vec<_>>()) == want;
    let (w, cps, listed_idx) = match retention_world(case) {
        Ok(x) => x,
        Err((true, e)) => return harness_err(OB_RETAIN, e),
        Err((false, e)) => return vec![Outcome { ob: OB_RETAIN, ok: false, detail: e, nontrivial: false }],
    };
    let mut bad: Vec<String> = vec![];
    if !newest_ok(&listed_idx) { bad.push(format!("attempt 0: listed creation indices {listed_idx:?}")); }
    for r in 1..reps {
        if !bad.is_empty() { break; }
        match retention_world(case) {
            Ok((_, _, l)) => if !newest_ok(&l) { bad.push(format!("attempt {r}: listed creation indices {l:?}")); },
            Err((_, e)) => bad.push(format!("attempt {r}: {e}")),
        }
    }
    let mut out = vec![Outcome { ob: OB_RETAIN, ok: bad.is_empty(), nontrivial: total > max,
        detail: format!("max_checkpoints={max}, checkpoints #0..#{} created in this order, expected exactly the newest {want:?} to be listed; {}", total - 1, bad.join("; ")) }];
    // newest first: with a store shared between data and blobs the older blobs are part of the state rolled back to
    let got = sorted(listed_idx.iter().flatten().copied().collect::<Vec<_>>());
    let mut problems = vec![];
    for i in got.iter().rev() {
        let (id, name, core0) = &cps[*i];
        let target = if driver == "router" { name } else { id };
        match w.cp_rollback(target) {
            Err(e) => problems.push(format!("rollback to retained checkpoint #{i} failed: {e}")),
            Ok(()) => {
                let core1 = w.core_view();
                if core1 != *core0 { problems.push(format!("checkpoint #{i}: {}", diff(core0, &core1))); }
                if let Err(e) = w.usable() { problems.push(format!("checkpoint #{i}: not usable after rollback: {e}")); }
            },
        }
    }
    if got.is_empty() { problems.push("no checkpoint retained".into()); }
    out.push(Outcome { ob: OB_RETAIN_RB, ok: problems.is_empty(), detail: problems.join(" || "), nontrivial: !script.is_empty() });
    out
}

/// kind = "repeat": {driver, pre, script, cp}: checkpoints as in "retention" (no purge, max = 10);
/// after a first rollback to `cp` (and one more write) every checkpoint that was listed before must
/// still be listed and roll back successfully (the one just used first, then newest to oldest).
fn eval_repeat(case: &Value) -> Vec<Outcome> {
    let script = script_of(case);
    let driver = case["driver"].as_str().unwrap_or("router");
    let cpi = case["cp"].as_u64().unwrap_or(0) as usize;
    let w = match World::new(driver, 10) { Ok(w) => w, Err(e) => return harness_err(OB_REPEAT, e) };
    if let Err(e) = w.build_pre(&case["pre"]) { return harness_err(OB_REPEAT, e); }
    let mut cps: Vec<(String, String, View)> = vec![];
    for i in 0..=script.len() {
        let name = format!("p{i}");
        let core = w.core_view();
        match w.cp_create(&name) { Ok(id) => cps.push((id, name, core)), Err(e) => return harness_err(OB_REPEAT, format!("create #{i}: {e}")) }
        if i < script.len() { w.apply(&script[i]); }
    }
    if cpi >= cps.len() { return harness_err(OB_REPEAT, format!("cp {cpi} out of range")); }
    let tgt = |i: usize| if driver == "router" { cps[i].1.clone() } else { cps[i].0.clone() };
    let before = w.cp_list().map(|l| l.len()).unwrap_or(0);
    if let Err(e) = w.cp_rollback(&tgt(cpi)) { return vec![Outcome { ob: OB_REPEAT, ok: false, detail: format!("first rollback to #{cpi} failed: {e}"), nontrivial: true }]; }
    w.apply("put_key");
    let mut problems = vec![];
    let after = w.cp_list().map(|l| l.len()).unwrap_or(0);
    if after != before { problems.push(format!("{before} checkpoints listed before the rollback to #{cpi}, {after} listed after it")); }
    let mut order: Vec<usize> = vec![cpi];
    order.extend((0..cps.len()).rev().filter(|i| *i != cpi));
    for i in order {
        match w.cp_rollback(&tgt(i)) {
            Err(e) => problems.push(format!("after a rollback to #{cpi}, rollback to #{i} fails: {e}")),
            Ok(()) => { let v = w.core_view(); if v != cps[i].2 { problems.push(format!("after a rollback to #{cpi}, rollback to #{i}: {}", diff(&cps[i].2, &v))); } },
        }
    }
    vec![Outcome { ob: OB_REPEAT, ok: problems.is_empty(), detail: problems.join(" || "), nontrivial: true }]
}


// ---------------------------------------------------------------------------------------------
// kind "variants": the restore clause over every public TensorStore constructor
// ---------------------------------------------------------------------------------------------

/// every way the public API constructs a TensorStore (all start EMPTY; the file-based ones are built
/// from the snapshot / log of an empty store)
const VARIANTS: [&str; 17] = ["new", "default", "capacity0", "capacity", "bloom", "bloom_tiny", "bloom_default", "instr", "bloom_instr",
    "durable", "durable_bloom", "recovered", "recovered_snap", "recovered_bloom", "loaded", "loaded_bloom", "loaded_compressed"];

fn has_filter(variant: &str) -> bool { variant.contains("bloom") }

static SCRATCH_SEQ: std::sync::atomic::AtomicU64 = std::sync::atomic::AtomicU64::new(0);

/// a private directory for one case (under the set's run directory; never wipes a sibling)
fn scratch() -> std::path::PathBuf {
    let n = SCRATCH_SEQ.fetch_add(1, std::sync::atomic::Ordering::Relaxed);
    let p = run_dir().join(format!("v{n}"));
    let _ = std::fs::create_dir_all(&p);
    p
}
fn scratch_done(p: &std::path::Path) { let _ = std::fs::remove_dir_all(p); }
fn run_dir() -> std::path::PathBuf {
    let base = std::env::var("NEUMANN_VERIF_CACHE").unwrap_or_else(|_| "/var/tmp/neumann-verif".into());
    std::path::PathBuf::from(base).join("run").join(format!("c08_rollback-{}", std::process::id()))
}

fn mk_store(variant: &str, dir: &std::path::Path, tag: &str) -> Result<TensorStore, String> {
    let wal = dir.join(format!("{tag}.wal"));
    let snap = dir.join(format!("{tag}.snap"));
    let e = |x: &dyn std::fmt::Display| format!("constructor {variant}: {x}");
    let empty_snapshot = || TensorStore::new().save_snapshot(&snap).map_err(|x| e(&x));
    Ok(match variant {
        "new" => TensorStore::new(),
        "default" => TensorStore::default(),
        "capacity0" => TensorStore::with_capacity(0),
        "capacity" => TensorStore::with_capacity(4096),
        "bloom" => TensorStore::with_bloom_filter(1000, 0.01),
        "bloom_tiny" => TensorStore::with_bloom_filter(1, 0.5),
        "bloom_default" => TensorStore::with_default_bloom_filter(),
        "instr" => TensorStore::with_instrumentation(1),
        "bloom_instr" => TensorStore::with_bloom_and_instrumentation(1000, 0.01, 1),
        "durable" => TensorStore::open_durable(&wal, WalConfig::default()).map_err(|x| e(&x))?,
        "durable_bloom" => TensorStore::open_durable_with_bloom(&wal, WalConfig::default(), 1000, 0.01).map_err(|x| e(&x))?,
        "recovered" => TensorStore::recover(&wal, &WalConfig::default(), None).map_err(|x| e(&x))?,
        "recovered_snap" => { empty_snapshot()?; TensorStore::recover(&wal, &WalConfig::default(), Some(&snap)).map_err(|x| e(&x))? },
        "recovered_bloom" => TensorStore::recover_with_bloom(&wal, &WalConfig::default(), None, 1000, 0.01).map_err(|x| e(&x))?,
        "loaded" => { empty_snapshot()?; TensorStore::load_snapshot(&snap).map_err(|x| e(&x))? },
        "loaded_bloom" => { empty_snapshot()?; TensorStore::load_snapshot_with_bloom_filter(&snap, 1000, 0.01).map_err(|x| e(&x))? },
        "loaded_compressed" => {
            TensorStore::new().save_snapshot_compressed(&snap, tensor_compress::CompressionConfig::default()).map_err(|x| e(&x))?;
            TensorStore::load_snapshot_compressed(&snap).map_err(|x| e(&x))?
        },
        v => return Err(format!("unknown store variant {v:?}")),
    })
}

/// raw key universe of the "variants" cases: every key class that put/get reach (metadata slab, cache
/// ring, embedding class with a slab-sized / a short / no `_embedding`), keys of the pre-state, keys
/// written by the scripts, keys written after the restore, a key that never exists
const RAW_KEYS: [&str; 15] = ["kv:k1", "kv:k2", "kv:post", "kv:x", "_cache:c1", "_cache:c2", "_cache:x", "emb:raw1", "emb:raw2", "emb:d3", "emb:plain",
    "kv:new", "_cache:new", "emb:new", "kv:absent"];
const RAW_PREFIXES: [&str; 8] = ["", "kv:", "_cache:", "emb:", "kv:k1", "emb:raw", "node:", "zz:"];

/// exact rendering, except that the 384-d slab vector of an `emb:raw*` entry is left to C08.restore.slabs
fn raw_str(k: &str, t: &TensorData) -> String {
    if !k.starts_with("emb:raw") { return td_str(t); }
    let mut f: Vec<String> = t.fields_iter().map(|(n, v)| if n == "_embedding" { format!("{n}=<slab vector, see C08.restore.slabs>") } else { format!("{n}={}", tv_str(v)) }).collect();
    f.sort();
    f.join(";")
}

fn raw_view(store: &TensorStore) -> View {
    let mut v = View::new();
    for k in RAW_KEYS {
        v.push((format!("raw get({k})"), match store.get(k) { Ok(t) => format!("Ok({})", raw_str(k, &t)), Err(e) => format!("Err({e})") }));
        v.push((format!("raw exists({k})"), store.exists(k).to_string()));
    }
    for p in RAW_PREFIXES {
        v.push((format!("raw scan({p:?})"), format!("{:?}", sorted(store.scan(p)))));
        v.push((format!("raw scan_count({p:?})"), store.scan_count(p).to_string()));
        v.push((format!("raw scan_filter_map({p:?})"), format!("{:?}", sorted(store.scan_filter_map(p, |k, t| Some(format!("{k} => {}", raw_str(k, t))))))));
    }
    v.push(("raw len".into(), store.len().to_string()));
    v.push(("raw is_empty".into(), store.is_empty().to_string()));
    v
}

/// point lookups and scans must tell the same story about every key
fn disagreements(store: &TensorStore) -> Vec<String> {
    let mut out = vec![];
    let listed: std::collections::BTreeSet<String> = store.scan("").into_iter().collect();
    let mut keys: std::collections::BTreeSet<String> = listed.clone();
    keys.extend(RAW_KEYS.iter().map(|k| (*k).to_string()));
    for k in &keys {
        let (ex, got, sc) = (store.exists(k), store.get(k).is_ok(), listed.contains(k));
        if ex != got || ex != sc { out.push(format!("{k}: exists = {ex}, get is Ok = {got}, listed by scan(\"\") = {sc}")); }
    }
    for p in RAW_PREFIXES {
        let (n, m) = (store.scan(p).len(), store.scan_count(p));
        if n != m { out.push(format!("scan({p:?}) lists {n} keys, scan_count = {m}")); }
        let want = listed.iter().filter(|k| k.starts_with(p)).count();
        if n != want { out.push(format!("scan({p:?}) lists {n} keys, scan(\"\") has {want} with that prefix")); }
    }
    out
}

/// keys written after the restore behave normally (put / get / exists / scan / overwrite / delete),
/// restored keys can be overwritten and deleted
fn raw_usable(w: &World) -> Result<(), String> {
    let s = &w.store;
    let mut big = sval("fresh");
    big.set("_embedding", TensorValue::Vector((0..384).map(|i| if i % 5 == 0 { 0.5 } else { 0.25 }).collect()));
    let mut small = sval("fresh3");
    small.set("_embedding", TensorValue::Vector(vec![1.0, 0.5, 0.25]));
    let mut todo: Vec<(String, TensorData)> = vec![("kv:new".into(), sval("fresh")), ("_cache:new".into(), sval("fresh")), ("emb:new".into(), big), ("emb:new3".into(), small)];
    // restored keys of each class, when present
    for k in ["kv:k1", "_cache:c1", "emb:d3", "emb:plain", "kv:k2"] { if s.exists(k) { todo.push((k.to_string(), sval("overwritten"))); } }
    for (k, t) in todo {
        let prefix = &k[..k.find(':').map_or(k.len(), |i| i + 1)];
        if !w.kput(k.clone(), t.clone()) { return Err(format!("put({k}) after the restore failed")); }
        match s.get(&k) { Ok(g) if td_str(&g) == td_str(&t) => {}, o => return Err(format!("get({k}) after put = {:?}, expected {}", o.map(|g| td_str(&g)).map_err(|e| e.to_string()), td_str(&t))) }
        if !s.exists(&k) { return Err(format!("exists({k}) = false right after put")); }
        if !s.scan(prefix).contains(&k) || !s.scan("").contains(&k) { return Err(format!("{k} written after the restore is not listed by scan")); }
        let n = s.scan_count(prefix);
        if !w.kdel(&k) { return Err(format!("delete({k}) after the restore failed")); }
        if s.get(&k).is_ok() || s.exists(&k) || s.scan(prefix).contains(&k) { return Err(format!("{k} still readable after delete: get is Ok = {}, exists = {}, listed = {}", s.get(&k).is_ok(), s.exists(&k), s.scan(prefix).contains(&k))); }
        if s.scan_count(prefix) + 1 != n { return Err(format!("scan_count({prefix:?}) went from {n} to {} on delete({k})", s.scan_count(prefix))); }
        if w.kdel(&k) { return Err(format!("second delete({k}) succeeded")); }
    }
    Ok(())
}

/// kind = "variants": {src, dst, pre, script, at}: the store is built by constructor `src`; pre-state and
/// the first `at` ops, snapshot_bytes, the remaining ops ("further writes and deletes", also `clear`);
/// then dst = "inplace": restore_from_bytes on the same store, otherwise into a fresh store built by
/// constructor `dst` and read by new engines.
fn eval_variants(case: &Value) -> Vec<Outcome> {
    let script = script_of(case);
    let at = (case["at"].as_u64().unwrap_or(0) as usize).min(script.len());
    let src = case["src"].as_str().unwrap_or("new");
    let dst = case["dst"].as_str().unwrap_or("inplace");
    let inplace = dst == "inplace";
    // the obligation is chosen by the INPUT class
    let unseen = if inplace { has_filter(src) && script[at..].iter().any(|o| o == "clear") } else { has_filter(dst) };
    let ob = if unseen { OB_UNSEEN } else { OB_VARIANTS };
    let dir = scratch();
    let out = (|| -> Vec<Outcome> {
        let store = match mk_store(src, &dir, "src") { Ok(s) => s, Err(e) => return harness_err(ob, e) };
        if !store.is_empty() || !store.scan("").is_empty() { return harness_err(ob, format!("constructor {src} did not give an empty store")); }
        let w = World::on_store(store, src.starts_with("durable") || src.starts_with("recovered"));
        if let Err(e) = w.build_pre(&case["pre"]) { return harness_err(ob, e); }
        if case["pre"]["kv"] == true {
            let mut d3 = sval("three");
            d3.set("_embedding", TensorValue::Vector(vec![0.5, -1.0, 2.0]));
            if !(w.kput("emb:d3".into(), d3) & w.kput("emb:plain".into(), sval("plain"))) { return harness_err(ob, "pre-state: emb keys".into()); }
        }
        for op in script.iter().take(at) { w.apply(op); }
        let view = |w: &World| { let mut v = w.core_view(); v.extend(raw_view(&w.store)); v };
        let v0 = view(&w);
        let d0 = disagreements(&w.store);
        let bytes = match w.store.snapshot_bytes() { Ok(b) => b, Err(e) => return vec![Outcome { ob, ok: false, detail: format!("snapshot_bytes failed: {e}"), nontrivial: false }] };
        for op in script.iter().skip(at) { w.apply(op); }
        let mut changed = view(&w) != v0;
        let mut problems = vec![];
        let target = if inplace { w } else {
            let fresh = match mk_store(dst, &dir, "dst") { Ok(s) => s, Err(e) => return harness_err(ob, e) };
            changed = true;
            World::on_store(fresh, dst.starts_with("durable") || dst.starts_with("recovered"))
        };
        let how = if inplace { format!("in-place restore on a {src} store") } else { format!("restore into a fresh {dst} store") };
        match target.store.restore_from_bytes(&bytes) {
            Err(e) => problems.push(format!("{how}: restore_from_bytes failed: {e}")),
            Ok(()) => {
                let v1 = view(&target);
                if v1 != v0 { problems.push(format!("{how}: {}", diff(&v0, &v1))); }
                let d1: Vec<String> = disagreements(&target.store).into_iter().filter(|d| !d0.contains(d)).collect();
                if !d1.is_empty() { problems.push(format!("{how}: point lookups and scans disagree: {}", d1.iter().take(4).cloned().collect::<Vec<_>>().join("; "))); }
                if let Err(e) = raw_usable(&target) { problems.push(format!("{how}: {e}")); }
                if let Err(e) = target.usable() { problems.push(format!("{how}: not usable afterwards: {e}")); }
            },
        }
        vec![Outcome { ob, ok: problems.is_empty(), detail: problems.join(" || "), nontrivial: changed }]
    })();
    scratch_done(&dir);
    out
}

// ---------------------------------------------------------------------------------------------
// kind "choice": which checkpoint does a name designate
// ---------------------------------------------------------------------------------------------

/// distinct-state mutations applied after the creation of the 1st, 2nd, ... checkpoint (all enabled from the full pre-state)
const CHOICE_MUTS: [&str; 4] = ["put_key", "ins_row", "add_node", "put_emb"];

struct Made { id: String, name: String, view: View }

/// name templates: a literal, "@id:<k>" = the id text of the checkpoint with name index k,
/// "@idprefix:<k>" = the first 8 characters of that id (k must be created earlier)
fn resolve_name(tpl: &str, made: &[Option<Made>]) -> Result<String, String> {
    let of = |k: &str| -> Result<&Made, String> { k.parse::<usize>().ok().and_then(|k| made.get(k)).and_then(Option::as_ref).ok_or_else(|| format!("name template {tpl:?} refers to a checkpoint that is not created yet")) };
    if let Some(k) = tpl.strip_prefix("@id:") { return Ok(of(k)?.id.clone()); }
    if let Some(k) = tpl.strip_prefix("@idprefix:") { return Ok(of(k)?.id.chars().take(8).collect()); }
    Ok(tpl.to_string())
}

/// kind = "choice": {driver, pre, names, order, targets, by}: checkpoint names[order[j]] is created at
/// position j (the database is changed after every creation); then for every name index in `targets`,
/// in turn, ROLLBACK TO <name> (by = "name"), <id> (by = "id") or first all names then all ids ("both").
fn eval_choice(case: &Value) -> Vec<Outcome> {
    let driver = case["driver"].as_str().unwrap_or("mgr_sep");
    let names: Vec<String> = case["names"].as_array().map(|a| a.iter().filter_map(|x| x.as_str().map(str::to_string)).collect()).unwrap_or_default();
    let idx = |f: &str| -> Vec<usize> { case[f].as_array().map(|a| a.iter().filter_map(|x| x.as_u64().map(|n| n as usize)).collect()).unwrap_or_default() };
    let (order, targets) = (idx("order"), idx("targets"));
    let by = case["by"].as_str().unwrap_or("both");
    if order.len() != names.len() || sorted(order.clone()) != (0..names.len()).collect::<Vec<_>>() || names.len() > CHOICE_MUTS.len() { return harness_err(OB_CHOICE, "order must be a permutation of the name indices (at most 4 names)".into()); }
    let w = match World::new(driver, 10) { Ok(w) => w, Err(e) => return harness_err(OB_CHOICE, e) };
    if let Err(e) = w.build_pre(&case["pre"]) { return harness_err(OB_CHOICE, e); }
    let mut made: Vec<Option<Made>> = names.iter().map(|_| None).collect();
    for (pos, &ni) in order.iter().enumerate() {
        let name = match resolve_name(&names[ni], &made) { Ok(n) => n, Err(e) => return harness_err(OB_CHOICE, e) };
        let view = w.core_view();
        match w.cp_create(&name) {
            Ok(id) => made[ni] = Some(Made { id, name, view }),
            Err(e) => return vec![Outcome { ob: OB_CHOICE, ok: false, detail: format!("checkpoint create {name:?} (position {pos}) failed: {e}"), nontrivial: false }],
        }
        w.apply(CHOICE_MUTS[pos]);
    }
    let made: Vec<Made> = made.into_iter().flatten().collect();
    // preconditions of the case (harness): distinct names, distinct states
    for i in 0..made.len() { for j in i + 1..made.len() {
        if made[i].name == made[j].name { return harness_err(OB_CHOICE, format!("two checkpoints named {:?}: not part of this domain", made[i].name)); }
        if made[i].view == made[j].view { return harness_err(OB_CHOICE, format!("checkpoints {:?} and {:?} have the same database state", made[i].name, made[j].name)); }
    } }
    let mut problems = vec![];
    // every checkpoint is retained under exactly the name it was created with
    match w.cp_list_named() {
        Ok(l) => {
            let got = sorted(l);
            let want = sorted(made.iter().map(|m| (m.id.clone(), m.name.clone())).collect::<Vec<_>>());
            if got != want { problems.push(format!("listed (id, name) pairs {got:?}, created {want:?}")); }
        },
        Err(e) => problems.push(format!("list failed: {e}")),
    }
    let mut texts: Vec<(usize, bool)> = vec![];
    if by == "name" || by == "both" { texts.extend(targets.iter().map(|t| (*t, true))); }
    if by == "id" || by == "both" { texts.extend(targets.iter().map(|t| (*t, false))); }
    let mut changed = false;
    for (t, by_name) in texts {
        let Some(m) = made.get(t) else { continue };
        let text = if by_name { &m.name } else { &m.id };
        // the checkpoints this text designates (its own, plus one whose id / name is the same text)
        let designated: Vec<&Made> = made.iter().filter(|c| &c.id == text || &c.name == text).collect();
        let what = format!("ROLLBACK TO {} ({} of the checkpoint created as #{} of {:?})", lit(text), if by_name { "name" } else { "id" }, order.iter().position(|o| *o == t).unwrap_or(0), order.iter().map(|o| made[*o].name.as_str()).collect::<Vec<_>>());
        if !designated.iter().any(|c| c.view == w.core_view()) { changed = true; }
        match w.cp_rollback(text) {
            Err(e) => { problems.push(format!("{what} failed: {e}")); if driver == "router" { break; } },
            Ok(()) => {
                let v1 = w.core_view();
                if !designated.iter().any(|c| c.view == v1) {
                    let other: Vec<&str> = made.iter().filter(|c| c.view == v1).map(|c| c.name.as_str()).collect();
                    problems.push(format!("{what}: the database is {}; against the designated checkpoint: {}",
                        if other.is_empty() { "not the state of any checkpoint".to_string() } else { format!("the state recorded for checkpoint {:?}", other[0]) }, diff(&designated[0].view, &v1)));
                }
                if let Err(e) = w.usable() { problems.push(format!("{what}: not usable afterwards: {e}")); }
            },
        }
    }
    vec![Outcome { ob: OB_CHOICE, ok: problems.is_empty(), detail: problems.join(" || "), nontrivial: changed }]
}

fn eval_case(case: &Value) -> Vec<Outcome> {
    match case["kind"].as_str().unwrap_or("") {
        "restore" => eval_restore(case),
        "rollback" => eval_rollback(case),
        "retention" => eval_retention(case),
        "repeat" => eval_repeat(case),
        "variants" => eval_variants(case),
        "choice" => eval_choice(case),
        k => vec![Outcome { ob: OB_RESTORE, ok: false, detail: format!("unknown case kind {k:?}"), nontrivial: false }],
    }
}

// ---------------------------------------------------------------------------------------------
// enumeration
// ---------------------------------------------------------------------------------------------

/// Abstract state used only to prune redundant scripts: an op is *enabled* when it changes the
/// database (e.g. del_row needs a row with id 1).  A script with a disabled op behaves like the
/// script without it, which is enumerated on its own; the thorough tier also runs the unpruned
/// scripts of length <= 2.
#[derive(Clone)]
struct Abs { t: Option<Vec<(i64, &'static str)>>, u: bool, n1: bool, e1edge: bool, emb1: Option<u8>, emb2: bool, k1: Option<u8>, k2: bool }

impl Abs {
    fn of(pre: &Value) -> Abs {
        let rows = pre["rows"].as_u64().unwrap_or(0);
        let g = pre["graph"] == true;
        Abs { t: if rows == 0 { None } else { Some([(1, "a"), (2, "b")][..rows as usize].to_vec()) }, u: false, n1: g, e1edge: g,
              emb1: if pre["emb"] == true { Some(0) } else { None }, emb2: false, k1: if pre["kv"] == true { Some(0) } else { None }, k2: false }
    }
    /// Some(next state) when the op is enabled
    fn step(&self, op: &str) -> Option<Abs> {
        let mut s = self.clone();
        match op {
            "ins_row" => s.t.as_mut()?.push((9, "z")),
            "del_row" => { let t = s.t.as_mut()?; if !t.iter().any(|r| r.0 == 1) { return None; } t.retain(|r| r.0 != 1); },
            "upd_row" => { let t = s.t.as_mut()?; if !t.iter().any(|r| r.0 == 1 && r.1 != "upd") { return None; } for r in t.iter_mut() { if r.0 == 1 { r.1 = "upd"; } } },
            "drop_t" => { s.t.as_ref()?; s.t = None; },
            "create_u" => { if s.u { return None; } s.u = true; },
            "add_node" => {},
            "del_edge" => { if !s.e1edge { return None; } s.e1edge = false; },
            "del_node" => { if !s.n1 { return None; } s.n1 = false; s.e1edge = false; },
            "put_emb" => { if s.emb2 { return None; } s.emb2 = true; },
            "upd_emb" => { if s.emb1 == Some(1) { return None; } s.emb1 = Some(1); },
            "del_emb" => { s.emb1?; s.emb1 = None; },
            "put_key" => { if s.k2 { return None; } s.k2 = true; },
            "upd_key" => { if s.k1 == Some(1) { return None; } s.k1 = Some(1); },
            "del_key" => { s.k1?; s.k1 = None; },
            _ => return None,
        }
        Some(s)
    }
}

fn pre_states() -> Vec<Value> {
    let mut v = vec![];
    for rows in 0..=2u64 { for graph in [false, true] { for emb in [false, true] { for kv in [false, true] {
        v.push(json!({"rows": rows, "idx": false, "graph": graph, "emb": emb, "kv": kv}));
        if rows == 2 { v.push(json!({"rows": rows, "idx": true, "graph": graph, "emb": emb, "kv": kv})); }
    } } } }
    v
}

/// every script over the first `nops` ops with minlen <= length <= maxlen; with `pruned` only the
/// scripts all of whose ops are enabled from `pre`
fn scripts(pre: &Value, nops: usize, minlen: usize, maxlen: usize, pruned: bool) -> Vec<Vec<&'static str>> {
    fn rec(cur: &mut Vec<&'static str>, st: &Abs, nops: usize, minlen: usize, maxlen: usize, pruned: bool, out: &mut Vec<Vec<&'static str>>) {
        if cur.len() >= minlen { out.push(cur.clone()); }
        if cur.len() == maxlen { return; }
        for o in OPS.iter().take(nops) {
            let next = match st.step(o) { Some(n) => n, None if pruned => continue, None => st.clone() };
            cur.push(o); rec(cur, &next, nops, minlen, maxlen, pruned, out); cur.pop();
        }
    }
    let mut out = vec![];
    rec(&mut vec![], &Abs::of(pre), nops, minlen, maxlen, pruned, &mut out);
    out
}

fn record(rep: &mut Report, case: &Value) {
    let outs = eval_case(case);
    rep.eval(outs.iter().any(|o| o.nontrivial));
    for o in outs { rep.check(o.ob, o.ok, &|| case.clone(), &|| o.detail.clone()); }
}


/// independent cases evaluated on `threads` worker threads (every case builds its own stores, engines
/// and runtime from scratch, so the outcome of a case does not depend on the schedule); results in
/// case order
fn par_outcomes(cases: &[Value], threads: usize) -> Vec<Vec<Outcome>> {
    let next = std::sync::atomic::AtomicUsize::new(0);
    let slots: Vec<std::sync::Mutex<Option<Vec<Outcome>>>> = cases.iter().map(|_| std::sync::Mutex::new(None)).collect();
    std::thread::scope(|sc| {
        for _ in 0..threads.max(1) {
            sc.spawn(|| loop {
                let i = next.fetch_add(1, std::sync::atomic::Ordering::Relaxed);
                if i >= cases.len() { break; }
                let o = eval_case(&cases[i]);
                *slots[i].lock().unwrap() = Some(o);
            });
        }
    });
    slots.into_iter().map(|m| m.into_inner().unwrap().unwrap_or_default()).collect()
}

fn perms(n: usize) -> Vec<Vec<usize>> {
    fn rec(cur: &mut Vec<usize>, n: usize, out: &mut Vec<Vec<usize>>) {
        if cur.len() == n { out.push(cur.clone()); return; }
        for i in 0..n { if !cur.contains(&i) { cur.push(i); rec(cur, n, out); cur.pop(); } }
    }
    let mut out = vec![];
    rec(&mut vec![], n, &mut out);
    out
}

/// the cases of C08.restore.store_variants / filter_unseen and C08.rollback.choice_by_name
fn extension_cases(full: &Value, thorough: bool) -> Vec<Value> {
    let mut out = vec![];
    // ---- store variants: in place after further writes / deletes (every single op, clear, three pairs around the snapshot)
    let mut vscripts: Vec<(Vec<&str>, usize)> = OPS.iter().map(|o| (vec![*o], 0)).collect();
    vscripts.push((vec!["clear"], 0));
    vscripts.push((vec!["put_key", "del_key"], 1));
    vscripts.push((vec!["del_key", "put_key"], 0));
    vscripts.push((vec!["upd_key", "del_key"], 1));
    vscripts.push((vec!["clear", "put_key"], 0));
    for src in VARIANTS { for (s, at) in &vscripts {
        out.push(json!({"kind": "variants", "src": src, "dst": "inplace", "pre": full, "script": s, "at": at}));
    } }
    // ---- store variants: into a fresh store of every variant
    let srcs: Vec<&str> = if thorough { VARIANTS.to_vec() } else { vec!["new", "bloom", "durable"] };
    for src in srcs { for dst in VARIANTS {
        out.push(json!({"kind": "variants", "src": src, "dst": dst, "pre": full, "script": [], "at": 0}));
        out.push(json!({"kind": "variants", "src": src, "dst": dst, "pre": full, "script": ["upd_key", "put_emb"], "at": 2}));
    } }
    // ---- choice by name
    let long = "checkpoint-before-migration-"; // 28 characters
    let mut families: Vec<Vec<String>> = vec![
        vec!["v1".into(), "v10".into(), "v1.1".into()],
        vec!["Nightly".into(), "nightly".into(), "NIGHTLY".into()],
        vec!["rel 1".into(), "rel  1".into(), " rel 1".into()],
        vec!["o'brien".into(), "o''brien".into(), "o\"brien".into()],
        vec![format!("{long}1"), format!("{long}2"), format!("{long}10")],
    ];
    if thorough { families.push(vec!["a".into(), "ab".into(), "abc".into(), "Ab".into()]); }
    for names in &families {
        for (pi, order) in perms(names.len()).into_iter().enumerate() {
            let mut targets: Vec<usize> = (0..names.len()).collect();
            if pi % 2 == 1 { targets.reverse(); }
            out.push(json!({"kind": "choice", "driver": "mgr_sep", "pre": full, "names": names, "order": order, "targets": targets, "by": "both"}));
            for t in 0..names.len() { out.push(json!({"kind": "choice", "driver": "router", "pre": full, "names": names, "order": order, "targets": [t], "by": "name"})); }
            out.push(json!({"kind": "choice", "driver": "router", "pre": full, "names": names, "order": order, "targets": [pi % names.len()], "by": "id"}));
        }
    }
    // a name that is the id text (or a prefix of the id text) of an EARLIER checkpoint
    let idnames = ["alpha", "@id:0", "@idprefix:0"];
    for order in [[0usize, 1, 2], [0, 2, 1]] {
        out.push(json!({"kind": "choice", "driver": "mgr_sep", "pre": full, "names": idnames, "order": order, "targets": [0, 1, 2], "by": "both"}));
        for t in 0..3 { out.push(json!({"kind": "choice", "driver": "router", "pre": full, "names": idnames, "order": order, "targets": [t], "by": "name"})); }
    }
    out
}

/// checkpoint indices available for a script (one before each op, at most 3, at least 1), newest first
fn desc(len: usize) -> Vec<usize> { (0..len.clamp(1, 3)).rev().collect() }

pub fn run(tier: Tier, seed: u64) -> Report {
    let thorough = tier == Tier::Thorough;
    let dir = tmpdir("c08_rollback"); // nothing is written to disk (in-memory stores); kept for the contract
    let mut rep = Report::new("c08_rollback",
        &format!("pre-states: every subset of {{table t with 1|2 rows (2 rows also with hash+B-tree index), 2 nodes+1 edge, 1 embedding, 1 kv entry}} = 32. \
ops: 11 stated {{ins_row,del_row,drop_t,create_u,add_node,del_edge,del_node,put_emb,del_emb,put_key,del_key}} + 3 overwrites {{upd_row,upd_emb,upd_key}}. \
quick: every script of length <= 2 over the 11 stated ops in which every op is enabled (changes the database) from the pre-state; \
restore: snapshot before the script (+ snapshot after scripts of length <= 1, also restored into a fresh store); \
rollback: driver mgr (CheckpointManager, blobs in the data store) on all 32 pre-states and driver router (text commands) on the 24 unindexed pre-states, one checkpoint before each op, \
rollbacks newest to oldest (every checkpoint index); retention: pre-states {{empty, full}}, scripts of length 1..2, max_checkpoints 1..len; \
repeat: full pre-state, scripts of length 1 (every cp) and 2 (cp 0), drivers mgr_sep (blobs in their own store) and router. \
variants: full pre-state + emb:d3/emb:plain on each of the 17 TensorStore constructors {{new, default, with_capacity(0|4096), with_bloom_filter(1000,0.01|1,0.5), with_default_bloom_filter, with_instrumentation, \
with_bloom_and_instrumentation, open_durable, open_durable_with_bloom, recover (no / empty snapshot), recover_with_bloom, load_snapshot, load_snapshot_with_bloom_filter, load_snapshot_compressed}}: \
in place after each of the 14 ops / clear / 4 pairs around the snapshot; into a fresh store of each of the 17 constructors from src {{new, bloom, durable}} (2 snapshot positions). \
choice: 5 families of 3 related checkpoint names (prefix, case, spaces, quotes, >28 chars) x all 6 creation orders + the id-text family (2 orders): mgr_sep every target by name then by id, router one rollback per world (every target by name, one by id){}",
                 if thorough { ". thorough: additionally every (also disabled-op) script of length <= 2 over all 14 ops with every snapshot position / fresh restore, single-checkpoint rollbacks [0], \
2 checkpoint/rollback cycles (router: 24 unindexed pre-states; scripts with a disabled op: restore + mgr, 1 cycle); enabled scripts of length 3 over the 11 stated ops (mgr on the 24 unindexed pre-states + full indexed; restore, router and retention with 4 checkpoints on the 2 full pre-states); retention on all 32 pre-states (mgr) with length <= 2; \
plus 600 seeded random cases with scripts of length 4..5 (not exhaustive)" } else { "" }),
        true,
        &["tensor_store::TensorStore::snapshot_bytes", "TensorStore::restore_from_bytes", "tensor_checkpoint::CheckpointManager::create", "CheckpointManager::rollback",
          "CheckpointManager::list", "RetentionManager::enforce", "query_router::QueryRouter::execute_parsed(CHECKPOINT|ROLLBACK TO|CHECKPOINTS)"]);
    rep.declare(OB_RESTORE, "TensorStore::restore_from_bytes");
    rep.declare(OB_SLABS, "TensorStore::restore_from_bytes (EmbeddingSlab snapshot)");
    rep.declare(OB_QUERIES, "CheckpointManager::{create,rollback} / QueryRouter CHECKPOINT, ROLLBACK TO");
    rep.declare(OB_DERIVED, "CheckpointManager::rollback / QueryRouter ROLLBACK TO");
    rep.declare(OB_COUNTERS, "CheckpointManager::rollback / QueryRouter ROLLBACK TO");
    rep.declare(OB_RETAIN, "RetentionManager::enforce via CheckpointManager::create");
    rep.declare(OB_RETAIN_RB, "CheckpointManager::rollback on retained checkpoints");
    rep.declare(OB_REPEAT, "CheckpointManager::rollback / QueryRouter ROLLBACK TO");
    rep.declare(OB_VARIANTS, "TensorStore::restore_from_bytes on every TensorStore constructor");
    rep.declare(OB_UNSEEN, "TensorStore::restore_from_bytes into a store whose Bloom filter has not seen the keys");
    rep.declare(OB_CHOICE, "CheckpointManager::rollback(name | id) / QueryRouter ROLLBACK TO '<name>'");

    let pres = pre_states();
    let full = json!({"rows": 2, "idx": false, "graph": true, "emb": true, "kv": true});
    let empty = json!({"rows": 0, "idx": false, "graph": false, "emb": false, "kv": false});
    let idx = |p: &Value| p["idx"] == true;

    // ---- exhaustive core (both tiers) -----------------------------------------------------------
    // (each TensorStore::new / restore_from_bytes fills a 16 MB embedding chunk, ~2-3 ms: the quick tier
    //  affords ~2000 cases; pairs of ops run on the full pre-states here and on every pre-state in thorough)
    let is_full = |p: &Value| p["rows"] == 2 && p["graph"] == true && p["emb"] == true && p["kv"] == true;
    for pre in &pres {
        for s in scripts(pre, BASE_OPS, 0, if is_full(pre) { 2 } else { 1 }, true) {
            record(&mut rep, &json!({"kind": "restore", "pre": pre, "script": s, "at": 0, "fresh": s.is_empty()}));
            if s.len() == 1 { record(&mut rep, &json!({"kind": "restore", "pre": pre, "script": s, "at": 1, "fresh": true})); }
            record(&mut rep, &json!({"kind": "rollback", "driver": "mgr", "pre": pre, "script": s, "cps": desc(s.len()), "cycles": 1}));
            if !idx(pre) { record(&mut rep, &json!({"kind": "rollback", "driver": "router", "pre": pre, "script": s, "cps": desc(s.len()), "cycles": 1})); }
        }
    }
    for (pre, driver) in [(&empty, "mgr"), (&full, "mgr"), (&full, "router")] { for s in scripts(pre, BASE_OPS, 1, 2, true) { for max in 1..=s.len() {
        record(&mut rep, &json!({"kind": "retention", "driver": driver, "pre": pre, "script": s, "max": max, "reps": 3}));
    } } }
    // checkpoints that share a name (targets are ids, so only the manager driver): same clauses
    for pre in [&empty, &full] { for s in scripts(pre, BASE_OPS, 1, 2, true) { for max in 1..=s.len() {
        record(&mut rep, &json!({"kind": "retention", "driver": "mgr", "pre": pre, "script": s, "max": max, "reps": 1, "names": "same"}));
    } } }
    for driver in ["mgr_sep", "router"] { for s in scripts(&full, BASE_OPS, 1, 2, true) { for cp in 0..=s.len() {
        if s.len() == 2 && (cp > 0 || driver == "mgr_sep") { continue; }
        record(&mut rep, &json!({"kind": "repeat", "driver": driver, "pre": full, "script": s, "cp": cp}));
    } } }
    rep.sample(json!({"kind": "restore", "pre": full, "script": ["del_row", "add_node"], "at": 0, "fresh": false}));
    rep.sample(json!({"kind": "rollback", "driver": "router", "pre": full, "script": ["del_node", "put_emb"], "cps": [1, 0], "cycles": 1}));
    rep.sample(json!({"kind": "retention", "driver": "mgr", "pre": full, "script": ["ins_row", "del_key"], "max": 2, "reps": 3}));
    rep.sample(json!({"kind": "repeat", "driver": "router", "pre": full, "script": ["ins_row"], "cp": 0}));

    // ---- store constructor variants, related checkpoint names (both tiers; worker threads, see par_outcomes)
    let ext = extension_cases(&full, thorough);
    for (case, outs) in ext.iter().zip(par_outcomes(&ext, 8)) {
        rep.eval(outs.iter().any(|o| o.nontrivial));
        for o in outs { rep.check(o.ob, o.ok, &|| case.clone(), &|| o.detail.clone()); }
    }
    rep.sample(json!({"kind": "variants", "src": "bloom", "dst": "inplace", "pre": full, "script": ["del_key"], "at": 0}));
    rep.sample(json!({"kind": "choice", "driver": "mgr_sep", "pre": full, "names": ["v1", "v10", "v1.1"], "order": [0, 1, 2], "targets": [0, 1, 2], "by": "both"}));

    // ---- thorough -------------------------------------------------------------------------------
    if thorough {
        for pre in &pres {
            let enabled: std::collections::HashSet<Vec<&str>> = scripts(pre, OPS.len(), 0, 2, true).into_iter().collect();
            for s in scripts(pre, OPS.len(), 0, 2, false) {
                if enabled.contains(&s) {
                    for at in 0..=s.len() { record(&mut rep, &json!({"kind": "restore", "pre": pre, "script": s, "at": at, "fresh": at == s.len()})); }
                    for driver in ["mgr", "router"] {
                        // (the B-tree index of the indexed pre-states is not reachable from text: router on the 24 others)
                        if driver == "router" && idx(pre) { continue; }
                        record(&mut rep, &json!({"kind": "rollback", "driver": driver, "pre": pre, "script": s, "cps": desc(s.len()), "cycles": 2}));
                    }
                    if s.len() == 2 && !idx(pre) { record(&mut rep, &json!({"kind": "rollback", "driver": "mgr", "pre": pre, "script": s, "cps": [0], "cycles": 1})); }
                } else {
                    // a script with an op that fails / changes nothing from this pre-state
                    record(&mut rep, &json!({"kind": "restore", "pre": pre, "script": s, "at": 0, "fresh": false}));
                    record(&mut rep, &json!({"kind": "rollback", "driver": "mgr", "pre": pre, "script": s, "cps": desc(s.len()), "cycles": 1}));
                }
            }
            for s in scripts(pre, BASE_OPS, 3, 3, true) {
                if idx(pre) && !is_full(pre) { continue; }
                record(&mut rep, &json!({"kind": "rollback", "driver": "mgr", "pre": pre, "script": s, "cps": desc(3), "cycles": 1}));
                if is_full(pre) {
                    record(&mut rep, &json!({"kind": "restore", "pre": pre, "script": s, "at": 0, "fresh": false}));
                    record(&mut rep, &json!({"kind": "rollback", "driver": "router", "pre": pre, "script": s, "cps": desc(3), "cycles": 1}));
                    for max in 2..=3 { record(&mut rep, &json!({"kind": "retention", "driver": if idx(pre) { "mgr" } else { "router" }, "pre": pre, "script": s, "max": max, "reps": 1})); }
                }
            }
            for s in scripts(pre, BASE_OPS, 1, 2, true) { for max in 1..=s.len() {
                if !(is_full(pre) && !idx(pre)) && *pre != empty { record(&mut rep, &json!({"kind": "retention", "driver": "mgr", "pre": pre, "script": s, "max": max, "reps": 1})); }
            } }
        }
        let mut rng = Rng(seed ^ 0xC08);
        for _ in 0..600 {
            let pre = &pres[rng.below(pres.len() as u64) as usize];
            let n = 4 + rng.below(2) as usize;
            let s: Vec<&str> = (0..n).map(|_| OPS[rng.below(OPS.len() as u64) as usize]).collect();
            match rng.below(3) {
                0 => record(&mut rep, &json!({"kind": "restore", "pre": pre, "script": s, "at": rng.below(n as u64 + 1), "fresh": true})),
                // any rollback order: blobs in their own store, so a rollback does not remove checkpoints (see C08.rollback.repeat)
                1 => record(&mut rep, &json!({"kind": "rollback", "driver": "mgr_sep", "pre": pre, "script": s, "cps": &[2usize, 0, 1][..1 + rng.below(3) as usize], "cycles": 2})),
                _ => record(&mut rep, &json!({"kind": "retention", "driver": "mgr", "pre": pre, "script": s, "max": 1 + rng.below(4), "reps": 2})),
            }
        }
    }
    let _ = std::fs::remove_dir_all(&dir);
    rep
}

pub fn replay(ob: &str, case: &Value) -> Result<String, String> {
    let outs = eval_case(case);
    let _ = std::fs::remove_dir(run_dir()); // the parent of a "variants" case's scratch directory (empty by now)
    let mine: Vec<&Outcome> = outs.iter().filter(|o| o.ob == ob).collect();
    if mine.is_empty() { return Err(format!("case kind {:?} does not evaluate obligation {ob}", case["kind"])); }
    match mine.iter().find(|o| !o.ok) {
        Some(o) => Err(o.detail.clone()),
        None => Ok(format!("{ob} holds for this case{}", if mine.iter().any(|o| o.nontrivial) { "" } else { " (trivially: the script did not change the view)" })),
    }
}
