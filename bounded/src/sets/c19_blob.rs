//! C19 (bounded): tensor_blob::BlobStore returns the stored bytes and never collects live data.
//!
//! Everything runs on an in-memory `TensorStore` (no files) and a tokio current-thread runtime
//! built by the harness.  Chunk records are observed through the public `BlobStore::store()`
//! handle: keys `_blob:chunk:sha256:<hex>` with fields `_data`, `_size`, `_refs`, `_created`;
//! artifact records are `_blob:meta:<uuid>`.
//!
//! Domains (all enumerated exhaustively, see `run`):
//!  * chunk   : `Chunker::chunk` on every {0x00,0xFF}-string of length <= 9 and on pattern data of
//!              every length 0..=3cs+7, several chunk sizes.
//!  * putget  : sizes {0,1,cs-1,cs,cs+1,3cs+7} x chunk sizes x {put, writer all-at-once,
//!              writer byte-by-byte (size <= 5000), writer in pieces of cs+1}; four ways of reading.
//!  * seq     : every ENABLED op sequence up to a length bound over
//!              {put<slot>:<content>, del<slot>, gc, full_gc, repair}; a ghost model (slot -> bytes,
//!              refs(chunk) = number of (artifact, position) references) is compared with the whole
//!              store view after the last op of every sequence (every prefix is itself enumerated).
//!              Slot A is written with `put`, slot B with a writer fed pieces of cs+1 bytes, slot C
//!              with a writer fed single bytes (4099-byte pieces when the content is > 64 bytes).
//!              `put<slot>` is enabled iff the slot holds no artifact, `del<slot>` iff the slot holds
//!              or has held one (a second delete must answer NotFound and change nothing).
//!              `gc` first ages every chunk (`_created := 0` through the store handle; min age is 1 h,
//!              so the decision "old enough" never depends on the wall clock), then calls `gc()`.
//!  * dedup   : the length-5 sequences putA:x putB:y del<first> del<second> full_gc through the same
//!              runner (all x, y, both delete orders, chunk sizes {1,4,1024}).
//!  * verify  : one or two artifacts, every chunk position of the first one damaged through the
//!              underlying store (byte flip at every / first-middle-last offset, masks 0x01 and 0x80;
//!              chunk key deleted; `_refs` overwritten followed by `repair`).
//!  * inflight: EXTENSION (obligation C19.gc.inflight, not a row of the contract table): sequences
//!              [putA:pre] begW:w [mid] finW [putB:P delW gc] through the same runner, where begW opens a
//!              streaming writer and feeds it the first cs+1 bytes, finW feeds the rest and calls `finish`,
//!              mid in {nothing, gc, full_gc, repair, delA}.  The ghost counts the complete chunks the open
//!              writer has stored as references.  All checks of such a sequence are folded into ONE finding
//!              of C19.gc.inflight, so they never touch the six table obligations.
//!  * aged    : EXTENSION (obligation C19.gc.aged_sequences): everywhere else `gc_min_age` is 1 h and `gc`
//!              first back-dates every chunk, so an incremental collection never meets a chunk that is
//!              too young.  Here `gc_min_age` is 1 s on the REAL clock, `gc` does not touch `_created`,
//!              and the alphabet has `wait` (sleep min age + 1.1 s: `_created` has 1 s resolution).
//!              Scripts putA:x delA [m1] putB:y m2 [delB wait gc] and three pairwise overlapping
//!              artifacts, m1/m2 over {gc, full_gc, repair, wait} (see `aged_scripts`).  Same per-step
//!              checks as `seq` (ghost refcounts per occurrence, read-back, verify, no referenced chunk
//!              removed) + "no artifact exists and a gc directly follows a wait => no chunk keys left".
//!              Every script runs on its own store; all scripts are tasks of ONE current-thread runtime,
//!              so the sleeps overlap (the only real waiting in this set, ~3 x 2.1 s).  All checks of a
//!              script are folded into ONE finding of C19.gc.aged_sequences.
//!  * opts    : EXTENSION (obligation C19.options.delete): everywhere else artifacts are written with `PutOptions::new()`
//!              (default content type, no tags, no links, no custom metadata).  Here the script
//!              put(sibling S: content P, text/plain, tag t1, link e1, meta k) ; write(target T) ; [mutate T's metadata] ;
//!              delete(unknown id) ; delete(T) ; delete(T) ; gc ; full_gc ; delete(S) ; gc ; full_gc runs for EVERY combination of
//!              content type {default, "", "text/plain"} x tags {none, t1, t1 twice, t1+t2} x links {none, e1, e1 twice} x custom
//!              metadata {none, one key} x way of writing {put, writer cs+1 pieces, writer single bytes} x content {P = all chunks
//!              shared with S, Q = two chunks shared, E = ZERO bytes through the writer (without a `write` call / with one empty
//!              `write`)} x chunk size {1, 4, 1024}, and (chunk size 4, content Q) for every combination x metadata mutation
//!              {update_metadata(content_type "" / image/png), tag new / present, untag present / absent, link new / present,
//!              unlink present / absent, set_meta + update_metadata(filename, delete_meta, set_meta), all of them}.
//!              After EVERY step the whole view is compared with a ghost: list, by_tag(t1..t3), by_content_type (4 types),
//!              artifacts_for(e1..e3) as id sets; per artifact metadata (content type, tag set, link set, custom map, size,
//!              chunk count, checksum, filename), links, get, reader, exists, verify; stored `_refs` of every chunk = number of
//!              references; stats.  delete(existing) must be Ok, delete(unknown) / the second delete Err(NotFound) with the
//!              whole store (every key, every record) unchanged; gc (every chunk back-dated) / full_gc remove no referenced
//!              chunk and leave no unreferenced one; after both deletes no chunk and no query result is left.
//!              All checks of a script are folded into ONE finding of C19.options.delete.
use crate::fw::{Report, Rng, Tier};
use serde_json::{json, Value};
use std::collections::{BTreeMap, BTreeSet};
use std::time::Duration;
use tensor_blob::{compute_hash, verify_chunk, BlobConfig, BlobError, BlobStore, Chunk, Chunker, MetadataUpdates, PutOptions};
use tensor_store::{ScalarValue, TensorStore, TensorValue};
use tokio::runtime::Runtime;

const CHUNK_PREFIX: &str = "_blob:chunk:";
const META_PREFIX: &str = "_blob:meta:";

const O_PART: &str = "C19.chunk.partition";
const O_PG: &str = "C19.put_get";
const O_DD: &str = "C19.dedup_delete";
const O_RC: &str = "C19.refcount.view";
const O_GC: &str = "C19.gc.safe";
const O_VF: &str = "C19.verify";
/// EXTENSION beyond the six clauses of the contract table: a collection that runs between two
/// `write` calls of an open streaming writer.  It is a separate obligation so that the six table
/// clauses are judged on their own; set INFLIGHT to false to drop it.
const O_IF: &str = "C19.gc.inflight";
const INFLIGHT: bool = true;
/// EXTENSION: sequences on the real clock with a non-zero gc_min_age (see the `aged` domain)
const O_AGED: &str = "C19.gc.aged_sequences";
const AGED_MIN_AGE_MS: u64 = 1000;
/// EXTENSION: the put / stream-write / delete / gc / verify script over artifacts written with options and metadata (see the `opts` domain)
const O_OPT: &str = "C19.options.delete";

struct Finding { ob: &'static str, ok: bool, detail: String }

/// collects violations per obligation for one step; an obligation that was `touch`ed with no
/// violation yields an ok finding
#[derive(Default)]
struct Step { v: BTreeMap<&'static str, Vec<String>> }
impl Step {
    fn touch(&mut self, ob: &'static str) { self.v.entry(ob).or_default(); }
    fn req(&mut self, ob: &'static str, ok: bool, msg: impl FnOnce() -> String) {
        let e = self.v.entry(ob).or_default();
        if !ok && e.len() < 6 { e.push(msg()); }
    }
    fn into_findings(self, prefix: &str, out: &mut Vec<Finding>) {
        for (ob, v) in self.v {
            let ok = v.is_empty();
            out.push(Finding { ob, ok, detail: if ok { String::new() } else { format!("{prefix}{}", v.join("; ")) } });
        }
    }
}

fn mk_rt() -> Runtime { tokio::runtime::Builder::new_current_thread().enable_all().build().expect("tokio runtime") }

fn pat(i: usize) -> u8 { ((i * 37 + 11) % 251) as u8 }
fn pat2(i: usize) -> u8 { ((i.wrapping_mul(131).wrapping_add(7)) ^ (i >> 8) ^ (i >> 15)) as u8 }

/// contents: E empty, O one byte (first byte of P), P two chunks + ceil(cs/2) bytes of pattern,
/// Q same first two chunks as P and a different tail, R the first chunk of P twice + half a chunk
/// (one artifact referencing the same chunk at two positions), S unrelated data of P's length.
fn content(kind: char, cs: usize) -> Vec<u8> {
    let half = cs.div_ceil(2);
    let p: Vec<u8> = (0..2 * cs + half).map(pat).collect();
    match kind {
        'E' => vec![],
        'O' => vec![pat(0)],
        'P' => p,
        'Q' => { let mut q = p.clone(); for b in &mut q[2 * cs..] { *b = !*b; } q },
        'R' => { let mut r = p[..cs].to_vec(); r.extend_from_slice(&p[..cs]); r.extend_from_slice(&p[..half]); r },
        'S' => (0..2 * cs + half).map(|i| pat2(i + 1000)).collect(),
        _ => panic!("harness: unknown content {kind}"),
    }
}

/// harness-side (ghost) chunking: independent of Chunker, only uses the public hash function
fn ghost_keys(cs: usize, data: &[u8]) -> Vec<String> {
    let mut out = vec![];
    let mut i = 0;
    while i < data.len() {
        let j = (i + cs).min(data.len());
        out.push(format!("{CHUNK_PREFIX}{}", compute_hash(&data[i..j])));
        i = j;
    }
    out
}

fn int_field(t: &tensor_store::TensorData, f: &str) -> Option<i64> {
    match t.get(f) { Some(TensorValue::Scalar(ScalarValue::Int(i))) => Some(*i), _ => None }
}
fn bytes_field(t: &tensor_store::TensorData, f: &str) -> Option<Vec<u8>> {
    match t.get(f) { Some(TensorValue::Scalar(ScalarValue::Bytes(b))) => Some(b.clone()), _ => None }
}

/// whole chunk view: key -> stored `_refs`
fn chunk_view(store: &TensorStore) -> BTreeMap<String, Option<i64>> {
    store.scan(CHUNK_PREFIX).into_iter().map(|k| { let r = store.get(&k).ok().and_then(|t| int_field(&t, "_refs")); (k, r) }).collect()
}
fn meta_ids(store: &TensorStore) -> BTreeSet<String> {
    store.scan(META_PREFIX).into_iter().map(|k| k.trim_start_matches(META_PREFIX).to_string()).collect()
}
/// "time passes": make every stored chunk older than any min age
fn age_chunks(store: &TensorStore) {
    for k in store.scan(CHUNK_PREFIX) {
        if let Ok(mut t) = store.get(&k) {
            t.set("_created", TensorValue::Scalar(ScalarValue::Int(0)));
            store.put(k, t).expect("harness: in-memory put");
        }
    }
}

async fn new_blob_aged(ts: TensorStore, cs: usize, batch: usize, min_age: Duration) -> Result<BlobStore, BlobError> {
    let cfg = BlobConfig::new().with_chunk_size(cs).with_gc_batch_size(batch).with_gc_min_age(min_age);
    BlobStore::new(ts, cfg).await
}
async fn new_blob_on(ts: TensorStore, cs: usize, batch: usize) -> Result<BlobStore, BlobError> { new_blob_aged(ts, cs, batch, Duration::from_secs(3600)).await }
async fn new_blob(cs: usize, batch: usize) -> Result<BlobStore, BlobError> { new_blob_on(TensorStore::new(), cs, batch).await }

/// slot A: single put; slot B: writer, pieces of cs+1; slot C: writer, single bytes (4099 if large)
async fn do_put(bs: &BlobStore, slot: char, data: &[u8], cs: usize) -> Result<String, BlobError> {
    match slot {
        'A' => bs.put("a.bin", data, PutOptions::new()).await,
        _ => {
            let piece = if slot == 'B' { cs + 1 } else if data.len() <= 64 { 1 } else { 4099 };
            let mut w = bs.writer(if slot == 'B' { "b.bin" } else { "c.bin" }, PutOptions::new()).await?;
            for p in data.chunks(piece) { w.write(p).await?; }
            w.finish().await
        },
    }
}

struct Art { id: String, data: Vec<u8>, keys: Vec<String> }

/// refs(chunk) = number of (artifact, position) references; `pending` = the complete chunks an OPEN
/// writer has already stored (empty in the six table obligations, which have no open writer)
fn ghost_refs(slots: &BTreeMap<char, Art>, pending: &[String]) -> BTreeMap<String, i64> {
    let mut g = BTreeMap::new();
    for a in slots.values() { for k in &a.keys { *g.entry(k.clone()).or_insert(0) += 1; } }
    for k in pending { *g.entry(k.clone()).or_insert(0) += 1; }
    g
}

type Open = Option<(tensor_blob::BlobWriter, Vec<u8>, usize)>;
fn pending_keys(cs: usize, open: &Open) -> Vec<String> {
    match open { Some((_, data, cut)) => ghost_keys(cs, &data[..cut - cut % cs]), None => vec![] }
}

#[derive(Default)]
struct SeqOut { findings: Vec<Finding>, present: Vec<char>, ever: Vec<char>, evals: u64, nontrivial: u64, young_skips: u64 }

fn short(k: &str) -> &str { let s = k.trim_start_matches(CHUNK_PREFIX).trim_start_matches("sha256:"); &s[..s.len().min(8)] }

/// checks that hold after EVERY op: refcount view, chunk records intact, stats, artifact set,
/// every existing artifact reads back (under `own`) and verifies
async fn state_checks(st: &mut Step, own: &'static str, bs: &BlobStore, slots: &BTreeMap<char, Art>, pending: &[String], after: &BTreeMap<String, Option<i64>>) {
    let store = bs.store();
    let ghost = ghost_refs(slots, pending);
    st.touch(O_RC);
    for (k, r) in after {
        let g = ghost.get(k).copied().unwrap_or(0);
        st.req(O_RC, *r == Some(g), || format!("chunk {} stored _refs {:?} but ghost refs {}", short(k), r, g));
        st.req(O_RC, r.map_or(true, |x| x >= 0), || format!("chunk {} negative _refs {:?}", short(k), r));
        let vc = verify_chunk(store, k);
        st.req(O_RC, vc == Ok(true), || format!("chunk record {} no longer matches its key: {:?}", short(k), vc));
    }
    for (k, g) in &ghost {
        st.req(O_RC, after.contains_key(k), || format!("chunk {} with ghost refs {} is not stored", short(k), g));
    }
    match bs.stats().await {
        Ok(s) => {
            let orphans = after.iter().filter(|(k, _)| !ghost.contains_key(*k)).count();
            let total: usize = slots.values().map(|a| a.data.len()).sum();
            st.req(O_RC, s.chunk_count == after.len() && s.orphaned_chunks == orphans && s.artifact_count == slots.len() && s.total_bytes == total,
                   || format!("stats {:?} but view has {} chunks, {} with ghost refs 0, {} artifacts, {} bytes", s, after.len(), orphans, slots.len(), total));
        },
        Err(e) => st.req(O_RC, false, || format!("stats() = Err({e:?})")),
    }
    let ids: BTreeSet<String> = slots.values().map(|a| a.id.clone()).collect();
    let metas = meta_ids(store);
    st.req(own, metas == ids, || format!("artifact records {:?} but ghost artifacts {:?}", metas, ids));
    st.touch(O_VF);
    for (s, a) in slots {
        let got = bs.get(&a.id).await;
        st.req(own, got.as_deref() == Ok(&a.data[..]), || format!("artifact {s} ({} bytes) reads back {:?}", a.data.len(), got.as_ref().map(|v| v.len())));
        let ex = bs.exists(&a.id).await;
        st.req(own, ex == Ok(true), || format!("exists({s}) = {ex:?}"));
        let v = bs.verify(&a.id);
        st.req(O_VF, v == Ok(true), || format!("verify(undamaged {s}) = {v:?}"));
    }
}

/// Runs `ops` on the EMPTY store `ts`.  Steps with index < check_from only update the ghost.
async fn exec_seq(ts: TensorStore, cs: usize, batch: usize, ops: &[String], check_from: usize) -> SeqOut { exec_seq_with(ts, cs, batch, None, ops, check_from).await }

/// `aged` = Some(min age in ms): the real-clock domain (no back-dating, `wait` enabled, findings folded
/// into C19.gc.aged_sequences)
async fn exec_seq_with(ts: TensorStore, cs: usize, batch: usize, aged: Option<u64>, ops: &[String], check_from: usize) -> SeqOut {
    let mut out = SeqOut::default();
    assert!(ts.is_empty() && ts.scan("").is_empty(), "harness: sequence must start on an empty store");
    let made = match aged { Some(ms) => new_blob_aged(ts, cs, batch, Duration::from_millis(ms)).await, None => new_blob_on(ts, cs, batch).await };
    let bs = match made {
        Ok(b) => b,
        Err(e) => { out.findings.push(Finding { ob: O_PG, ok: false, detail: format!("BlobStore::new(chunk {cs}) = Err({e:?})") }); return out; },
    };
    let store = bs.store().clone();
    let mut slots: BTreeMap<char, Art> = BTreeMap::new();
    let mut dead: BTreeMap<char, String> = BTreeMap::new();
    let mut open: Open = None;
    let inflight = ops.iter().any(|o| o.starts_with("beg"));
    for (i, op) in ops.iter().enumerate() {
        let checking = i >= check_from;
        let before = if checking { chunk_view(&store) } else { BTreeMap::new() };
        let metas_before = if checking { meta_ids(&store) } else { BTreeSet::new() };
        let mut st = Step::default();
        let own: &'static str;
        if let Some(rest) = op.strip_prefix("put") {
            own = O_PG;
            let mut it = rest.chars();
            let slot = it.next().expect("harness: slot");
            let kind = it.nth(1).expect("harness: content");
            assert!(!slots.contains_key(&slot), "harness: put on occupied slot (disabled op)");
            let data = content(kind, cs);
            let keys = ghost_keys(cs, &data);
            let r = do_put(&bs, slot, &data, cs).await;
            match r {
                Ok(id) => {
                    if checking {
                        st.touch(O_DD);
                        let after = chunk_view(&store);
                        let mut want: BTreeSet<&String> = before.keys().collect();
                        want.extend(keys.iter());
                        let have: BTreeSet<&String> = after.keys().collect();
                        st.req(O_DD, have == want, || format!("chunk keys after put: {} stored, expected {} (previous {} + distinct new content chunks, shared ones stored once)", have.len(), want.len(), before.len()));
                        match bs.metadata(&id).await {
                            Ok(m) => st.req(O_PG, m.size == data.len() && m.chunk_count == keys.len() && m.checksum == compute_hash(&data) && m.chunk_size == cs && m.id == id,
                                            || format!("metadata size {} chunk_count {} chunk_size {} checksum {} for {} bytes / {} chunks", m.size, m.chunk_count, m.chunk_size, m.checksum, data.len(), keys.len())),
                            Err(e) => st.req(O_PG, false, || format!("metadata(new artifact) = Err({e:?})")),
                        }
                    }
                    dead.remove(&slot);
                    slots.insert(slot, Art { id, data, keys });
                },
                Err(BlobError::EmptyData) if slot == 'A' && data.is_empty() => {
                    // documented refusal of put(empty): nothing may have been stored
                    if checking {
                        let after = chunk_view(&store);
                        st.req(O_PG, after == before && meta_ids(&store) == metas_before, || "put(empty) answered EmptyData but changed the store".to_string());
                    }
                },
                Err(e) => st.req(O_PG, false, || format!("{op} ({} bytes) = Err({e:?})", data.len())),
            }
        } else if let Some(rest) = op.strip_prefix("beg") {
            // open a streaming writer for slot W and feed it the first cs+1 bytes
            own = O_IF;
            let kind = rest.chars().nth(2).expect("harness: content");
            assert!(open.is_none() && !slots.contains_key(&'W'), "harness: one open writer at a time");
            let data = content(kind, cs);
            let cut = data.len().min(cs + 1);
            match bs.writer("w.bin", PutOptions::new()).await {
                Ok(mut w) => {
                    let r = w.write(&data[..cut]).await;
                    st.req(own, r.is_ok(), || format!("write of the first {cut} bytes = {r:?}"));
                    open = Some((w, data, cut));
                },
                Err(e) => st.req(own, false, || format!("writer() = Err({e:?})")),
            }
        } else if op.starts_with("fin") {
            // feed the rest and finish; an honest Err of finish means "no artifact"
            own = O_IF;
            let (mut w, data, cut) = open.take().expect("harness: fin without beg");
            let r = match w.write(&data[cut..]).await { Ok(()) => w.finish().await, Err(e) => Err(e) };
            if let Ok(id) = r {
                let keys = ghost_keys(cs, &data);
                dead.remove(&'W');
                slots.insert('W', Art { id, data, keys });
            }
        } else if let Some(rest) = op.strip_prefix("del") {
            own = O_DD;
            let slot = rest.chars().next().expect("harness: slot");
            if let Some(a) = slots.remove(&slot) {
                let r = bs.delete(&a.id).await;
                st.req(O_DD, r.is_ok(), || format!("delete(existing {slot}) = {r:?}"));
                if checking {
                    let ex = bs.exists(&a.id).await;
                    let g = bs.get(&a.id).await;
                    st.req(O_DD, ex == Ok(false) && matches!(g, Err(BlobError::NotFound(_))), || format!("after delete: exists = {ex:?}, get = {:?}", g.map(|v| v.len())));
                    let after = chunk_view(&store);
                    st.req(O_DD, after.keys().all(|k| before.contains_key(k)), || "delete created chunk keys".to_string());
                }
                dead.insert(slot, a.id);
            } else {
                let id = dead.get(&slot).expect("harness: delete of a never-used slot (disabled op)").clone();
                let r = bs.delete(&id).await;
                if checking {
                    st.req(O_DD, matches!(r, Err(BlobError::NotFound(_))), || format!("second delete of {slot} = {r:?}, expected NotFound"));
                    st.req(O_DD, chunk_view(&store) == before && meta_ids(&store) == metas_before, || "second delete changed chunk records / refcounts".to_string());
                }
            }
        } else if op == "wait" {
            // time passes: longer than the min age plus the 1 s resolution of `_created`
            own = O_AGED;
            let ms = aged.expect("harness: `wait` only in the aged domain");
            tokio::time::sleep(Duration::from_millis(ms + 1100)).await;
        } else {
            own = if op == "repair" { O_VF } else { O_GC };
            let r: Result<(), String> = match op.as_str() {
                "gc" => { if aged.is_none() { age_chunks(&store); } bs.gc().await.map(|_| ()).map_err(|e| format!("{e:?}")) },
                "full_gc" => bs.full_gc().await.map(|_| ()).map_err(|e| format!("{e:?}")),
                "repair" => bs.repair().map(|_| ()).map_err(|e| format!("{e:?}")),
                _ => panic!("harness: unknown op {op}"),
            };
            st.req(own, r.is_ok(), || format!("{op}() = Err({})", r.clone().unwrap_err()));
            if checking {
                let ghost = ghost_refs(&slots, &pending_keys(cs, &open));
                let after = chunk_view(&store);
                for k in before.keys().filter(|k| !after.contains_key(*k)) {
                    st.req(own, !ghost.contains_key(k), || format!("{op} removed chunk {} which has ghost refs {}", short(k), ghost[k]));
                }
                st.req(own, after.keys().all(|k| before.contains_key(k)), || format!("{op} created chunk keys"));
                if op == "full_gc" && slots.is_empty() && open.is_none() {
                    st.req(own, after.is_empty(), || format!("no artifact exists, full_gc left {} chunk keys", after.len()));
                }
                if aged.is_some() && op == "gc" {
                    // every stored chunk is older than the min age when the collection directly follows a `wait`
                    if i > 0 && ops[i - 1] == "wait" && slots.is_empty() && open.is_none() && before.len() <= batch {
                        st.req(own, after.is_empty(), || format!("no artifact exists and every chunk is older than gc_min_age, gc left {} chunk keys", after.len()));
                    }
                    if after.keys().any(|k| !ghost.contains_key(k)) { out.young_skips += 1; }
                }
            }
        }
        if checking {
            let after = chunk_view(&store);
            state_checks(&mut st, own, &bs, &slots, &pending_keys(cs, &open), &after).await;
            out.evals += 1;
            if after != before { out.nontrivial += 1; }
        }
        // a prefix step (i < check_from) is the last step of an earlier enumerated sequence: recorded there
        if checking { st.into_findings(&format!("step {i} `{op}`: "), &mut out.findings); }
    }
    // sequences with an open writer are the EXTENSION domain: everything they show is reported under
    // the extension obligation, never under one of the six table obligations
    if inflight || aged.is_some() {
        let bad: Vec<String> = out.findings.iter().filter(|f| !f.ok).map(|f| f.detail.clone()).collect();
        let shown = bad.iter().take(8).cloned().collect::<Vec<_>>().join(" || ");
        out.findings = vec![Finding { ob: if aged.is_some() { O_AGED } else { O_IF }, ok: bad.is_empty(), detail: if bad.len() > 8 { format!("{shown} || (+{} more)", bad.len() - 8) } else { shown } }];
    }
    out.present = slots.keys().copied().collect();
    out.ever = dead.keys().copied().collect();
    out
}

// ---------------------------------------------------------------- put / get

const MODES: [&str; 4] = ["put", "w_all", "w_bytes", "w_cs1"];

async fn exec_putget(cs: usize, size: usize, mode: &str) -> Vec<Finding> {
    let mut out = vec![];
    let mut st = Step::default();
    st.touch(O_PG);
    let data: Vec<u8> = (0..size).map(pat2).collect();
    let bs = match new_blob(cs, 100).await {
        Ok(b) => b,
        Err(e) => { st.req(O_PG, false, || format!("BlobStore::new(chunk {cs}) = Err({e:?})")); st.into_findings("", &mut out); return out; },
    };
    let r: Result<String, BlobError> = async {
        match mode {
            "put" => bs.put("f", &data, PutOptions::new()).await,
            _ => {
                let piece = match mode { "w_all" => data.len().max(1), "w_bytes" => 1, _ => cs + 1 };
                let mut w = bs.writer("f", PutOptions::new()).await?;
                for p in data.chunks(piece) { w.write(p).await?; }
                if mode == "w_all" { w.write(&[]).await?; }
                w.finish().await
            },
        }
    }.await;
    match r {
        Err(BlobError::EmptyData) if mode == "put" && size == 0 => {
            let n = bs.store().scan("_blob:").len();
            st.req(O_PG, n == 0, || format!("put(empty) answered EmptyData but left {n} keys"));
        },
        Err(e) => st.req(O_PG, false, || format!("write of {size} bytes = Err({e:?})")),
        Ok(id) => {
            let g = bs.get(&id).await;
            st.req(O_PG, g.as_deref() == Ok(&data[..]), || format!("get = {:?} (len), expected the {size} bytes written", g.as_ref().map(|v| v.len())));
            let want_chunks = if size == 0 { 0 } else { (size - 1) / cs + 1 };
            match bs.reader(&id).await {
                Ok(mut rd) => {
                    st.req(O_PG, rd.total_size() == size && rd.chunk_count() == want_chunks, || format!("reader total_size {} chunk_count {}, expected {size} / {want_chunks}", rd.total_size(), rd.chunk_count()));
                    let all = rd.read_all().await;
                    st.req(O_PG, all.as_deref() == Ok(&data[..]), || format!("reader.read_all = {:?} (len)", all.as_ref().map(|v| v.len())));
                },
                Err(e) => st.req(O_PG, false, || format!("reader = Err({e:?})")),
            }
            if let Ok(mut rd) = bs.reader(&id).await {
                let mut cat = vec![];
                let mut sizes = vec![];
                loop {
                    match rd.next_chunk().await {
                        Ok(Some(c)) => { sizes.push(c.len()); cat.extend(c); },
                        Ok(None) => break,
                        Err(e) => { st.req(O_PG, false, || format!("next_chunk = Err({e:?})")); break; },
                    }
                }
                let shape = sizes.iter().enumerate().all(|(i, &s)| if i + 1 < sizes.len() { s == cs } else { s >= 1 && s <= cs });
                st.req(O_PG, cat == data && shape && sizes.len() == want_chunks, || format!("next_chunk pieces {:?}.. do not tile the {size} bytes with chunk {cs}", &sizes[..sizes.len().min(6)]));
                let v = rd.verify().await;
                st.req(O_PG, v == Ok(true), || format!("reader.verify = {v:?}"));
            }
            if let Ok(mut rd) = bs.reader(&id).await {
                let mut cat = vec![];
                let mut buf = [0u8; 3];
                let mut guard = 0usize;
                loop {
                    guard += 1;
                    if guard > size + 10 { st.req(O_PG, false, || "reader.read does not terminate".to_string()); break; }
                    match rd.read(&mut buf).await {
                        Ok(0) => break,
                        Ok(n) => cat.extend_from_slice(&buf[..n]),
                        Err(e) => { st.req(O_PG, false, || format!("read = Err({e:?})")); break; },
                    }
                }
                st.req(O_PG, cat == data, || format!("reader.read(3-byte buffer) produced {} bytes, expected the {size} written", cat.len()));
            }
            match bs.metadata(&id).await {
                Ok(m) => st.req(O_PG, m.size == size && m.chunk_count == want_chunks && m.chunk_size == cs && m.checksum == compute_hash(&data),
                                || format!("metadata size {} chunk_count {} chunk_size {}, expected {size} / {want_chunks} / {cs}", m.size, m.chunk_count, m.chunk_size)),
                Err(e) => st.req(O_PG, false, || format!("metadata = Err({e:?})")),
            }
            let ex = bs.exists(&id).await;
            let vf = bs.verify(&id);
            st.req(O_PG, ex == Ok(true) && vf == Ok(true), || format!("exists = {ex:?}, verify = {vf:?}"));
            let keys: BTreeSet<String> = ghost_keys(cs, &data).into_iter().collect();
            let have: BTreeSet<String> = bs.store().scan(CHUNK_PREFIX).into_iter().collect();
            st.req(O_PG, keys == have, || format!("{} chunk keys stored, expected the {} distinct chunks of the data", have.len(), keys.len()));
        },
    }
    st.into_findings(&format!("chunk {cs}, {size} bytes, mode {mode}: "), &mut out);
    out
}

// ---------------------------------------------------------------- chunker

fn exec_chunk(cs: usize, data: &[u8]) -> Vec<Finding> {
    let mut st = Step::default();
    st.touch(O_PART);
    let ch = Chunker::new(cs);
    let pieces: Vec<Chunk> = ch.chunk(data).collect();
    let cat: Vec<u8> = pieces.iter().flat_map(|p| p.data.iter().copied()).collect();
    st.req(O_PART, cat == data, || format!("pieces concatenate to {} bytes, input {} bytes", cat.len(), data.len()));
    for (i, p) in pieces.iter().enumerate() {
        let last = i + 1 == pieces.len();
        st.req(O_PART, p.size == p.data.len(), || format!("piece {i}: size field {} but {} data bytes", p.size, p.data.len()));
        st.req(O_PART, if last { p.data.len() >= 1 && p.data.len() <= cs } else { p.data.len() == cs }, || format!("piece {i} of {} has {} bytes (chunk size {cs})", pieces.len(), p.data.len()));
        st.req(O_PART, p.hash == compute_hash(&p.data) && p.key() == format!("{CHUNK_PREFIX}{}", p.hash) && Chunk::new(p.data.clone()).hash == p.hash,
               || format!("piece {i}: hash {} / key {} is not the content hash of its data", p.hash, p.key()));
        st.req(O_PART, p.hash.len() == 71 && p.hash.starts_with("sha256:"), || format!("piece {i}: hash format {}", p.hash));
    }
    st.req(O_PART, ch.chunk_count(data.len()) == pieces.len(), || format!("chunk_count({}) = {} but {} pieces", data.len(), ch.chunk_count(data.len()), pieces.len()));
    for i in 0..pieces.len() { for j in i + 1..pieces.len() {
        let same = pieces[i].data == pieces[j].data;
        st.req(O_PART, same == (pieces[i].hash == pieces[j].hash) && same == (pieces[i].key() == pieces[j].key()), || format!("pieces {i},{j}: equal data = {same} but equal hash = {}", pieces[i].hash == pieces[j].hash));
    } }
    let again: Vec<String> = ch.chunk(data).map(|c| c.hash).collect();
    st.req(O_PART, again == pieces.iter().map(|p| p.hash.clone()).collect::<Vec<_>>(), || "second chunking of the same data gives different hashes".to_string());
    let mut out = vec![];
    st.into_findings(&format!("chunk size {cs}, {} bytes: ", data.len()), &mut out);
    out
}

fn exec_hash_kat() -> Vec<Finding> {
    let mut st = Step::default();
    let e = compute_hash(b"");
    let a = compute_hash(b"abc");
    st.req(O_PART, e == "sha256:e3b0c44298fc1c149afbf4c8996fb92427ae41e4649b934ca495991b7852b855" && a == "sha256:ba7816bf8f01cfea414140de5dae2223b00361a396177a9cb410ff61f20015ad",
           || format!("compute_hash(\"\") = {e}, compute_hash(\"abc\") = {a}: not SHA-256"));
    let mut out = vec![];
    st.into_findings("", &mut out);
    out
}

// ---------------------------------------------------------------- verify / repair under damage

fn corrupt_report(r: &Result<bool, BlobError>) -> bool {
    matches!(r, Ok(false) | Err(BlobError::ChunkMissing(_)) | Err(BlobError::ChecksumMismatch { .. }))
}

/// damage: "flip:<k>:<j>:<mask>" | "drop:<k>" | "refs:<k>:<v>" on the k-th chunk reference of A
async fn exec_verify(cs: usize, x: char, y: Option<char>, damage: &str) -> Vec<Finding> {
    let mut out = vec![];
    let mut st = Step::default();
    st.touch(O_VF);
    let bs = new_blob(cs, 100).await.expect("harness: config");
    let store = bs.store().clone();
    let mut slots: BTreeMap<char, Art> = BTreeMap::new();
    for (slot, kind) in [('B', Some(x)), ('C', y)] {
        // x is stored through slot B's writer so that the empty content is an artifact as well
        if let Some(kind) = kind {
            let data = content(kind, cs);
            match do_put(&bs, if slot == 'B' { 'B' } else { 'A' }, &data, cs).await {
                Ok(id) => { let keys = ghost_keys(cs, &data); slots.insert(slot, Art { id, data, keys }); },
                Err(BlobError::EmptyData) if data.is_empty() => {},
                Err(e) => st.req(O_VF, false, || format!("setup put {kind} = Err({e:?})")),
            }
        }
    }
    for (s, a) in &slots {
        let v = bs.verify(&a.id);
        st.req(O_VF, v == Ok(true), || format!("verify(undamaged {s}) = {v:?}"));
    }
    let parts: Vec<&str> = damage.split(':').collect();
    if parts[0] != "none" {
        let k: usize = parts[1].parse().expect("harness: k");
        let key = slots[&'B'].keys[k].clone();
        // the k-th chunk of the written bytes (ghost chunking) must be stored: its absence is itself a failure
        let Ok(mut t) = store.get(&key) else {
            st.req(O_VF, false, || format!("chunk {k} of the bytes written to B ({}) is not in the store after put/finish", short(&key)));
            st.into_findings(&format!("chunk {cs}, B={x} C={y:?}, {damage}: "), &mut out);
            return out;
        };
        match parts[0] {
            "flip" => {
                let j: usize = parts[2].parse().expect("harness: j");
                let mask: u8 = parts[3].parse().expect("harness: mask");
                let mut d = bytes_field(&t, "_data").expect("harness: _data");
                d[j] ^= mask;
                t.set("_data", TensorValue::Scalar(ScalarValue::Bytes(d)));
                store.put(key.clone(), t).expect("harness: put");
            },
            "drop" => store.delete(&key).expect("harness: delete"),
            "refs" => {
                let v: i64 = parts[2].parse().expect("harness: v");
                t.set("_refs", TensorValue::Scalar(ScalarValue::Int(v)));
                store.put(key.clone(), t).expect("harness: put");
            },
            _ => panic!("harness: damage {damage}"),
        }
        if parts[0] == "refs" {
            // repair must restore stored refs == ghost and must not hurt any artifact
            let r = bs.repair();
            st.req(O_VF, r.is_ok(), || format!("repair() = {r:?}"));
            let after = chunk_view(&store);
            let ghost = ghost_refs(&slots, &[]);
            for (k2, g) in &ghost {
                st.req(O_VF, after.get(k2) == Some(&Some(*g)), || format!("after repair chunk {} has _refs {:?}, ghost refs {}", short(k2), after.get(k2), g));
            }
            st.req(O_VF, after.keys().all(|k2| ghost.contains_key(k2)), || "after repair a chunk with ghost refs 0 is still stored".to_string());
            for (s, a) in &slots {
                let g = bs.get(&a.id).await;
                let v = bs.verify(&a.id);
                st.req(O_VF, g.as_deref() == Ok(&a.data[..]) && v == Ok(true), || format!("after repair artifact {s}: get = {:?} (len), verify = {v:?}", g.as_ref().map(|b| b.len())));
            }
        } else {
            for (s, a) in &slots {
                let v = bs.verify(&a.id);
                if a.keys.contains(&key) {
                    st.req(O_VF, corrupt_report(&v), || format!("chunk {k} of B damaged ({damage}); verify({s}) = {v:?}, expected a corruption report"));
                } else {
                    st.req(O_VF, v == Ok(true), || format!("artifact {s} does not reference the damaged chunk; verify = {v:?}"));
                }
            }
            let vc = verify_chunk(&store, &key);
            st.req(O_VF, !matches!(vc, Ok(true)), || format!("verify_chunk(damaged) = {vc:?}"));
        }
    }
    st.into_findings(&format!("chunk {cs}, B={x} C={y:?}, {damage}: "), &mut out);
    out
}

fn damages(cs: usize, x: char) -> Vec<String> {
    let data = content(x, cs);
    let mut out = vec!["none".to_string()];
    let mut i = 0;
    let mut k = 0;
    while i < data.len() {
        let n = (data.len() - i).min(cs);
        let offs: Vec<usize> = if n <= 8 { (0..n).collect() } else { vec![0, n / 2, n - 1] };
        for j in offs { for mask in [1u8, 0x80] { out.push(format!("flip:{k}:{j}:{mask}")); } }
        out.push(format!("drop:{k}"));
        for v in [0i64, 7] { out.push(format!("refs:{k}:{v}")); }
        i += n;
        k += 1;
    }
    out
}

// ---------------------------------------------------------------- options / metadata x delete (C19.options.delete)

const OPT_TAGS: [&str; 3] = ["t1", "t2", "t3"];
const OPT_LINKS: [&str; 3] = ["e1", "e2", "e3"];
const OPT_CTS: [&str; 4] = ["", "text/plain", "image/png", "application/octet-stream"];
const OPT_MUTS: [&str; 13] = ["none", "ct_empty", "ct_png", "tag_t3", "tag_t1", "untag_t1", "untag_t3", "link_e3", "link_e1", "unlink_e1", "unlink_e3", "meta", "combo"];
const UNKNOWN_ID: &str = "00000000-0000-4000-8000-000000000000";

#[derive(Clone)]
struct OptCase { cs: usize, batch: usize, ct: Option<String>, tags: Vec<String>, links: Vec<String>, meta: bool, mode: char, content: char, mutation: String }

impl OptCase {
    fn json(&self) -> Value {
        json!({"kind": "opts", "cs": self.cs, "batch": self.batch, "ct": self.ct, "tags": self.tags, "links": self.links, "meta": self.meta,
               "mode": self.mode.to_string(), "content": self.content.to_string(), "mut": self.mutation})
    }
    fn from_json(v: &Value) -> Option<Self> {
        let strs = |k: &str| -> Option<Vec<String>> { v[k].as_array()?.iter().map(|s| s.as_str().map(String::from)).collect() };
        Some(Self { cs: v["cs"].as_u64()? as usize, batch: v.get("batch").and_then(Value::as_u64).unwrap_or(100) as usize, ct: v["ct"].as_str().map(String::from),
                    tags: strs("tags")?, links: strs("links")?, meta: v["meta"].as_bool().unwrap_or(false),
                    mode: v["mode"].as_str()?.chars().next()?, content: v["content"].as_str()?.chars().next()?, mutation: v["mut"].as_str().unwrap_or("none").to_string() })
    }
    fn options(&self) -> PutOptions {
        let mut o = PutOptions::new();
        if let Some(ct) = &self.ct { o = o.with_content_type(ct.clone()); }
        for t in &self.tags { o = o.with_tag(t.clone()); }
        for l in &self.links { o = o.with_link(l.clone()); }
        if self.meta { o = o.with_meta("k", "v"); }
        o
    }
}

/// what the metadata queries must show for one artifact (tags / links are SETS: writing the same tag twice is one tag)
#[derive(Clone)]
struct MetaGhost { id: String, data: Vec<u8>, keys: Vec<String>, filename: String, ct: String, tags: BTreeSet<String>, links: BTreeSet<String>, custom: BTreeMap<String, String> }

/// mode A: put; B: writer fed pieces of cs+1 (no `write` call at all for empty data); C: writer fed single bytes (4099 if large);
/// D: writer fed the whole data in one call (one EMPTY `write` for empty data)
async fn put_with(bs: &BlobStore, mode: char, name: &str, data: &[u8], cs: usize, opts: PutOptions) -> Result<String, BlobError> {
    if mode == 'A' { return bs.put(name, data, opts).await; }
    let mut w = bs.writer(name, opts).await?;
    match mode {
        'D' => w.write(data).await?,
        _ => { let piece = if mode == 'B' { cs + 1 } else if data.len() <= 64 { 1 } else { 4099 }; for p in data.chunks(piece) { w.write(p).await?; } },
    }
    w.finish().await
}

fn full_view(store: &TensorStore) -> BTreeMap<String, Option<tensor_store::TensorData>> { store.scan("").into_iter().map(|k| { let t = store.get(&k).ok(); (k, t) }).collect() }

fn id_set(r: Result<Vec<String>, BlobError>) -> Result<BTreeSet<String>, BlobError> { r.map(|v| v.into_iter().collect()) }

/// the whole observable view against the ghost: every query, every artifact's metadata / bytes / integrity, the refcounts
async fn opts_view(st: &mut Step, at: &str, bs: &BlobStore, arts: &[&MetaGhost]) {
    let ids: BTreeSet<String> = arts.iter().map(|a| a.id.clone()).collect();
    let l = id_set(bs.list(None).await);
    st.req(O_OPT, l.as_ref() == Ok(&ids), || format!("{at}: list(None) = {l:?}, expected exactly the {} existing artifacts {ids:?}", ids.len()));
    for t in OPT_TAGS {
        let want: BTreeSet<String> = arts.iter().filter(|a| a.tags.contains(t)).map(|a| a.id.clone()).collect();
        let got = id_set(bs.by_tag(t).await);
        st.req(O_OPT, got.as_ref() == Ok(&want), || format!("{at}: by_tag({t}) = {got:?}, expected {want:?}"));
    }
    for ct in OPT_CTS {
        let want: BTreeSet<String> = arts.iter().filter(|a| a.ct == ct).map(|a| a.id.clone()).collect();
        let got = id_set(bs.by_content_type(ct).await);
        st.req(O_OPT, got.as_ref() == Ok(&want), || format!("{at}: by_content_type({ct:?}) = {got:?}, expected {want:?}"));
    }
    for e in OPT_LINKS {
        let want: BTreeSet<String> = arts.iter().filter(|a| a.links.contains(e)).map(|a| a.id.clone()).collect();
        let got = id_set(bs.artifacts_for(e).await);
        st.req(O_OPT, got.as_ref() == Ok(&want), || format!("{at}: artifacts_for({e}) = {got:?}, expected {want:?}"));
    }
    for a in arts {
        match bs.metadata(&a.id).await {
            Ok(m) => {
                let (tags, links): (BTreeSet<String>, BTreeSet<String>) = (m.tags.iter().cloned().collect(), m.linked_to.iter().cloned().collect());
                let custom: BTreeMap<String, String> = m.custom.clone().into_iter().collect();
                st.req(O_OPT, m.id == a.id && m.filename == a.filename && m.content_type == a.ct && tags == a.tags && links == a.links && custom == a.custom && m.size == a.data.len() && m.chunk_count == a.keys.len() && m.checksum == compute_hash(&a.data),
                       || format!("{at}: metadata({}) = filename {:?} content_type {:?} tags {:?} links {:?} custom {:?} size {} chunks {}, expected {:?} {:?} {:?} {:?} {:?} {} {}",
                                  a.filename, m.filename, m.content_type, m.tags, m.linked_to, m.custom, m.size, m.chunk_count, a.filename, a.ct, a.tags, a.links, a.custom, a.data.len(), a.keys.len()));
            },
            Err(e) => st.req(O_OPT, false, || format!("{at}: metadata(existing {}) = Err({e:?})", a.filename)),
        }
        let lk = id_set(bs.links(&a.id).await);
        st.req(O_OPT, lk.as_ref() == Ok(&a.links), || format!("{at}: links({}) = {lk:?}, expected {:?}", a.filename, a.links));
        let got = bs.get(&a.id).await;
        st.req(O_OPT, got.as_deref() == Ok(&a.data[..]), || format!("{at}: artifact {} ({} bytes) reads back {:?}", a.filename, a.data.len(), got.as_ref().map(|v| v.len())));
        match bs.reader(&a.id).await {
            Ok(mut rd) => {
                let all = rd.read_all().await;
                st.req(O_OPT, rd.total_size() == a.data.len() && rd.chunk_count() == a.keys.len() && all.as_deref() == Ok(&a.data[..]), || format!("{at}: reader({}) total_size {} chunk_count {} read_all {:?}", a.filename, rd.total_size(), rd.chunk_count(), all.as_ref().map(|v| v.len())));
            },
            Err(e) => st.req(O_OPT, false, || format!("{at}: reader(existing {}) = Err({e:?})", a.filename)),
        }
        let (ex, vf) = (bs.exists(&a.id).await, bs.verify(&a.id));
        st.req(O_OPT, ex == Ok(true) && vf == Ok(true), || format!("{at}: exists({}) = {ex:?}, verify = {vf:?}", a.filename));
    }
    let mut ghost: BTreeMap<String, i64> = BTreeMap::new();
    for a in arts { for k in &a.keys { *ghost.entry(k.clone()).or_insert(0) += 1; } }
    let view = chunk_view(bs.store());
    for (k, r) in &view { let g = ghost.get(k).copied().unwrap_or(0); st.req(O_OPT, *r == Some(g), || format!("{at}: chunk {} stored _refs {r:?} but {g} references exist", short(k))); }
    for k in ghost.keys() { st.req(O_OPT, view.contains_key(k), || format!("{at}: chunk {} of an existing artifact is not stored", short(k))); }
    match bs.stats().await {
        Ok(s) => st.req(O_OPT, s.artifact_count == arts.len() && s.total_bytes == arts.iter().map(|a| a.data.len()).sum::<usize>(), || format!("{at}: stats {s:?} with {} artifacts", arts.len())),
        Err(e) => st.req(O_OPT, false, || format!("{at}: stats() = Err({e:?})")),
    }
}

/// collection step of the script: `gc` back-dates every chunk first (min age is 1 h), like the `seq` domain
async fn opts_collect(st: &mut Step, op: &str, bs: &BlobStore, arts: &[&MetaGhost], batch: usize) {
    let store = bs.store();
    let before = chunk_view(store);
    let r = if op == "gc" { age_chunks(store); bs.gc().await.map(|_| ()) } else { bs.full_gc().await.map(|_| ()) };
    st.req(O_OPT, r.is_ok(), || format!("{op}() = {r:?}"));
    let referenced: BTreeSet<&String> = arts.iter().flat_map(|a| a.keys.iter()).collect();
    let after = chunk_view(store);
    for k in before.keys().filter(|k| !after.contains_key(*k)) { st.req(O_OPT, !referenced.contains(k), || format!("{op} removed chunk {} which an existing artifact references", short(k))); }
    st.req(O_OPT, after.keys().all(|k| before.contains_key(k)), || format!("{op} created chunk keys"));
    if op == "full_gc" || before.len() <= batch {
        let left: Vec<&String> = after.keys().filter(|k| !referenced.contains(k)).collect();
        st.req(O_OPT, left.is_empty(), || format!("{op} left {} chunks that no existing artifact references (every chunk is older than gc_min_age)", left.len()));
    }
}

/// put sibling S (content P, fixed options) ; write T with the options of the case ; [mutate T's metadata] ; delete(unknown) ;
/// delete(T) ; delete(T) again ; gc ; full_gc ; delete(S) ; gc ; full_gc -- the whole view is compared with the ghost after every step
async fn exec_opts(ts: TensorStore, c: &OptCase) -> Finding {
    let mut st = Step::default();
    st.touch(O_OPT);
    let fold = |st: Step| { let mut out = vec![]; st.into_findings("", &mut out); out.into_iter().next().unwrap_or(Finding { ob: O_OPT, ok: true, detail: String::new() }) };
    assert!(ts.is_empty() && ts.scan("").is_empty(), "harness: script must start on an empty store");
    let bs = match new_blob_on(ts, c.cs, c.batch).await { Ok(b) => b, Err(e) => { st.req(O_OPT, false, || format!("BlobStore::new(chunk {}) = Err({e:?})", c.cs)); return fold(st); } };
    let store = bs.store().clone();
    let default_ct = BlobConfig::new().default_content_type;
    // sibling
    let sdata = content('P', c.cs);
    let sopts = PutOptions::new().with_content_type("text/plain").with_tag("t1").with_link("e1").with_meta("k", "v");
    let sib = match bs.put("s.bin", &sdata, sopts).await {
        Ok(id) => MetaGhost { id, keys: ghost_keys(c.cs, &sdata), data: sdata, filename: "s.bin".into(), ct: "text/plain".into(), tags: ["t1".to_string()].into(), links: ["e1".to_string()].into(), custom: [("k".to_string(), "v".to_string())].into() },
        Err(e) => { st.req(O_OPT, false, || format!("put(sibling) = Err({e:?})")); return fold(st); },
    };
    opts_view(&mut st, "after put(sibling)", &bs, &[&sib]).await;
    // target
    let tdata = content(c.content, c.cs);
    let written = put_with(&bs, c.mode, "t.bin", &tdata, c.cs, c.options()).await;
    let mut tgt = match written {
        Ok(id) => MetaGhost { id, keys: ghost_keys(c.cs, &tdata), data: tdata, filename: "t.bin".into(), ct: c.ct.clone().unwrap_or(default_ct), tags: c.tags.iter().cloned().collect(), links: c.links.iter().cloned().collect(),
                              custom: if c.meta { [("k".to_string(), "v".to_string())].into() } else { BTreeMap::new() } },
        Err(e) => { st.req(O_OPT, false, || format!("writing the target ({} bytes, mode {}) = Err({e:?})", tdata.len(), c.mode)); return fold(st); },
    };
    st.req(O_OPT, tgt.id != sib.id, || "two artifacts got the same id".to_string());
    opts_view(&mut st, "after writing the target", &bs, &[&sib, &tgt]).await;
    // metadata mutation through the public API
    if c.mutation != "none" {
        let id = tgt.id.clone();
        let steps: Vec<&str> = if c.mutation == "combo" { vec!["tag_t3", "link_e3", "ct_png", "untag_t1", "unlink_e1", "meta"] } else { vec![c.mutation.as_str()] };
        for m in steps {
            let r = match m {
                "ct_empty" => { tgt.ct = String::new(); bs.update_metadata(&id, MetadataUpdates::new().with_content_type("")).await },
                "ct_png" => { tgt.ct = "image/png".into(); bs.update_metadata(&id, MetadataUpdates::new().with_content_type("image/png")).await },
                "meta" => {
                    tgt.custom.insert("k2".into(), "v2".into()); tgt.custom.remove("k"); tgt.custom.insert("k3".into(), "v3".into()); tgt.filename = "renamed.bin".into();
                    match bs.set_meta(&id, "k2", "v2").await { Ok(()) => bs.update_metadata(&id, MetadataUpdates::new().with_filename("renamed.bin").delete_meta("k").set_meta("k3", "v3")).await, e => e }
                },
                _ => {
                    let (op, arg) = m.split_once('_').expect("harness: mutation");
                    match op {
                        "tag" => { tgt.tags.insert(arg.into()); bs.tag(&id, arg).await },
                        "untag" => { tgt.tags.remove(arg); bs.untag(&id, arg).await },
                        "link" => { tgt.links.insert(arg.into()); bs.link(&id, arg).await },
                        "unlink" => { tgt.links.remove(arg); bs.unlink(&id, arg).await },
                        _ => panic!("harness: mutation {m}"),
                    }
                },
            };
            st.req(O_OPT, r.is_ok(), || format!("{m} on the existing target = {r:?}"));
        }
        opts_view(&mut st, &format!("after {}", c.mutation), &bs, &[&sib, &tgt]).await;
    }
    // delete of an unknown id: Err, nothing changes
    let before = full_view(&store);
    let r = bs.delete(UNKNOWN_ID).await;
    st.req(O_OPT, matches!(r, Err(BlobError::NotFound(_))), || format!("delete(unknown id) = {r:?}, expected Err(NotFound)"));
    st.req(O_OPT, full_view(&store) == before, || "delete(unknown id) changed the store".to_string());
    // delete of the existing target: Ok, gone from every query, the sibling untouched
    let r = bs.delete(&tgt.id).await;
    st.req(O_OPT, r.is_ok(), || format!("delete(existing target) = {r:?}, expected Ok"));
    let (ex, g, md, lk, vf) = (bs.exists(&tgt.id).await, bs.get(&tgt.id).await, bs.metadata(&tgt.id).await, bs.links(&tgt.id).await, bs.verify(&tgt.id));
    st.req(O_OPT, ex == Ok(false) && matches!(g, Err(BlobError::NotFound(_))) && md.is_err() && lk.is_err() && !matches!(vf, Ok(true)),
           || format!("after delete: exists = {ex:?}, get = {:?}, metadata = {:?}, links = {lk:?}, verify = {vf:?}", g.as_ref().map(|v| v.len()), md.as_ref().map(|m| m.id.clone())));
    opts_view(&mut st, "after delete(target)", &bs, &[&sib]).await;
    // second delete: Err, nothing changes
    let before = full_view(&store);
    let r = bs.delete(&tgt.id).await;
    st.req(O_OPT, matches!(r, Err(BlobError::NotFound(_))), || format!("second delete of the target = {r:?}, expected Err(NotFound)"));
    st.req(O_OPT, full_view(&store) == before, || "the second delete changed the store".to_string());
    // collections never hurt the sibling that shares content
    for op in ["gc", "full_gc"] {
        opts_collect(&mut st, op, &bs, &[&sib], c.batch).await;
        opts_view(&mut st, &format!("after delete(target) .. {op}"), &bs, &[&sib]).await;
    }
    let r = bs.delete(&sib.id).await;
    st.req(O_OPT, r.is_ok(), || format!("delete(sibling) = {r:?}"));
    opts_view(&mut st, "after delete(sibling)", &bs, &[]).await;
    for op in ["gc", "full_gc"] {
        opts_collect(&mut st, op, &bs, &[], c.batch).await;
        opts_view(&mut st, &format!("after both deletes .. {op}"), &bs, &[]).await;
    }
    fold(st)
}

fn opts_cases(thorough: bool) -> Vec<OptCase> {
    let s = |a: &[&str]| a.iter().map(|x| (*x).to_string()).collect::<Vec<String>>();
    let mut combos = vec![];
    for ct in [None, Some(""), Some("text/plain")] { for tags in [s(&[]), s(&["t1"]), s(&["t1", "t1"]), s(&["t1", "t2"])] { for links in [s(&[]), s(&["e1"]), s(&["e1", "e1"])] { for meta in [false, true] {
        combos.push((ct.map(String::from), tags.clone(), links.clone(), meta));
    } } } }
    let mut out = vec![];
    // every combination x way of writing x content shared fully (P) / partly (Q) with the sibling / zero bytes through the writer (E)
    let css: &[usize] = if thorough { &[1, 4, 1024, 65536] } else { &[1, 4, 1024] };
    for &cs in css { for (ct, tags, links, meta) in &combos { for (content, modes) in [('P', "ABC"), ('Q', "ABC"), ('E', "BD")] { for mode in modes.chars() {
        out.push(OptCase { cs, batch: 100, ct: ct.clone(), tags: tags.clone(), links: links.clone(), meta: *meta, mode, content, mutation: "none".into() });
    } } } }
    // every combination x every metadata mutation before the delete
    let mcs: &[usize] = if thorough { &[1, 4, 1024] } else { &[4] };
    for &cs in mcs { for (i, (ct, tags, links, meta)) in combos.iter().enumerate() { for (j, m) in OPT_MUTS.iter().enumerate().skip(1) {
        let modes: Vec<char> = if thorough { vec!['A', 'B'] } else { vec![if (i + j) % 2 == 0 { 'A' } else { 'B' }] };
        for mode in modes { for content in if thorough { vec!['P', 'Q', 'E'] } else { vec!['Q'] } {
            if content == 'E' && mode == 'A' { continue; }
            out.push(OptCase { cs, batch: if thorough && i % 3 == 0 { 1 } else { 100 }, ct: ct.clone(), tags: tags.clone(), links: links.clone(), meta: *meta, mode, content, mutation: (*m).to_string() });
        } }
    } } }
    out
}

fn run_opts(rep: &mut Report, rt: &Runtime, pool: &TensorStore, c: &OptCase) {
    pool.clear();
    let mut f = rt.block_on(exec_opts(pool.clone(), c));
    // a failing script is re-executed on a brand-new store and that result is recorded (so it equals `replay`)
    if !f.ok { f = rt.block_on(exec_opts(TensorStore::new(), c)); }
    rep.eval(true);
    rep.check(f.ob, f.ok, &|| c.json(), &|| f.detail.clone());
}

// ---------------------------------------------------------------- driver

fn record(rep: &mut Report, findings: Vec<Finding>, case: &dyn Fn() -> Value) {
    for f in findings { rep.check(f.ob, f.ok, case, &|| f.detail.clone()); }
}

fn seq_case(cs: usize, batch: usize, ops: &[String]) -> Value { json!({"kind": "seq", "cs": cs, "batch": batch, "ops": ops}) }

fn alphabet(slots: &[char], kinds: &[char]) -> Vec<String> {
    let mut v = vec![];
    for s in slots { for k in kinds { v.push(format!("put{s}:{k}")); } }
    for s in slots { v.push(format!("del{s}")); }
    for o in ["gc", "full_gc", "repair"] { v.push(o.to_string()); }
    v
}

fn enabled(op: &str, present: &[char], ever: &[char]) -> bool {
    if let Some(r) = op.strip_prefix("put") { !present.contains(&r.chars().next().unwrap()) }
    else if let Some(r) = op.strip_prefix("del") { let s = r.chars().next().unwrap(); present.contains(&s) || ever.contains(&s) }
    else { true }
}

/// `pool`: constructing a TensorStore costs ~1.3 ms, so the enumeration reuses ONE store and empties it
/// with the public `TensorStore::clear()` before every sequence; a sequence with a failing check is
/// re-executed on a brand-new store and that result is what gets recorded (so it equals `replay`).
struct Enum<'a> { rt: &'a Runtime, pool: TensorStore, cs: usize, batch: usize, alpha: Vec<String>, maxlen: usize, seqs: u64 }

fn run_seq(rt: &Runtime, pool: &TensorStore, cs: usize, batch: usize, ops: &[String], check_from: usize) -> SeqOut {
    pool.clear();
    let out = rt.block_on(exec_seq(pool.clone(), cs, batch, ops, check_from));
    if out.findings.iter().all(|f| f.ok) { return out; }
    rt.block_on(exec_seq(TensorStore::new(), cs, batch, ops, check_from))
}

fn enumerate(rep: &mut Report, e: &mut Enum, cur: &mut Vec<String>) {
    let (present, ever) = if cur.is_empty() { (vec![], vec![]) } else {
        let out = run_seq(e.rt, &e.pool, e.cs, e.batch, cur, cur.len() - 1);
        e.seqs += 1;
        for _ in 0..out.evals { rep.eval(false); }
        rep.nontrivial += out.nontrivial;
        let (cs, batch) = (e.cs, e.batch);
        record(rep, out.findings, &|| seq_case(cs, batch, &cur[..]));
        (out.present, out.ever)
    };
    if cur.len() == e.maxlen { return; }
    for i in 0..e.alpha.len() {
        if enabled(&e.alpha[i], &present, &ever) {
            cur.push(e.alpha[i].clone());
            enumerate(rep, e, cur);
            cur.pop();
        }
    }
}

fn aged_case(cs: usize, batch: usize, ops: &[String]) -> Value { json!({"kind": "aged", "cs": cs, "batch": batch, "min_age_ms": AGED_MIN_AGE_MS, "ops": ops}) }

/// the scripts of the `aged` domain: (cs, batch, ops)
fn aged_scripts(thorough: bool) -> Vec<(usize, usize, Vec<String>)> {
    let v = |a: &[&str]| a.iter().map(|x| (*x).to_string()).collect::<Vec<String>>();
    let mut out = vec![];
    // two artifacts with overlapping content: A is deleted before B is written
    let m1: [&[&str]; 5] = [&[], &["gc"], &["full_gc"], &["repair"], &["wait", "gc"]];
    let m2: [&[&str]; 5] = [&["wait", "gc"], &["gc", "wait", "gc"], &["wait", "full_gc"], &["repair", "wait", "gc"], &["wait", "repair", "gc"]];
    let tails: [&[&str]; 2] = [&[], &["delB", "wait", "gc"]];
    let pairs: &[(char, char)] = if thorough { &[('P', 'P'), ('P', 'Q'), ('R', 'P'), ('P', 'R'), ('Q', 'R'), ('O', 'P')] } else { &[('P', 'P'), ('P', 'Q'), ('R', 'P')] };
    let cfgs: &[(usize, usize)] = if thorough { &[(4, 100), (1, 100), (4, 1)] } else { &[(4, 100)] };
    for &(cs, batch) in cfgs { for &(x, y) in pairs { for a in m1 { for b in m2 { for t in tails {
        let mut ops = vec![format!("putA:{x}"), "delA".to_string()];
        ops.extend(v(a));
        ops.push(format!("putB:{y}"));
        ops.extend(v(b));
        ops.extend(v(t));
        out.push((cs, batch, ops));
    } } } } }
    // three artifacts with pairwise overlap (P, Q share two chunks; R repeats the first chunk of both)
    let trip = [['P', 'Q', 'R'], ['P', 'R', 'Q'], ['Q', 'P', 'R'], ['Q', 'R', 'P'], ['R', 'P', 'Q'], ['R', 'Q', 'P']];
    let g23: [(&str, &[&str]); 3] = [("gc", &["wait", "gc"]), ("full_gc", &["wait", "gc"]), ("gc", &["gc"])];
    for [x, y, z] in trip { for g1 in [None, Some("gc")] { for (g2, g3) in g23 {
        let mut ops = vec![format!("putA:{x}"), "delA".to_string()];
        if let Some(g) = g1 { ops.push(g.to_string()); }
        ops.extend([format!("putB:{y}"), format!("putC:{z}"), "wait".to_string(), g2.to_string(), "delB".to_string()]);
        ops.extend(v(g3));
        if g1.is_none() { ops.extend(v(&["delC", "wait", "gc"])); }
        out.push((4, 100, ops));
    } } }
    out
}

/// up to 200 scripts at once (a TensorStore holds ~17 MB), each on its own store, as tasks of one
/// current-thread runtime: the sleeps overlap
fn run_aged(rep: &mut Report, rt: &Runtime, scripts: &[(usize, usize, Vec<String>)]) -> u64 {
    let mut outs: Vec<SeqOut> = vec![];
    for round in scripts.chunks(200) {
        outs.extend(rt.block_on(async {
            let handles: Vec<_> = round.iter().cloned().map(|(cs, batch, ops)| tokio::spawn(async move {
                exec_seq_with(TensorStore::new(), cs, batch, Some(AGED_MIN_AGE_MS), &ops, 0).await
            })).collect();
            let mut outs = vec![];
            for h in handles { outs.push(h.await.expect("harness: aged script task")); }
            outs
        }));
    }
    let mut young = 0;
    for ((cs, batch, ops), out) in scripts.iter().zip(outs) {
        for _ in 0..out.evals { rep.eval(false); }
        rep.nontrivial += out.nontrivial;
        young += out.young_skips;
        record(rep, out.findings, &|| aged_case(*cs, *batch, ops));
    }
    young
}

fn run_full_seq(rep: &mut Report, rt: &Runtime, pool: &TensorStore, cs: usize, batch: usize, ops: &[String]) {
    let out = run_seq(rt, pool, cs, batch, ops, 0);
    for _ in 0..out.evals { rep.eval(false); }
    rep.nontrivial += out.nontrivial;
    record(rep, out.findings, &|| seq_case(cs, batch, ops));
}

pub fn run(tier: Tier, seed: u64) -> Report {
    let thorough = tier == Tier::Thorough;
    let domain = if thorough {
        "chunk: all {00,FF}-strings len<=9 x cs{1,2,3,4,5,8} + pattern data of every length 0..=3cs+7 for cs{1,2,3,4,5,7,8,16,64,1024} + 6 boundary lengths for cs 65536; \
         putget: sizes{0,1,cs-1,cs,cs+1,3cs+7} x cs{1,4,1024,65536} x {put,writer all,writer bytes(size<=5000),writer cs+1}; \
         seq: all enabled op sequences over {putA|putB|putC:(E,O,P,Q,R), delA,delB,delC, gc(aged), full_gc, repair}: len<=5 for cs 4 and cs 1 (gc batch 100), len<=4 for cs 4 with gc batch 1, len<=3 for cs 65536; \
         dedup: putA:x putB:y del,del,full_gc for x,y in {E,O,P,Q,R,S}, both delete orders, cs{1,4,1024,65536}; \
         verify: B in {E,O,P,Q,R} x C in {none,P,Q,S} x every chunk of B x {flip at every/first-mid-last offset x masks 01,80; drop; refs:=0|7 + repair}, cs{1,4,1024,65536}; \
         inflight(extension): [putA:{-,O,P,Q}] begW:{O,P,Q,R} [{-,gc,full_gc,repair,delA}] finW [putB:P delW gc] x cs{1,4,1024}; \
         aged(extension, real clock, gc_min_age 1 s): putA:x delA m1 putB:y m2 [delB wait gc] for (x,y) in {PP,PQ,RP,PR,QR,OP}, m1 in {-,gc,full_gc,repair,wait gc}, m2 in {wait gc, gc wait gc, wait full_gc, repair wait gc, wait repair gc}, (cs,batch) in {(4,100),(1,100),(4,1)} + 36 three-artifact scripts; \
         plus 3000 seeded random sequences of length 6..12 (not exhaustive)"
    } else {
        "chunk: all {00,FF}-strings len<=9 x cs{1,2,3,4,5,8} + pattern data of every length 0..=3cs+7 for cs{1,2,3,4,5,7,8,16,64,1024}; \
         putget: sizes{0,1,cs-1,cs,cs+1,3cs+7} x cs{1,4,1024} x {put,writer all,writer bytes,writer cs+1}; \
         seq: all enabled op sequences of length<=4 over {putA|putB:(E,O,P,Q,R), delA, delB, gc(aged), full_gc, repair}, cs 4 and cs 1; \
         dedup: putA:x putB:y del,del,full_gc for x,y in {E,O,P,Q,R,S}, both delete orders, cs{1,4,1024}; \
         verify: B in {E,O,P,Q,R} x C in {none,P,Q,S} x every chunk of B x {flip at every/first-mid-last offset x masks 01,80; drop; refs:=0|7 + repair}, cs{1,4,1024}; \
         inflight(extension): [putA:{-,O,P,Q}] begW:{O,P,Q,R} [{-,gc,full_gc,repair,delA}] finW [putB:P delW gc] x cs{1,4,1024}; \
         aged(extension, real clock, gc_min_age 1 s): putA:x delA m1 putB:y m2 [delB wait gc] for (x,y) in {PP,PQ,RP}, m1 in {-,gc,full_gc,repair,wait gc}, m2 in {wait gc, gc wait gc, wait full_gc, repair wait gc, wait repair gc}, cs 4 + 36 three-artifact scripts over {P,Q,R}"
    };
    let mut rep = Report::new("c19_blob", domain, true,
        &["tensor_blob::Chunker::chunk", "Chunker::chunk_count", "BlobStore::put", "BlobStore::get", "BlobStore::writer", "BlobWriter::write", "BlobWriter::finish",
          "BlobStore::reader", "BlobReader::{read_all,next_chunk,read,verify}", "BlobStore::delete", "BlobStore::exists", "BlobStore::metadata", "BlobStore::gc",
          "BlobStore::full_gc", "BlobStore::verify", "BlobStore::repair", "BlobStore::stats", "verify_chunk",
          "BlobStore::{list,by_tag,by_content_type,artifacts_for,links,update_metadata,set_meta,tag,untag,link,unlink}"]);
    rep.declare(O_PART, "tensor_blob::Chunker::chunk");
    rep.declare(O_PG, "tensor_blob::BlobStore::{put,get,writer,reader}");
    rep.declare(O_DD, "tensor_blob::BlobStore::{put,delete,full_gc}");
    rep.declare(O_RC, "tensor_blob store_chunk / increment_chunk_refs / decrement_chunk_refs / delete");
    rep.declare(O_GC, "tensor_blob::BlobStore::{gc,full_gc}");
    rep.declare(O_VF, "tensor_blob::BlobStore::{verify,repair}");
    if INFLIGHT { rep.declare(O_IF, "tensor_blob::BlobStore::{writer,gc,full_gc,repair} (open writer)"); }
    rep.declare(O_AGED, "tensor_blob::BlobStore::{gc,full_gc,repair} with gc_min_age 1 s on the real clock (GarbageCollector::gc_cycle age branch)");
    rep.declare(O_OPT, "tensor_blob::BlobStore::{put,writer,delete,gc,full_gc,verify,list,by_tag,by_content_type,artifacts_for,links,metadata,update_metadata,set_meta,tag,untag,link,unlink} (delete_artifact, BlobWriter::finish)");
    let rt = mk_rt();
    let pool = TensorStore::new();

    // ---- chunker
    record(&mut rep, exec_hash_kat(), &|| json!({"kind": "kat"}));
    rep.eval(true);
    for cs in [1usize, 2, 3, 4, 5, 8] {
        for len in 0..=9usize { for bits in 0..(1u32 << len) {
            let data: Vec<u8> = (0..len).map(|i| if bits >> i & 1 == 1 { 0xFF } else { 0 }).collect();
            rep.eval(len > cs);
            record(&mut rep, exec_chunk(cs, &data), &|| json!({"kind": "chunk", "cs": cs, "data": data}));
        } }
    }
    for cs in [1usize, 2, 3, 4, 5, 7, 8, 16, 64, 1024] {
        for len in 0..=3 * cs + 7 {
            let data: Vec<u8> = (0..len).map(pat2).collect();
            rep.eval(len > cs);
            record(&mut rep, exec_chunk(cs, &data), &|| json!({"kind": "chunk", "cs": cs, "pat_len": len}));
        }
    }
    if thorough {
        let cs = 65536usize;
        for len in [0, 1, cs - 1, cs, cs + 1, 3 * cs + 7] {
            let data: Vec<u8> = (0..len).map(pat2).collect();
            rep.eval(len > cs);
            record(&mut rep, exec_chunk(cs, &data), &|| json!({"kind": "chunk", "cs": cs, "pat_len": len}));
        }
    }
    rep.sample(json!({"kind": "chunk", "cs": 4, "pat_len": 19}));

    // ---- construction precondition: chunk_size 0 must be refused, not panic later
    {
        let r = rt.block_on(BlobStore::new(TensorStore::new(), BlobConfig::new().with_chunk_size(0)));
        rep.eval(true);
        rep.check(O_PG, matches!(r, Err(BlobError::InvalidConfig(_))), &|| json!({"kind": "cs0"}), &|| "BlobStore::new(chunk_size 0) was accepted".to_string());
    }

    // ---- put/get
    let pg_cs: &[usize] = if thorough { &[1, 4, 1024, 65536] } else { &[1, 4, 1024] };
    for &cs in pg_cs {
        let mut sizes = vec![0, 1, cs - 1, cs, cs + 1, 3 * cs + 7];
        sizes.sort_unstable();
        sizes.dedup();
        for size in sizes { for mode in MODES {
            if mode == "w_bytes" && size > 5000 { continue; }
            rep.eval(size > 0);
            record(&mut rep, rt.block_on(exec_putget(cs, size, mode)), &|| json!({"kind": "putget", "cs": cs, "size": size, "mode": mode}));
        } }
    }
    rep.sample(json!({"kind": "putget", "cs": 4, "size": 19, "mode": "w_cs1"}));

    // ---- op sequences
    let kinds = ['E', 'O', 'P', 'Q', 'R'];
    let mut total_seqs = 0u64;
    let plans: Vec<(usize, usize, Vec<char>, usize)> = if thorough {
        vec![(4, 100, vec!['A', 'B', 'C'], 5), (1, 100, vec!['A', 'B', 'C'], 5), (4, 1, vec!['A', 'B', 'C'], 4), (65536, 100, vec!['A', 'B', 'C'], 3)]
    } else {
        vec![(4, 100, vec!['A', 'B'], 4), (1, 100, vec!['A', 'B'], 4)]
    };
    for (cs, batch, slots, maxlen) in plans {
        let mut e = Enum { rt: &rt, pool: pool.clone(), cs, batch, alpha: alphabet(&slots, &kinds), maxlen, seqs: 0 };
        enumerate(&mut rep, &mut e, &mut vec![]);
        total_seqs += e.seqs;
    }
    rep.sample(json!({"kind": "seq", "cs": 4, "batch": 100, "ops": ["putA:P", "putB:Q", "delA", "gc"], "enumerated_sequences": total_seqs}));

    // ---- dedup / delete
    let dd_cs: &[usize] = if thorough { &[1, 4, 1024, 65536] } else { &[1, 4, 1024] };
    let dd_kinds = ['E', 'O', 'P', 'Q', 'R', 'S'];
    for &cs in dd_cs { for x in dd_kinds { for y in dd_kinds { for first in ['A', 'B'] {
        let second = if first == 'A' { 'B' } else { 'A' };
        let ops = vec![format!("putA:{x}"), format!("putB:{y}"), format!("del{first}"), format!("del{second}"), "full_gc".to_string()];
        // delete of a slot whose put(empty) was refused is disabled: drop those ops
        let ops: Vec<String> = ops.into_iter().filter(|o| !(x == 'E' && o == "delA")).collect();
        run_full_seq(&mut rep, &rt, &pool, cs, 100, &ops);
    } } } }
    rep.sample(json!({"kind": "seq", "cs": 4, "batch": 100, "ops": ["putA:P", "putB:P", "delA", "delB", "full_gc"]}));

    // ---- verify / repair under damage
    for &cs in dd_cs { for x in kinds { for y in [None, Some('P'), Some('Q'), Some('S')] { for d in damages(cs, x) {
        rep.eval(d != "none");
        record(&mut rep, rt.block_on(exec_verify(cs, x, y, &d)), &|| json!({"kind": "verify", "cs": cs, "x": x.to_string(), "y": y.map(|c| c.to_string()), "damage": d}));
    } } } }
    rep.sample(json!({"kind": "verify", "cs": 4, "x": "P", "y": "Q", "damage": "flip:1:2:1"}));

    // ---- open writer vs collection (extension): [putA:pre] begW:w [mid] finW [putB:P delW gc]
    if INFLIGHT {
        for cs in [1usize, 4, 1024] { for pre in [None, Some('O'), Some('P'), Some('Q')] { for w in ['O', 'P', 'Q', 'R'] {
            for mid in ["none", "gc", "full_gc", "repair", "delA"] { for tail in [false, true] {
                if mid == "delA" && pre.is_none() { continue; }
                let mut ops: Vec<String> = vec![];
                if let Some(x) = pre { ops.push(format!("putA:{x}")); }
                ops.push(format!("begW:{w}"));
                if mid != "none" { ops.push(mid.to_string()); }
                ops.push("finW".to_string());
                if tail { for o in ["putB:P", "delW", "gc"] { ops.push(o.to_string()); } }
                run_full_seq(&mut rep, &rt, &pool, cs, 100, &ops);
            } }
        } } }
        rep.sample(json!({"kind": "seq", "cs": 4, "batch": 100, "ops": ["begW:R", "full_gc", "finW", "putB:P", "delW", "gc"]}));
    }

    // ---- real clock, non-zero min age (extension)
    {
        let scripts = aged_scripts(thorough);
        let young = run_aged(&mut rep, &rt, &scripts);
        // (vacuity guard of the age branch: how often an incremental gc met a zero-ref chunk and left it in place)
        rep.domain.push_str(&format!(" [aged: {} scripts, {young} gc calls left a zero-ref chunk that was too young]", scripts.len()));
        rep.sample(json!({"kind": "aged", "cs": 4, "batch": 100, "min_age_ms": AGED_MIN_AGE_MS, "ops": ["putA:P", "delA", "gc", "putB:Q", "wait", "gc"]}));
    }

    // ---- options / metadata x delete (extension)
    {
        let cases = opts_cases(thorough);
        for c in &cases { run_opts(&mut rep, &rt, &pool, c); }
        rep.domain.push_str(&format!(" [opts(extension): {} scripts put(S) write(T with options) [mutate] delete(unknown) delete(T) delete(T) gc full_gc delete(S) gc full_gc over content type {{default,\"\",text/plain}} x tags {{-,t1,t1 t1,t1 t2}} x links {{-,e1,e1 e1}} x meta {{-,k}} x {{put,writer cs+1,writer bytes}} x content {{P,Q,E(zero bytes, writer only)}} x cs {{1,4,1024}} + 12 metadata mutations]", cases.len()));
        rep.sample(json!({"kind": "opts", "cs": 4, "batch": 100, "ct": "", "tags": ["t1", "t1"], "links": ["e1", "e1"], "meta": true, "mode": "B", "content": "E", "mut": "none"}));
    }

    // ---- seeded random long sequences (beyond the exhaustive core)
    if thorough {
        let mut rng = Rng(seed ^ 0xC19);
        let alpha = alphabet(&['A', 'B', 'C'], &['E', 'O', 'P', 'Q', 'R', 'S']);
        for _ in 0..3000 {
            let cs = [1usize, 4, 7, 16][rng.below(4) as usize];
            let batch = [100usize, 1, 2][rng.below(3) as usize];
            let n = 6 + rng.below(7) as usize;
            let mut ops: Vec<String> = vec![];
            // enabledness is tracked on the ghost (put(empty) through slot A is refused)
            let (mut present, mut ever): (Vec<char>, Vec<char>) = (vec![], vec![]);
            while ops.len() < n {
                let op = alpha[rng.below(alpha.len() as u64) as usize].clone();
                if !enabled(&op, &present, &ever) { continue; }
                if let Some(r) = op.strip_prefix("put") {
                    let s = r.chars().next().unwrap();
                    if !(s == 'A' && r.ends_with('E')) { present.push(s); ever.retain(|c| *c != s); }
                } else if let Some(r) = op.strip_prefix("del") {
                    let s = r.chars().next().unwrap();
                    if present.contains(&s) { present.retain(|c| *c != s); ever.push(s); }
                }
                ops.push(op);
            }
            run_full_seq(&mut rep, &rt, &pool, cs, batch, &ops);
        }
    }
    rep
}

pub fn replay(ob: &str, case: &Value) -> Result<String, String> {
    let rt = mk_rt();
    let cs = case.get("cs").and_then(Value::as_u64).unwrap_or(4) as usize;
    let ch = |f: &str| case.get(f).and_then(Value::as_str).and_then(|s| s.chars().next());
    let findings: Vec<Finding> = match case.get("kind").and_then(Value::as_str).unwrap_or("seq") {
        "seq" => {
            let ops: Vec<String> = case["ops"].as_array().ok_or("ops missing")?.iter().map(|v| v.as_str().unwrap_or("").to_string()).collect();
            let batch = case.get("batch").and_then(Value::as_u64).unwrap_or(100) as usize;
            rt.block_on(exec_seq(TensorStore::new(), cs, batch, &ops, 0)).findings
        },
        "aged" => {
            let ops: Vec<String> = case["ops"].as_array().ok_or("ops missing")?.iter().map(|v| v.as_str().unwrap_or("").to_string()).collect();
            let batch = case.get("batch").and_then(Value::as_u64).unwrap_or(100) as usize;
            let ms = case.get("min_age_ms").and_then(Value::as_u64).unwrap_or(AGED_MIN_AGE_MS);
            rt.block_on(exec_seq_with(TensorStore::new(), cs, batch, Some(ms), &ops, 0)).findings
        },
        "putget" => rt.block_on(exec_putget(cs, case["size"].as_u64().ok_or("size missing")? as usize, case["mode"].as_str().ok_or("mode missing")?)),
        "chunk" => {
            let data: Vec<u8> = match case.get("data") {
                Some(d) => d.as_array().ok_or("data")?.iter().map(|v| v.as_u64().unwrap_or(0) as u8).collect(),
                None => (0..case["pat_len"].as_u64().ok_or("pat_len missing")? as usize).map(pat2).collect(),
            };
            exec_chunk(cs, &data)
        },
        "kat" => exec_hash_kat(),
        "cs0" => {
            let r = rt.block_on(BlobStore::new(TensorStore::new(), BlobConfig::new().with_chunk_size(0)));
            vec![Finding { ob: O_PG, ok: matches!(r, Err(BlobError::InvalidConfig(_))), detail: "BlobStore::new(chunk_size 0) was accepted".into() }]
        },
        "verify" => rt.block_on(exec_verify(cs, ch("x").ok_or("x missing")?, ch("y"), case["damage"].as_str().ok_or("damage missing")?)),
        "opts" => vec![rt.block_on(exec_opts(TensorStore::new(), &OptCase::from_json(case).ok_or("malformed opts case")?))],
        k => return Err(format!("unknown case kind {k}")),
    };
    let mine: Vec<&Finding> = findings.iter().filter(|f| f.ob == ob).collect();
    if mine.is_empty() { return Err(format!("case does not exercise obligation {ob}")); }
    match mine.iter().find(|f| !f.ok) {
        Some(f) => Err(f.detail.clone()),
        None => Ok(format!("{} checks of {ob} hold", mine.len())),
    }
}
