#!/usr/bin/env python3
"""Dev helper: assemble one unit from a repo path and run Verus on it."""
import sys, os, json
sys.path.insert(0, os.path.dirname(os.path.dirname(os.path.abspath(__file__))))
from vlib import unitfile, verus
from vlib.rustlex import ExtractError
unit_path = sys.argv[1]
repo = sys.argv[2] if len(sys.argv) > 2 else '/repo'
u = unitfile.parse_unit(unit_path)
try:
    a = unitfile.assemble(repo, u)
except ExtractError as e:
    print('EXTRACT ERROR:', e); sys.exit(2)
out = f"{verus.CACHE}/gen"
os.makedirs(out, exist_ok=True)
p = f"{out}/{u['id'].replace('.', '_')}.rs"
open(p, 'w').write(a['text'])
for l in a['log']: print('  log:', l)
r = verus.run_verus(p)
an = verus.analyse(a, r)
print('status', an['status'], 'verified', an['verified'], 'errors', an['errors'], 'smt_s', an['smt_s'], 'wall', round(r['wall_s'],2))
for n in an['notes']: print('  note:', n)
for f in an['failures']: print('  FAIL', f['obligation'], '|', f['message'], '|', f['source'], '|', f['text'])
print(json.dumps(an['obligations'], indent=1))
if '-v' in sys.argv:
    print(r['stderr'][-3000:])
