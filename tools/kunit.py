#!/usr/bin/env python3
"""Dev helper: run Kani harnesses.  usage: kunit.py <crate> <harness>... [--repo R]"""
import sys, os, json
sys.path.insert(0, os.path.dirname(os.path.dirname(os.path.abspath(__file__))))
from vlib import engine_k
repo = '/repo'
args = sys.argv[1:]
if '--repo' in args:
    i = args.index('--repo'); repo = args[i+1]; del args[i:i+2]
crate, hs = args[0], args[1:]
res, meta = engine_k.run_kani(repo, crate, hs)
for h, r in res.items():
    print(h, r['status'], r['time_s'], r.get('failed'), r.get('covers'))
print('wall', round(meta['wall_s'],1), 'compile_failed', meta['compile_failed'])
if any(r['status'] != 'ok' for r in res.values()):
    print(meta['tail'])
