#!/usr/bin/env python3
"""Regenerate MANIFEST.json from vlib/registry.py (claims) + tools/not_applicable.json (reasons)."""
import json, os, sys
V = os.path.dirname(os.path.dirname(os.path.abspath(__file__)))
sys.path.insert(0, V)
from vlib import registry
props = [json.loads(l) for l in open(f"{V}/properties.jsonl")]
na = json.load(open(f"{V}/tools/not_applicable.json"))
checks = []
for p in props:
    pid = p['id']
    if pid not in registry.PROPS:
        continue
    P = registry.PROPS[pid]
    engines = []
    if P.get('v'): engines.append('verus')
    if P.get('k'): engines.append('kani')
    if P.get('b'): engines.append('bounded-native')
    checks.append(dict(
        property_id=pid,
        quick_cmd=f"./check {pid} --tier quick",
        thorough_cmd=f"./check {pid} --tier thorough",
        evidence_file=f"/verif/evidence/{pid}.json",
        replay_cmd_template=f"./check {pid} --replay {{path}}",
        engine='+'.join(engines),
        level_claimed=dict(category=P['level'], text=P['claim'], design_ref=f"DESIGN.md section 4 {pid}"),
        level_note=P.get('note', registry.COMMON_NOTE) + (' Parts checked only by the bounded native sets are labelled bounded in the evidence and are never counted as proved.' if P.get('b') else ''),
        technique=P['technique'],
    ))
m = dict(
    version=1,
    setup_cmd="./setup.sh",
    hooks=dict(
        guard="kani",
        enable="no hooks are committed to /repo: Kani harness modules (/verif/kani/*.rs) are appended add-only, behind #[cfg(kani)], to a mirror copy of the working tree; Verus units extract function text; the bounded crate uses public APIs",
        baseline_off_cmd="cd /repo && cargo nextest run --workspace --no-fail-fast --offline --test-threads 8",
        source_commits=[],
        add_only=True,
    ),
    engines=[
        dict(name='verus', path='/verif/vlib/engine_v.py', serves_properties=[c['property_id'] for c in checks if 'verus' in c['engine']],
             kind_free_text='contract-based deductive verification (Verus) of function text extracted mechanically from /repo on every run'),
        dict(name='kani', path='/verif/vlib/engine_k.py', serves_properties=[c['property_id'] for c in checks if 'kani' in c['engine']],
             kind_free_text='Kani/CBMC harnesses compiled inside the real crates (mirror, add-only cfg(kani) modules); loop-free full-domain = complete'),
        dict(name='bounded-native', path='/verif/bounded', serves_properties=[c['property_id'] for c in checks if 'bounded' in c['engine']],
             kind_free_text='bounded contract checks of real functions over a stated finite domain (stand-in, never counted as proved); supplies replayable inputs'),
    ],
    checks=checks,
    not_applicable=[dict(property_id=p['id'], reason=na.get(p['id'], 'check not built yet')) for p in props if p['id'] not in registry.PROPS],
    notes="exit 0 = held; exit 1 + VIOLATION line = a named obligation failed; exit 2 + UNDECIDED line = lost anchor / tool limit / vacuity guard (never an alarm). See DESIGN.md.",
)
json.dump(m, open(f"{V}/MANIFEST.json", 'w'), indent=1)
print('checks:', [c['property_id'] for c in checks], 'n/a:', [x['property_id'] for x in m['not_applicable']])
