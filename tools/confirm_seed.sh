#!/bin/bash
# usage: tools/confirm_seed.sh <PID> <k>   — independently confirm a seeded change in a scratch worktree:
#   demo passes on clean tree, fails with the patch; the touched crates' existing tests still pass with the patch.
PID=$1; K=$2
SRC=/tmp/seed/$PID/SEED/$K
W=/tmp/seedcheck
LOG=/var/tmp/neumann-verif/seedconfirm; mkdir -p $LOG
L=$LOG/${PID}_$K.log
exec > $L 2>&1
set -x
if [ ! -d $W ]; then git -C /repo worktree add -q --detach $W HEAD; fi
cd $W && git checkout -q --detach main && git checkout -- . && git clean -fdq -e target
rm -rf $W/SEED; mkdir -p $W/SEED; cp -r $SRC $W/SEED/$K
export CARGO_NET_OFFLINE=true
# make sure the demo test files are where cargo finds them (some run.sh only document the copy)
CR0=$(grep '^+++ b/' SEED/$K/patch.diff | sed 's#+++ b/##; s#/.*##' | sort -u | head -1)
DCR=$(grep -o '[a-z_]*/tests/seed_demo' SEED/$K/demo/run.sh | head -1 | cut -d/ -f1); [ -z "$DCR" ] && DCR=$CR0
mkdir -p $DCR/tests; for f in SEED/$K/demo/*.rs; do [ -f "$f" ] && [ ! -f "$DCR/tests/$(basename $f)" ] && cp "$f" $DCR/tests/; done
cat SEED/$K/demo/run.sh
# 1. demo on clean tree
( bash SEED/$K/demo/run.sh ) ; CLEAN_RC=$?
# 2. apply patch
git apply SEED/$K/patch.diff || { echo "RESULT patch-does-not-apply"; exit 1; }
CRATES=$(grep '^+++ b/' SEED/$K/patch.diff | sed 's#+++ b/##; s#/.*##' | sort -u)
( bash SEED/$K/demo/run.sh ) ; PATCH_RC=$?
# 3. existing tests of touched crates with the patch (demo test file excluded by name)
TEST_RC=0
for c in $CRATES; do
  cargo nextest run -p $c --offline --no-fail-fast -E 'not test(/seed_demo/) and not binary(/seed_demo/)' 2>&1 | grep -E "^\s+(FAIL|Summary)|TRY [0-9]+ FAIL|error(\[|:)" | sort -u | tee /tmp/seedcheck_tests.txt
  grep -E "FAIL" /tmp/seedcheck_tests.txt | grep -v -E "test_raft_wal_append_returns_io_error_on_failure|test_tx_wal_open_permission_denied|test_tx_wal_append_disk_full_simulation|test_tx_wal_truncate_error_handling|test_raft_wal_readonly_file_append_fails|test_tensor_store_readonly_wal_put_fails_gracefully" && TEST_RC=1
done
git checkout -- . ; git clean -fdq -e target -e SEED
rm -f $DCR/tests/seed_demo_*.rs; rmdir $DCR/tests 2>/dev/null
echo "RESULT pid=$PID k=$K demo_clean_rc=$CLEAN_RC demo_patched_rc=$PATCH_RC crates='$CRATES' existing_tests_rc=$TEST_RC"
