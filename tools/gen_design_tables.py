#!/usr/bin/env python3
"""Regenerate the mechanical tables of DESIGN.md section 11 (between <!-- AUTO:name --> markers)."""
import json, os, re, subprocess, sys, glob
V = os.path.dirname(os.path.dirname(os.path.abspath(__file__)))
sys.path.insert(0, V)
from vlib import registry

def units_table():
    rows = ["| unit | property | functions under contract (real text extracted each run) | obligations |", "|---|---|---|---|"]
    for u in sorted(glob.glob(f"{V}/units/*.vu")):
        name = os.path.basename(u)[:-3]
        if name.startswith('_'):
            continue
        txt = open(u).read()
        props = re.search(r'^//@property (.*)$', txt, re.M).group(1)
        fns = []
        for m in re.finditer(r'^//@(fn|stmts) (.*)$', txt, re.M):
            kv = dict(t.split('=', 1) for t in m.group(2).split() if '=' in t)
            f = kv.get('file', '').split('/')[-1]
            if m.group(1) == 'fn':
                fns.append(f"`{(kv.get('impl') + '::') if kv.get('impl') else ''}{kv['name']}` ({f})")
            else:
                fns.append(f"statements of `{(kv.get('impl') + '::') if kv.get('impl') else ''}{kv['fn']}` as `{kv['name']}` ({f})")
        nob = len(re.findall(r'^//@(ensures|requires) ', txt, re.M)) + len(re.findall(r'^//@loop \d+( index=\w+| elem=\w+| ty=\S+| native)*\s*$', txt, re.M))
        lem = len(re.findall(r'\bproof fn (theorem|lemma)_', txt))
        rows.append(f"| {name} | {props} | {'; '.join(fns)} | {nob} contract clauses / loop invariants, {lem} lemmas |")
    return '\n'.join(rows)

def kani_table():
    rows = ["| harness file | injected into | harnesses |", "|---|---|---|"]
    for f in sorted(glob.glob(f"{V}/kani/*.rs")):
        txt = open(f).read()
        inj = txt.split('\n')[0].replace('//@inject ', '')
        hs = re.findall(r'fn (c\d\d_\w+)', txt)
        used = [h for P in registry.PROPS.values() for (_, hh) in P.get('k', []) for h in hh]
        rows.append(f"| kani/{os.path.basename(f)} | {inj} | " + ', '.join(f"`{h}`" + ('' if h in used else ' (not registered: CBMC timeout)') for h in hs) + " |")
    return '\n'.join(rows)

def fixes_table():
    out = subprocess.run(['git', '-C', '/repo', 'log', '--format=%h|%s', '--reverse'], capture_output=True, text=True).stdout
    rows = ["| commit | subject |", "|---|---|"]
    for l in out.split('\n'):
        if '|fix:' in l:
            h, s = l.split('|', 1)
            rows.append(f"| {h} | {s} |")
    return '\n'.join(rows)

def findings_table():
    k = json.load(open(f"{V}/known_findings.json"))
    rows = ["| property | obligation | what fails (identified by the pattern in known_findings.json) |", "|---|---|---|"]
    for f in k['findings']:
        rows.append(f"| {f['property']} | {f['obligation']} | {f['what']} |")
    return '\n'.join(rows)

def seeds_table():
    rows = ["| seed | what the change does (first line of its notes) | status | detected by |", "|---|---|---|---|"]
    for d in sorted(glob.glob(f"{V}/seeded/*/meta.json")):
        m = json.load(open(d))
        note = ''
        npath = os.path.join(os.path.dirname(d), 'notes.md')
        cand = (open(npath).read() if os.path.exists(npath) else '') + '\n' + m.get('needs_to_manifest', '')
        for line in cand.split('\n'):
            if line.strip().startswith('#'):
                note = ' '.join(line.replace('#', '').split())[:150]
                break
        if not note:
            note = ' '.join(cand.split())[:150]
        det = m.get('detection', {})
        rows.append(f"| {m['property']}/{m['seed']} | {note} | {det.get('status', '')} | {det.get('by', '').replace('|', '/')} |")
    return '\n'.join(rows)

TABLES = dict(units=units_table, kani=kani_table, fixes=fixes_table, findings=findings_table, seeds=seeds_table)
p = f"{V}/DESIGN.md"
s = open(p).read()
for name, fn in TABLES.items():
    pat = re.compile(r'(<!-- AUTO:' + name + r' -->\n)(?:.*?\n)?(<!-- /AUTO:' + name + r' -->)', re.S)
    if not pat.search(s):
        print('marker missing:', name)
        continue
    s = pat.sub(lambda m: m.group(1) + fn() + '\n' + m.group(2), s)
open(p, 'w').write(s)
print('ok')
