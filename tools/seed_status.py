#!/usr/bin/env python3
"""usage: tools/seed_status.py <PID> <k> <status> "<detected-by text>"  — update the detection record of an imported seed"""
import json, sys
pid, k, status, by = sys.argv[1:5]
p = f"/verif/seeded/{pid}_{k}/meta.json"
m = json.load(open(p))
hist = m.setdefault('detection_history', [])
hist.append(m.get('detection'))
m['detection'] = {'status': status, 'by': by}
json.dump(m, open(p, 'w'), indent=1)
print(p, status)
