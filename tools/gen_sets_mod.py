#!/usr/bin/env python3
"""Regenerate bounded/src/sets/mod.rs from the set files present."""
import os
d = os.path.join(os.path.dirname(os.path.dirname(os.path.abspath(__file__))), 'bounded/src/sets')
names = sorted(f[:-3] for f in os.listdir(d) if f.endswith('.rs') and f != 'mod.rs')
out = ["use crate::fw::{Report, Tier};", "use serde_json::Value;", ""]
out += [f"pub mod {n};" for n in names]
out += ["", "pub type RunFn = fn(Tier, u64) -> Report;", "pub type ReplayFn = fn(&str, &Value) -> Result<String, String>;", "",
        "pub fn all() -> Vec<(&'static str, RunFn, ReplayFn)> {", "    vec!["]
out += [f'        ("{n}", {n}::run, {n}::replay),' for n in names]
out += ["    ]", "}", ""]
open(os.path.join(d, 'mod.rs'), 'w').write('\n'.join(out))
print(names)
