#!/usr/bin/env python3
"""Copy a confirmed seeded change into /verif/seeded/<PID>_<k>/ with meta.json.
usage: import_seed.py PID k "<detected-by text>" [status] [--from DIR k0]   (round 2: DIR=/tmp/seed/C03r2, k0 = its seed number)"""
import json, os, re, shutil, sys
pid, k, detected = sys.argv[1], sys.argv[2], sys.argv[3]
status = sys.argv[4] if len(sys.argv) > 4 else 'detected'
src = f"/tmp/seed/{pid}/SEED/{k}"
srcpid, srck = pid, k
if '--from' in sys.argv:
    i = sys.argv.index('--from')
    srcdir, srck = sys.argv[i + 1], sys.argv[i + 2]
    src = f"{srcdir}/SEED/{srck}"
    srcpid = os.path.basename(srcdir.rstrip('/'))
    if status == '--from': status = 'detected'
dst = f"/verif/seeded/{pid}_{k}"
os.makedirs(dst, exist_ok=True)
shutil.copy(f"{src}/patch.diff", f"{dst}/patch.diff")
if os.path.isdir(f"{dst}/demo"): shutil.rmtree(f"{dst}/demo")
shutil.copytree(f"{src}/demo", f"{dst}/demo")
notes = open(f"{src}/notes.md").read() if os.path.exists(f"{src}/notes.md") else ''
shutil.copy(f"{src}/notes.md", f"{dst}/notes.md") if notes else None
log = f"/var/tmp/neumann-verif/seedconfirm/{srcpid}_{srck}.log"
res = ''
if os.path.exists(log):
    for l in open(log):
        if l.startswith('RESULT'): res = l.strip()
m_ = re.search(r'(?is)(needs[^\n]*\n(?:.*\n){0,8})', notes)
needs = (m_.group(1).strip()[:900] if m_ else notes[:700])
files = sorted(set(re.findall(r'^\+\+\+ b/(\S+)', open(f"{dst}/patch.diff").read(), re.M)))
meta = dict(
    property=pid, seed=int(k), files_changed=files,
    needs_to_manifest=needs,
    confirmed=dict(how="tools/confirm_seed.sh in a scratch worktree (/tmp/seedcheck): demo on the clean tree, demo with the patch, existing tests of the touched crates with the patch",
                   result=res),
    checks_run=f"git -C /repo apply seeded/{pid}_{k}/patch.diff && ./check {pid} ; git -C /repo checkout -- .",
    detection=dict(status=status, by=detected),
)
json.dump(meta, open(f"{dst}/meta.json", 'w'), indent=1)
print(dst, res)
