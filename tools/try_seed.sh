#!/bin/bash
# usage: tools/try_seed.sh <PID> <patch.diff> [extra check args]   — apply a seeded change to /repo, run the check, undo
PID=$1; PATCH=$2; shift 2
cd /repo || exit 9
if [ -n "$(git status --porcelain)" ]; then echo "/repo not clean"; exit 9; fi
git apply "$PATCH" || { echo "patch does not apply"; exit 9; }
cd /verif
./check "$PID" --no-evidence "$@" 2>&1 | grep -E "VIOLATION|UNDECIDED|KNOWN|^C[0-9]+ \[|^  obligation" | cut -c1-260
RC=${PIPESTATUS[0]}
git -C /repo checkout -- . ; git -C /repo clean -fdq -- . >/dev/null 2>&1
echo "exit=$RC"
