HEAD = r'''//@unit C04.simd
//@property C04
// Vectorised integer filters, relational_engine/src/simd.rs filter_{lt,le,gt,ge,eq,ne}_i64 (the columnar strategy of
// select_columnar_impl).  Property: "touches exactly the rows of the table for which the filter condition is true, no
// matter which execution strategy the engine picks: ... columnar/vectorised filtering"; quantifier "negative and
// extreme integers".  Contract, one shape for all six: after the call bit k of the bitmap is set iff it was set before
// or (k < values.len() and values[k] OP threshold) — for EVERY threshold including i64::MIN / i64::MAX and every
// position (4-lane groups and the scalar tail alike); bits of rows >= values.len() are untouched.
// Abstractions: R7 wide::i64x4 is an external type with lane-wise contracts (splat, new, cmp_lt / cmp_gt / cmp_eq
// return all-ones (-1) / 0 per lane — the `wide` documentation, and checked for all inputs against the real crate by the Kani harness
// c04_wide_i64x4_lane_contract (kani/re_simd.rs); `.into()` -> `.to_array()`, the same conversion) ·
// R10s `result: &mut [u64]` rebound to `&mut Vec<u64>` (only indexed and measured) · R18c `v[i] |= x` -> `v.set(i, v[i] | x)` ·
// The rest of the strategy is under contract too: RelationalEngine::{apply_null_mask, apply_alive_mask} (relational_engine/src/lib.rs)
// and simd::selected_indices (`trailing_zeros` + `w &= w - 1` loop: the list is exactly the set bits, ascending; vstd's
// trailing_zeros axioms + one bit-vector lemma), and `theorem_columnar_rows` composes the four contracts: the returned row
// list is exactly the rows that satisfy the comparison, are not NULL in the filtered column and are alive.
// R2m `for (w, y) in X.iter_mut().zip(Y)` / `for (i, w) in X.iter_mut().enumerate()` -> index loop with `X.set(..)` writes.
// i64::saturating_add / saturating_sub carry their std meaning (assume_specification; unused by
// the current text, present so that an arithmetic rewrite of a comparison is decided rather than undecided).
//@allow external_body
//@allow uninterp
//@allow assume_specification
//@allow global size_of
//@allow verifier attribute
use vstd::prelude::*;
verus! {
global size_of usize == 8;
#[verifier::external_body]
#[derive(Clone, Copy)]
#[allow(non_camel_case_types)]
pub struct i64x4 { _p: [i64; 4] }
pub uninterp spec fn lanes(v: i64x4) -> Seq<i64>;
pub open spec fn mask_of(b: bool) -> i64 { if b { -1i64 } else { 0i64 } }
impl i64x4 {
    #[verifier::external_body]
    pub fn splat(x: i64) -> (r: Self) ensures lanes(r).len() == 4, forall|j: int| 0 <= j < 4 ==> lanes(r)[j] == x { unimplemented!() }
    #[verifier::external_body]
    pub fn new(a: [i64; 4]) -> (r: Self) ensures lanes(r) == a@ { unimplemented!() }
    #[verifier::external_body]
    pub fn cmp_lt(self, o: Self) -> (r: Self) ensures lanes(r).len() == 4, forall|j: int| 0 <= j < 4 ==> lanes(r)[j] == mask_of(lanes(self)[j] < lanes(o)[j]) { unimplemented!() }
    #[verifier::external_body]
    pub fn cmp_gt(self, o: Self) -> (r: Self) ensures lanes(r).len() == 4, forall|j: int| 0 <= j < 4 ==> lanes(r)[j] == mask_of(lanes(self)[j] > lanes(o)[j]) { unimplemented!() }
    #[verifier::external_body]
    pub fn cmp_eq(self, o: Self) -> (r: Self) ensures lanes(r).len() == 4, forall|j: int| 0 <= j < 4 ==> lanes(r)[j] == mask_of(lanes(self)[j] == lanes(o)[j]) { unimplemented!() }
    #[verifier::external_body]
    pub fn to_array(self) -> (r: [i64; 4]) ensures r@ == lanes(self) { unimplemented!() }
}
pub open spec fn clamp64(x: int) -> int { if x > i64::MAX { i64::MAX as int } else if x < i64::MIN { i64::MIN as int } else { x } }
pub assume_specification [<i64>::saturating_add] (a: i64, b: i64) -> (r: i64) ensures r == clamp64(a + b);
pub assume_specification [<i64>::saturating_sub] (a: i64, b: i64) -> (r: i64) ensures r == clamp64(a - b);

/// bit k of a bitmap of 64-bit words
pub open spec fn bit_of(r: Seq<u64>, k: int) -> bool { (r[k / 64] >> ((k % 64) as u64)) & 1 == 1 }
/// rows 0..n have been decided: bit k == it was set before, or row k (< n) is selected
pub open spec fn processed(o: Seq<u64>, c: Seq<u64>, sel: Seq<bool>, n: int) -> bool {
    c.len() == o.len() && forall|k: int| 0 <= k < c.len() * 64 ==> #[trigger] bit_of(c, k) == (bit_of(o, k) || (k < n && sel[k]))
}
proof fn lemma_or_bit(w: u64, s: u64, t: u64)
    requires s < 64, t < 64,
    ensures (((w | (1u64 << s)) >> t) & 1 == 1) <==> (t == s || (w >> t) & 1 == 1),
{
    assert((((w | (1u64 << s)) >> t) & 1 == 1) <==> (t == s || (w >> t) & 1 == 1)) by(bit_vector) requires s < 64, t < 64;
}
/// one row decided; stated as an implication so that a changed body fails the loop invariant, not this hint
proof fn lemma_step(o: Seq<u64>, c0: Seq<u64>, c1: Seq<u64>, sel: Seq<bool>, n: int, take: bool)
    ensures (processed(o, c0, sel, n) && 0 <= n < sel.len() && n < c0.len() * 64 && sel[n] == take
            && (take ==> c1 == c0.update(n / 64, c0[n / 64] | (1u64 << ((n % 64) as usize))))
            && (!take ==> c1 == c0)) ==> processed(o, c1, sel, n + 1),
{
    if processed(o, c0, sel, n) && 0 <= n < sel.len() && n < c0.len() * 64 && sel[n] == take
        && (take ==> c1 == c0.update(n / 64, c0[n / 64] | (1u64 << ((n % 64) as usize)))) && (!take ==> c1 == c0) {
        assert forall|k: int| 0 <= k < c1.len() * 64 implies #[trigger] bit_of(c1, k) == (bit_of(o, k) || (k < n + 1 && sel[k])) by {
            assert(bit_of(c0, k) == (bit_of(o, k) || (k < n && sel[k])));
            if take {
                if k / 64 == n / 64 {
                    lemma_or_bit(c0[n / 64], (n % 64) as u64, (k % 64) as u64);
                    assert((1u64 << ((n % 64) as usize)) == (1u64 << ((n % 64) as u64)));
                    assert((k % 64 == n % 64) == (k == n));
                } else {
                    assert(c1[k / 64] == c0[k / 64]);
                }
            }
        }
    }
}
'''
FN = r'''
//@fn file=relational_engine/src/simd.rs name=filter_{op}_i64 rules=R2,R3,R13,R18c loop_isolation=false
//@sigsubst rule=R10s from="result: &mut [u64]" to="result: &mut Vec<u64>"
//@subst rule=R7 from=".into()" to=".to_array()" count=*
//@requires [simd.{op}.bitmap_covers_rows]
values@.len() <= old(result)@.len() * 64
//@ensures [C04.simd.{op}.exactly_the_matching_rows]
processed(old(result)@, final(result)@, Seq::new(values@.len(), |k: int| values@[k] {sym} {thr}), values@.len() as int)
//@top
    let ghost sel = Seq::new(values@.len(), |k: int| values@[k] {sym} {thr});
    let ghost r_in = result@;
//@loop 1 index=ci
        invariant ci <= values@.len() / 4, processed(r_in, result@, sel, 4 * ci),
        decreases values@.len() / 4 - ci
//@loop 2 index=cj
            invariant cj <= 4, processed(r_in, result@, sel, offset + cj),
            decreases 4 - cj
//@loop 2 body_top
                let ghost r0 = result@;
//@loop 2 body_bottom
                proof {{ lemma_step(r_in, r0, result@, sel, (offset + j) as int, sel[(offset + j) as int]); }}
//@loop 3 index=ct
        invariant 4 * (values@.len() / 4) <= ct <= values@.len(), processed(r_in, result@, sel, ct as int),
        decreases values@.len() - ct
//@loop 3 body_top
            let ghost r0 = result@;
//@loop 3 body_bottom
            proof {{ lemma_step(r_in, r0, result@, sel, i as int, sel[i as int]); }}
//@endfn
'''
EXTRA_HEAD = r'''
// ---- the rest of the columnar strategy: null / alive masks and the bitmap -> row index list
pub open spec fn wbit(w: u64, t: int) -> bool { (w >> (t as u64)) & 1 == 1 }
proof fn lemma_clear_lowest(w: u64, b: u64, t: u64)
    requires w != 0, b < 64, t < 64, (w >> b) & 1 == 1, b > 0 ==> (w << ((64 - b) as u64)) == 0,
    ensures ((w & ((w - 1) as u64)) >> t) & 1 == (if t == b { 0u64 } else { (w >> t) & 1 }),
{
    assert(((w & ((w - 1) as u64)) >> t) & 1 == (if t == b { 0u64 } else { (w >> t) & 1 })) by(bit_vector)
        requires w != 0, b < 64, t < 64, (w >> b) & 1 == 1, b > 0 ==> (w << ((64 - b) as u64)) == 0;
}
/// `ix` lists exactly the positions below `below` of the set bits of `bm`, in ascending order
pub open spec fn lists_set_bits(ix: Seq<usize>, bm: Seq<u64>, below: int) -> bool {
    &&& forall|a: int, b: int| 0 <= a < b < ix.len() ==> ix[a] < ix[b]
    &&& forall|a: int| 0 <= a < ix.len() ==> (#[trigger] ix[a]) < below && bit_of(bm, ix[a] as int)
    &&& forall|k: int| 0 <= k < below && k < bm.len() * 64 && bit_of(bm, k) ==> #[trigger] ix.contains(k as usize)
}
/// NULL rows are added to (`nulls_match`: the `!=` filter) or removed from the selection; rows beyond the mask are untouched
pub open spec fn null_masked(o: Seq<u64>, f: Seq<u64>, nulls: Seq<u64>, nulls_match: bool) -> bool {
    f.len() == o.len() && (forall|k: int| 0 <= k < o.len() * 64 ==> #[trigger] bit_of(f, k) ==
        (if k < nulls.len() * 64 { if nulls_match { bit_of(o, k) || bit_of(nulls, k) } else { bit_of(o, k) && !bit_of(nulls, k) } } else { bit_of(o, k) }))
}
/// only rows that are alive stay selected; rows beyond the alive bitmap are dropped
pub open spec fn alive_masked(o: Seq<u64>, f: Seq<u64>, alive: Seq<u64>) -> bool {
    f.len() == o.len() && (forall|k: int| 0 <= k < o.len() * 64 ==> #[trigger] bit_of(f, k) == (k < alive.len() * 64 && bit_of(o, k) && bit_of(alive, k)))
}
/// The columnar strategy for an integer comparison (select_columnar_impl: zeroed bitmap -> filter_*_i64 -> apply_null_mask(false)
/// -> apply_alive_mask -> selected_indices), composed from the four contracts: the row list is exactly, in ascending order,
/// the rows that satisfy the comparison, are not NULL in the filtered column and are alive.
pub proof fn theorem_columnar_rows(zero: Seq<u64>, r1: Seq<u64>, r2: Seq<u64>, r3: Seq<u64>, nulls: Seq<u64>, alive: Seq<u64>, sel: Seq<bool>, ix: Seq<usize>)
    requires
        sel.len() <= zero.len() * 64, zero.len() * 64 <= usize::MAX, forall|k: int| 0 <= k < zero.len() * 64 ==> !#[trigger] bit_of(zero, k),
        processed(zero, r1, sel, sel.len() as int),
        nulls.len() == r1.len(), alive.len() == r1.len(),
        null_masked(r1, r2, nulls, false), alive_masked(r2, r3, alive),
        lists_set_bits(ix, r3, (r3.len() * 64) as int),
    ensures
        forall|a: int, b: int| 0 <= a < b < ix.len() ==> ix[a] < ix[b],
        forall|k: int| 0 <= k < r3.len() * 64 ==> (#[trigger] ix.contains(k as usize) <==> (k < sel.len() && sel[k] && !bit_of(nulls, k) && bit_of(alive, k))),
{
    assert forall|k: int| 0 <= k < r3.len() * 64 implies (#[trigger] ix.contains(k as usize) <==> (k < sel.len() && sel[k] && !bit_of(nulls, k) && bit_of(alive, k))) by {
        assert(bit_of(r1, k) == (bit_of(zero, k) || (k < sel.len() && sel[k])));
        assert(bit_of(r2, k) == (bit_of(r1, k) && !bit_of(nulls, k)));
        assert(bit_of(r3, k) == (bit_of(r2, k) && bit_of(alive, k)));
        if ix.contains(k as usize) {
            let a = choose|a: int| 0 <= a < ix.len() && ix[a] == k as usize;
            assert(bit_of(r3, ix[a] as int));
        }
    }
}
/// word-level meaning of the two masks, bit by bit
proof fn lemma_mask_bits(w: u64, n: u64, t: u64)
    requires t < 64,
    ensures (((w | n) >> t) & 1 == 1) <==> (((w >> t) & 1 == 1) || ((n >> t) & 1 == 1)),
        (((w & !n) >> t) & 1 == 1) <==> (((w >> t) & 1 == 1) && !((n >> t) & 1 == 1)),
        (((w & n) >> t) & 1 == 1) <==> (((w >> t) & 1 == 1) && ((n >> t) & 1 == 1)),
        ((0u64 >> t) & 1 == 1) == false,
{
    assert((((w | n) >> t) & 1 == 1) <==> (((w >> t) & 1 == 1) || ((n >> t) & 1 == 1))) by(bit_vector) requires t < 64;
    assert((((w & !n) >> t) & 1 == 1) <==> (((w >> t) & 1 == 1) && !((n >> t) & 1 == 1))) by(bit_vector) requires t < 64;
    assert((((w & n) >> t) & 1 == 1) <==> (((w >> t) & 1 == 1) && ((n >> t) & 1 == 1))) by(bit_vector) requires t < 64;
    assert(((0u64 >> t) & 1 == 1) == false) by(bit_vector) requires t < 64;
}
'''
EXTRA_FNS = r'''
//@fn file=relational_engine/src/lib.rs name=apply_null_mask impl=RelationalEngine rules=R2,R13
//@sigsubst rule=R10s from="bitmap: &mut [u64]" to="bitmap: &mut Vec<u64>"
//@ensures [C04.columnar.null_mask_exact]
null_masked(old(bitmap)@, final(bitmap)@, null_words@, nulls_match)
//@top
        let ghost b_in = bitmap@;
//@loop 1 index=wi
            invariant wi <= bitmap@.len(), wi <= null_words@.len(), bitmap@.len() == b_in.len(),
                forall|j: int| wi <= j < bitmap@.len() ==> bitmap@[j] == b_in[j],
                forall|j: int| 0 <= j < wi ==> #[trigger] bitmap@[j] == (if nulls_match { b_in[j] | null_words@[j] } else { b_in[j] & !null_words@[j] }),
            decreases bitmap@.len() - wi
//@end
        proof {
            assert forall|k: int| 0 <= k < b_in.len() * 64 implies #[trigger] bit_of(bitmap@, k) ==
                (if k < null_words@.len() * 64 { if nulls_match { bit_of(b_in, k) || bit_of(null_words@, k) } else { bit_of(b_in, k) && !bit_of(null_words@, k) } } else { bit_of(b_in, k) }) by {
                if k / 64 < null_words@.len() { lemma_mask_bits(b_in[k / 64], null_words@[k / 64], (k % 64) as u64); }
            }
        }
//@endfn

//@fn file=relational_engine/src/lib.rs name=apply_alive_mask impl=RelationalEngine rules=R2,R13
//@sigsubst rule=R10s from="bitmap: &mut [u64]" to="bitmap: &mut Vec<u64>"
//@ensures [C04.columnar.alive_mask_exact]
alive_masked(old(bitmap)@, final(bitmap)@, alive_words@)
//@top
        let ghost b_in = bitmap@;
//@loop 1 index=wi
            invariant wi <= bitmap@.len(), bitmap@.len() == b_in.len(),
                forall|j: int| wi <= j < bitmap@.len() ==> bitmap@[j] == b_in[j],
                forall|j: int| 0 <= j < wi ==> #[trigger] bitmap@[j] == (if j < alive_words@.len() { b_in[j] & alive_words@[j] } else { 0u64 }),
            decreases bitmap@.len() - wi
//@end
        proof {
            assert forall|k: int| 0 <= k < b_in.len() * 64 implies #[trigger] bit_of(bitmap@, k) ==
                (k < alive_words@.len() * 64 && bit_of(b_in, k) && bit_of(alive_words@, k)) by {
                if k / 64 < alive_words@.len() { lemma_mask_bits(b_in[k / 64], alive_words@[k / 64], (k % 64) as u64); }
                else { lemma_mask_bits(0, 0, (k % 64) as u64); }
            }
        }
//@endfn

//@fn file=relational_engine/src/simd.rs name=selected_indices ret=res rules=R2,R13
//@subst rule=R7 from="let mut indices = Vec::with_capacity(max_count.min(1024));" to="let mut indices: Vec<usize> = Vec::new();"
//@requires [selected_indices.scope.positions_fit_usize]
bitmap@.len() * 64 <= usize::MAX
//@ensures [C04.columnar.selected_indices_are_exactly_the_set_bits]
lists_set_bits(res@, bitmap@, (bitmap@.len() * 64) as int)
//@top
    broadcast use vstd::std_specs::bits::axiom_u64_trailing_zeros;
//@loop 1 index=wi
        invariant wi <= bitmap@.len(), bitmap@.len() * 64 <= usize::MAX,
            lists_set_bits(indices@, bitmap@, (wi * 64) as int),
        decreases bitmap@.len() - wi
//@loop 2 before
        let ghost mut done: int = 0;
//@loop 2
            invariant word == bitmap@[word_idx as int], base == word_idx * 64, word_idx < bitmap@.len(), bitmap@.len() * 64 <= usize::MAX,
                wi == word_idx + 1, 0 <= done <= 64,
                forall|t: int| 0 <= t < 64 ==> #[trigger] wbit(w, t) == (wbit(word, t) && t >= done),
                lists_set_bits(indices@, bitmap@, base as int + done),
            decreases 64 - done, w
//@loop 2 body_top
            let ghost w0 = w; let ghost done0 = done; let ghost ix0 = indices@;
//@loop 2 body_bottom
            proof {
                if bit < 64 && w == (w0 & ((w0 - 1) as u64)) && indices@ == ix0.push((base + bit) as usize) && wbit(w0, bit as int) && (forall|t: int| 0 <= t < bit ==> !wbit(w0, t)) {
                    assert(bit as int >= done0);
                    done = bit + 1;
                    assert forall|t: int| 0 <= t < 64 implies #[trigger] wbit(w, t) == (wbit(word, t) && t >= done) by {
                        lemma_clear_lowest(w0, bit as u64, t as u64);
                        assert(wbit(w0, t) == (wbit(word, t) && t >= done0));
                        if t < bit as int { assert(!wbit(w0, t)); }
                    }
                    let nb = base as int + done;
                    assert(((base + bit) as int) / 64 == word_idx as int && ((base + bit) as int) % 64 == bit as int);
                    assert forall|a: int, b: int| 0 <= a < b < indices@.len() implies indices@[a] < indices@[b] by {
                        if b == ix0.len() { assert(ix0[a] < base as int + done0); }
                    }
                    assert forall|a: int| 0 <= a < indices@.len() implies (#[trigger] indices@[a]) < nb && bit_of(bitmap@, indices@[a] as int) by {
                        if a < ix0.len() { assert(ix0[a] < base as int + done0 && bit_of(bitmap@, ix0[a] as int)); }
                    }
                    assert forall|k: int| 0 <= k < nb && k < bitmap@.len() * 64 && bit_of(bitmap@, k) implies #[trigger] indices@.contains(k as usize) by {
                        if k < base as int + done0 {
                            assert(ix0.contains(k as usize));
                            let a = choose|a: int| 0 <= a < ix0.len() && ix0[a] == k as usize;
                            assert(indices@[a] == k as usize);
                        } else if k == (base + bit) as int {
                            assert(indices@[indices@.len() - 1] == k as usize);
                        } else {
                            assert(k / 64 == word_idx as int);
                            assert(!wbit(w0, k % 64));
                            assert(wbit(w0, k % 64) == (wbit(word, k % 64) && k % 64 >= done0));
                        }
                    }
                }
            }
//@loop 2 after
        proof {
            assert forall|t: int| 0 <= t < 64 implies !wbit(0u64, t) by { lemma_mask_bits(0, 0, t as u64); }
            let nb = (word_idx as int + 1) * 64;
            assert forall|k: int| 0 <= k < nb && k < bitmap@.len() * 64 && bit_of(bitmap@, k) implies #[trigger] indices@.contains(k as usize) by {
                if k >= base as int + done {
                    assert(k / 64 == word_idx as int);
                    assert(wbit(w, k % 64) == (wbit(word, k % 64) && k % 64 >= done));
                }
            }
            assert forall|a: int| 0 <= a < indices@.len() implies (#[trigger] indices@[a]) < nb && bit_of(bitmap@, indices@[a] as int) by {
                assert(indices@[a] < base as int + done);
            }
        }
//@endfn
'''
fns = [
 ('lt', '<', 'threshold', 'threshold_vec', 1, 'mask_arr@[jj] != 0', 'm != 0'),
 ('le', '<=', 'threshold', 'threshold_vec', 2, 'lt@[jj] != 0 || eq@[jj] != 0', 'lt@[j as int] != 0 || eq@[j as int] != 0'),
 ('gt', '>', 'threshold', 'threshold_vec', 1, 'mask_arr@[jj] != 0', 'm != 0'),
 ('ge', '>=', 'threshold', 'threshold_vec', 2, 'gt@[jj] != 0 || eq@[jj] != 0', 'gt@[j as int] != 0 || eq@[j as int] != 0'),
 ('eq', '==', 'target', 'target_vec', 1, 'mask_arr@[jj] != 0', 'm != 0'),
 ('ne', '!=', 'target', 'target_vec', 1, 'eq@[jj] == 0', 'eq_val == 0'),
]
import sys
out = HEAD + EXTRA_HEAD
for f in fns:
    if f[4] is None: continue
    op, sym, thr, tv, ninto, lanecond, takej = f
    out += FN.format(op=op, sym=sym, thr=thr, tv=tv, ninto=ninto, lanecond=lanecond, takej=takej)
out += "pub struct RelationalEngine { pub _p: u8 }\nimpl RelationalEngine {\n" + EXTRA_FNS.split("//@fn file=relational_engine/src/simd.rs name=selected_indices")[0] + "}\n" + "//@fn file=relational_engine/src/simd.rs name=selected_indices" + EXTRA_FNS.split("//@fn file=relational_engine/src/simd.rs name=selected_indices")[1] + "}\nfn main(){}\n"
open('/verif/units/C04_simd.vu','w').write(out)
