HEAD = r'''//@unit C04.simd
//@property C04
// Vectorised integer filters, relational_engine/src/simd.rs filter_{lt,le,gt,ge,eq,ne}_i64 (the columnar strategy of
// select_columnar_impl).  Property: "touches exactly the rows of the table for which the filter condition is true, no
// matter which execution strategy the engine picks: ... columnar/vectorised filtering"; quantifier "negative and
// extreme integers".  Contract, one shape for all six: after the call bit k of the bitmap is set iff it was set before
// or (k < values.len() and values[k] OP threshold) — for EVERY threshold including i64::MIN / i64::MAX and every
// position (4-lane groups and the scalar tail alike); bits of rows >= values.len() are untouched.
// Abstractions: R7 wide::i64x4 is an external type with lane-wise contracts (splat, new, cmp_lt / cmp_gt / cmp_eq
// return all-ones (-1) / 0 per lane — the `wide` documentation; `.into()` -> `.to_array()`, the same conversion) ·
// R10s `result: &mut [u64]` rebound to `&mut Vec<u64>` (only indexed and measured) · R18c `v[i] |= x` -> `v.set(i, v[i] | x)` ·
// i64::saturating_add / saturating_sub carry their std meaning (assume_specification; unused by
// the current text, present so that an arithmetic rewrite of a comparison is decided rather than undecided).
//@allow external_body
//@allow uninterp
//@allow assume_specification
//@allow global size_of
//@allow verifier attribute
use vstd::prelude::*;
verus! {
global size_of usize == 8;
#[verifier::external_body]
#[derive(Clone, Copy)]
#[allow(non_camel_case_types)]
pub struct i64x4 { _p: [i64; 4] }
pub uninterp spec fn lanes(v: i64x4) -> Seq<i64>;
pub open spec fn mask_of(b: bool) -> i64 { if b { -1i64 } else { 0i64 } }
impl i64x4 {
    #[verifier::external_body]
    pub fn splat(x: i64) -> (r: Self) ensures lanes(r).len() == 4, forall|j: int| 0 <= j < 4 ==> lanes(r)[j] == x { unimplemented!() }
    #[verifier::external_body]
    pub fn new(a: [i64; 4]) -> (r: Self) ensures lanes(r) == a@ { unimplemented!() }
    #[verifier::external_body]
    pub fn cmp_lt(self, o: Self) -> (r: Self) ensures lanes(r).len() == 4, forall|j: int| 0 <= j < 4 ==> lanes(r)[j] == mask_of(lanes(self)[j] < lanes(o)[j]) { unimplemented!() }
    #[verifier::external_body]
    pub fn cmp_gt(self, o: Self) -> (r: Self) ensures lanes(r).len() == 4, forall|j: int| 0 <= j < 4 ==> lanes(r)[j] == mask_of(lanes(self)[j] > lanes(o)[j]) { unimplemented!() }
    #[verifier::external_body]
    pub fn cmp_eq(self, o: Self) -> (r: Self) ensures lanes(r).len() == 4, forall|j: int| 0 <= j < 4 ==> lanes(r)[j] == mask_of(lanes(self)[j] == lanes(o)[j]) { unimplemented!() }
    #[verifier::external_body]
    pub fn to_array(self) -> (r: [i64; 4]) ensures r@ == lanes(self) { unimplemented!() }
}
pub open spec fn clamp64(x: int) -> int { if x > i64::MAX { i64::MAX as int } else if x < i64::MIN { i64::MIN as int } else { x } }
pub assume_specification [<i64>::saturating_add] (a: i64, b: i64) -> (r: i64) ensures r == clamp64(a + b);
pub assume_specification [<i64>::saturating_sub] (a: i64, b: i64) -> (r: i64) ensures r == clamp64(a - b);

/// bit k of a bitmap of 64-bit words
pub open spec fn bit(r: Seq<u64>, k: int) -> bool { (r[k / 64] >> ((k % 64) as u64)) & 1 == 1 }
/// rows 0..n have been decided: bit k == it was set before, or row k (< n) is selected
pub open spec fn processed(o: Seq<u64>, c: Seq<u64>, sel: Seq<bool>, n: int) -> bool {
    c.len() == o.len() && forall|k: int| 0 <= k < c.len() * 64 ==> #[trigger] bit(c, k) == (bit(o, k) || (k < n && sel[k]))
}
proof fn lemma_or_bit(w: u64, s: u64, t: u64)
    requires s < 64, t < 64,
    ensures (((w | (1u64 << s)) >> t) & 1 == 1) <==> (t == s || (w >> t) & 1 == 1),
{
    assert((((w | (1u64 << s)) >> t) & 1 == 1) <==> (t == s || (w >> t) & 1 == 1)) by(bit_vector) requires s < 64, t < 64;
}
/// one row decided; stated as an implication so that a changed body fails the loop invariant, not this hint
proof fn lemma_step(o: Seq<u64>, c0: Seq<u64>, c1: Seq<u64>, sel: Seq<bool>, n: int, take: bool)
    ensures (processed(o, c0, sel, n) && 0 <= n < sel.len() && n < c0.len() * 64 && sel[n] == take
            && (take ==> c1 == c0.update(n / 64, c0[n / 64] | (1u64 << ((n % 64) as usize))))
            && (!take ==> c1 == c0)) ==> processed(o, c1, sel, n + 1),
{
    if processed(o, c0, sel, n) && 0 <= n < sel.len() && n < c0.len() * 64 && sel[n] == take
        && (take ==> c1 == c0.update(n / 64, c0[n / 64] | (1u64 << ((n % 64) as usize)))) && (!take ==> c1 == c0) {
        assert forall|k: int| 0 <= k < c1.len() * 64 implies #[trigger] bit(c1, k) == (bit(o, k) || (k < n + 1 && sel[k])) by {
            assert(bit(c0, k) == (bit(o, k) || (k < n && sel[k])));
            if take {
                if k / 64 == n / 64 {
                    lemma_or_bit(c0[n / 64], (n % 64) as u64, (k % 64) as u64);
                    assert((1u64 << ((n % 64) as usize)) == (1u64 << ((n % 64) as u64)));
                    assert((k % 64 == n % 64) == (k == n));
                } else {
                    assert(c1[k / 64] == c0[k / 64]);
                }
            }
        }
    }
}
'''
FN = r'''
//@fn file=relational_engine/src/simd.rs name=filter_{op}_i64 rules=R2,R3,R13,R18c loop_isolation=false
//@sigsubst rule=R10s from="result: &mut [u64]" to="result: &mut Vec<u64>"
//@subst rule=R7 from=".into()" to=".to_array()" count=*
//@requires [simd.{op}.bitmap_covers_rows]
values@.len() <= old(result)@.len() * 64
//@ensures [C04.simd.{op}.exactly_the_matching_rows]
processed(old(result)@, final(result)@, Seq::new(values@.len(), |k: int| values@[k] {sym} {thr}), values@.len() as int)
//@top
    let ghost sel = Seq::new(values@.len(), |k: int| values@[k] {sym} {thr});
    let ghost r_in = result@;
//@loop 1 index=ci
        invariant ci <= values@.len() / 4, processed(r_in, result@, sel, 4 * ci),
        decreases values@.len() / 4 - ci
//@loop 2 index=cj
            invariant cj <= 4, processed(r_in, result@, sel, offset + cj),
            decreases 4 - cj
//@loop 2 body_top
                let ghost r0 = result@;
//@loop 2 body_bottom
                proof {{ lemma_step(r_in, r0, result@, sel, (offset + j) as int, sel[(offset + j) as int]); }}
//@loop 3 index=ct
        invariant 4 * (values@.len() / 4) <= ct <= values@.len(), processed(r_in, result@, sel, ct as int),
        decreases values@.len() - ct
//@loop 3 body_top
            let ghost r0 = result@;
//@loop 3 body_bottom
            proof {{ lemma_step(r_in, r0, result@, sel, i as int, sel[i as int]); }}
//@endfn
'''
fns = [
 ('lt', '<', 'threshold', 'threshold_vec', 1, 'mask_arr@[jj] != 0', 'm != 0'),
 ('le', '<=', 'threshold', 'threshold_vec', 2, 'lt@[jj] != 0 || eq@[jj] != 0', 'lt@[j as int] != 0 || eq@[j as int] != 0'),
 ('gt', '>', 'threshold', 'threshold_vec', 1, 'mask_arr@[jj] != 0', 'm != 0'),
 ('ge', '>=', 'threshold', 'threshold_vec', 2, 'gt@[jj] != 0 || eq@[jj] != 0', 'gt@[j as int] != 0 || eq@[j as int] != 0'),
 ('eq', '==', 'target', 'target_vec', 1, 'mask_arr@[jj] != 0', 'm != 0'),
 ('ne', '!=', 'target', 'target_vec', 1, 'eq@[jj] == 0', 'eq_val == 0'),
]
import sys
out = HEAD
for f in fns:
    if f[4] is None: continue
    op, sym, thr, tv, ninto, lanecond, takej = f
    out += FN.format(op=op, sym=sym, thr=thr, tv=tv, ninto=ninto, lanecond=lanecond, takej=takej)
out += "}\nfn main(){}\n"
open('/verif/units/C04_simd.vu','w').write(out)
