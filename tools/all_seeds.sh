#!/bin/bash
# usage: tools/all_seeds.sh [log] [regex over seed dir names]   — apply every recorded seeded change in turn, run its property's quick check, revert; summary per seed
LOG=${1:-/var/tmp/neumann-verif/all_seeds.log}
: > $LOG
cd /verif
for d in seeded/*/; do
  n=$(basename $d); pid=${n%_*}
  if [ -n "$2" ] && ! echo "$n" | grep -Eq "$2"; then continue; fi
  pf=/verif/$d/patch.diff; [ -f /verif/$d/patch.rebased.diff ] && pf=/verif/$d/patch.rebased.diff
  out=$(tools/try_seed.sh $pid $pf 2>&1)
  rc=$(echo "$out" | grep -o "exit=[0-9]*" | tail -1)
  viol=$(echo "$out" | grep -c "^VIOLATION")
  und=$(echo "$out" | grep -c "^UNDECIDED")
  first=$(echo "$out" | grep "^VIOLATION" | head -3 | sed 's/.*replays\/[A-Z0-9]*\/[0-9]*_//; s/\.json.*//' | tr '\n' ' ')
  echo "$n $rc violations=$viol undecided=$und :: $first $(echo "$out" | grep -E 'not clean|does not apply')" | tee -a $LOG
done
echo ALLDONE >> $LOG
