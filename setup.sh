#!/bin/bash
# Build everything the checks need from files on disk only (offline). Safe to re-run.
set -u
cd "$(dirname "$0")"
export CARGO_NET_OFFLINE=true
mkdir -p "${NEUMANN_VERIF_CACHE:-/var/tmp/neumann-verif}"
python3 - <<'PY'
import sys, json
sys.path.insert(0, '.')
from vlib import engine_b, engine_k, registry
ok, err, t, b = engine_b.build('/repo')
print('bounded crate build:', ok, round(t, 1), 's')
if not ok:
    print(err[-2000:])
# warm the Kani dependency builds: one cheap harness per crate
seen = {}
for P in registry.PROPS.values():
    for crate, hs in P.get('k', []):
        seen.setdefault(crate, hs[0] if isinstance(hs[0], str) else hs[0][0])
for crate, h in seen.items():
    res, meta = engine_k.run_kani('/repo', crate, [h], timeout=1800)
    print('kani warm', crate, h, res[h]['status'], round(meta['wall_s'], 1), 's')
PY
# warm Verus (first start is slower)
./check C19 --only v --no-evidence >/dev/null 2>&1 || true
echo setup done
