//@inject relational_engine relational_engine/src/lib.rs
// C04.ordfloat.order — OrderedFloat::{cmp, eq}: total order on all f64 bit patterns, NaN least,
// agrees with IEEE partial_cmp on non-NaN.  Loop-free, all f64 triples.
use super::*;
use std::cmp::Ordering;

#[kani::proof]
fn c04_ordfloat_total_order() {
    let a = OrderedFloat(kani::any());
    let b = OrderedFloat(kani::any());
    let c = OrderedFloat(kani::any());
    // reflexive / antisymmetric
    assert!(a.cmp(&a) == Ordering::Equal);
    assert!(a.cmp(&b) == b.cmp(&a).reverse());
    // transitive (<=)
    if a.cmp(&b) != Ordering::Greater && b.cmp(&c) != Ordering::Greater {
        assert!(a.cmp(&c) != Ordering::Greater);
    }
    // Equal is an equivalence compatible with the order
    if a.cmp(&b) == Ordering::Equal {
        assert!(a.cmp(&c) == b.cmp(&c));
    }
    // agrees with IEEE on non-NaN
    if !a.0.is_nan() && !b.0.is_nan() {
        assert!(Some(a.cmp(&b)) == a.0.partial_cmp(&b.0));
    }
    // NaN is least
    if a.0.is_nan() && !b.0.is_nan() {
        assert!(a.cmp(&b) == Ordering::Less);
    }
    // partial_cmp is consistent with cmp
    assert!(a.partial_cmp(&b) == Some(a.cmp(&b)));
}

// eq (bit equality) implies cmp == Equal  (needed by BTreeMap: equal keys compare equal)
#[kani::proof]
fn c04_ordfloat_eq_implies_cmp_equal() {
    let a = OrderedFloat(kani::any());
    let b = OrderedFloat(kani::any());
    if a == b {
        assert!(a.cmp(&b) == Ordering::Equal);
    }
}
