//@inject relational_engine relational_engine/src/lib.rs
// C04.ordfloat.order — OrderedFloat::{cmp, eq}: total order on all f64 bit patterns, NaN least,
// agrees with IEEE partial_cmp on non-NaN.  Loop-free, all f64 triples.
use super::*;
use std::cmp::Ordering;

#[kani::proof]
fn c04_ordfloat_total_order() {
    let a = OrderedFloat(kani::any());
    let b = OrderedFloat(kani::any());
    let c = OrderedFloat(kani::any());
    // reflexive / antisymmetric
    assert!(a.cmp(&a) == Ordering::Equal);
    assert!(a.cmp(&b) == b.cmp(&a).reverse());
    // transitive (<=)
    if a.cmp(&b) != Ordering::Greater && b.cmp(&c) != Ordering::Greater {
        assert!(a.cmp(&c) != Ordering::Greater);
    }
    // Equal is an equivalence compatible with the order
    if a.cmp(&b) == Ordering::Equal {
        assert!(a.cmp(&c) == b.cmp(&c));
    }
    // agrees with IEEE on non-NaN
    if !a.0.is_nan() && !b.0.is_nan() {
        assert!(Some(a.cmp(&b)) == a.0.partial_cmp(&b.0));
    }
    // NaN is least
    if a.0.is_nan() && !b.0.is_nan() {
        assert!(a.cmp(&b) == Ordering::Less);
    }
    // partial_cmp is consistent with cmp
    assert!(a.partial_cmp(&b) == Some(a.cmp(&b)));
}

// eq (bit equality) implies cmp == Equal  (needed by BTreeMap: equal keys compare equal)
#[kani::proof]
fn c04_ordfloat_eq_implies_cmp_equal() {
    let a = OrderedFloat(kani::any());
    let b = OrderedFloat(kani::any());
    if a == b {
        assert!(a.cmp(&b) == Ordering::Equal);
    }
}

// ---- C04.sortkey.float — the Float arm of Value::sortable_key / OrderedKey::from_sortable_key.
// The functions build strings with format!, which CBMC cannot execute symbolically, so the arithmetic
// statements are pasted verbatim from the real functions at sync time (//@paste) into these wrappers.
fn float_sort_key(v: &f64) -> u64 {
//@paste file=relational_engine/src/lib.rs fn=sortable_key impl=Value :: let bits = v.to_bits(); || let sortable = if
    sortable
}
fn float_from_sort_key(sortable: u64) -> u64 {
//@paste file=relational_engine/src/lib.rs fn=from_sortable_key impl=OrderedKey :: let bits = if
    bits
}

#[kani::proof]
fn c04_float_sort_key_monotone() {
    let a: f64 = kani::any();
    let b: f64 = kani::any();
    kani::assume(!a.is_nan() && !b.is_nan());
    // strictly increasing on IEEE order, so lexicographic order of the fixed-width hex equals numeric order
    if a < b {
        assert!(float_sort_key(&a) < float_sort_key(&b));
    }
    // distinct bit patterns get distinct keys (the persisted key identifies the value)
    if a.to_bits() != b.to_bits() {
        assert!(float_sort_key(&a) != float_sort_key(&b));
    }
}

#[kani::proof]
fn c04_float_sort_key_roundtrip() {
    // every f64 bit pattern, including -0.0 and all NaNs
    let a: f64 = kani::any();
    assert!(float_from_sort_key(float_sort_key(&a)) == a.to_bits());
}
