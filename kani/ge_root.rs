//@inject graph_engine graph_engine/src/lib.rs
// C18.dijkstra.order — DijkstraEntry::cmp is a total order (NaN-safe), reversed on cost so that
// BinaryHeap pops the smallest cost first.  Loop-free, all f64/u64 triples.
use super::*;

fn any_entry() -> DijkstraEntry { DijkstraEntry { cost: kani::any(), node_id: kani::any() } }

#[kani::proof]
fn c18_dijkstra_entry_total_order() {
    let a = any_entry();
    let b = any_entry();
    let c = any_entry();
    assert!(a.cmp(&a) == CmpOrdering::Equal);
    assert!(a.cmp(&b) == b.cmp(&a).reverse());
    if a.cmp(&b) != CmpOrdering::Greater && b.cmp(&c) != CmpOrdering::Greater {
        assert!(a.cmp(&c) != CmpOrdering::Greater);
    }
    assert!(a.partial_cmp(&b) == Some(a.cmp(&b)));
}

#[kani::proof]
fn c18_dijkstra_entry_min_heap_direction() {
    let a = any_entry();
    let b = any_entry();
    // strictly smaller (IEEE) cost  =>  greater in heap order  =>  popped first
    if a.cost < b.cost {
        assert!(a.cmp(&b) == CmpOrdering::Greater);
    }
    // equal costs (same bits): tie broken by node id, never Equal for distinct ids
    if a.cost.to_bits() == b.cost.to_bits() && a.node_id != b.node_id {
        assert!(a.cmp(&b) != CmpOrdering::Equal);
    }
}
