//@inject tensor_vault tensor_vault/src/access.rs
// C14.perm.lattice — AccessController::{max_permission, min_permission} are the lattice join / meet
// of the order defined by `allows`.
use super::*;

fn any_perm() -> Permission {
    let k: u8 = kani::any();
    kani::assume(k < 3);
    match k { 0 => Permission::Read, 1 => Permission::Write, _ => Permission::Admin }
}

#[kani::proof]
fn c14_max_min_are_lattice_ops() {
    let a = any_perm();
    let b = any_perm();
    let x = any_perm();
    let mx = AccessController::max_permission(a, b);
    let mn = AccessController::min_permission(a, b);
    // join: an upper bound that is one of the arguments, below every other upper bound
    assert!(mx.allows(a) && mx.allows(b) && (mx == a || mx == b));
    if x.allows(a) && x.allows(b) { assert!(x.allows(mx)); }
    // meet
    assert!(a.allows(mn) && b.allows(mn) && (mn == a || mn == b));
    if a.allows(x) && b.allows(x) { assert!(mn.allows(x)); }
}
