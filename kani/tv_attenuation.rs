//@inject tensor_vault tensor_vault/src/attenuation.rs
// C14.attenuate.mono — AttenuationPolicy::attenuate never amplifies, is non-increasing in the hop
// count, and gives nothing beyond the horizon.  All policies (3 symbolic usize), all hop counts.
use super::*;

fn any_perm() -> Permission {
    let k: u8 = kani::any();
    kani::assume(k < 3);
    match k { 0 => Permission::Read, 1 => Permission::Write, _ => Permission::Admin }
}
fn lvl(p: Option<Permission>) -> u8 {
    match p { None => 0, Some(Permission::Read) => 1, Some(Permission::Write) => 2, Some(Permission::Admin) => 3 }
}

#[kani::proof]
fn c14_attenuate_never_amplifies_and_monotone() {
    let pol = AttenuationPolicy { admin_limit: kani::any(), write_limit: kani::any(), horizon: kani::any() };
    let p = any_perm();
    let h1: usize = kani::any();
    let h2: usize = kani::any();
    let r1 = pol.attenuate(p, h1);
    let r2 = pol.attenuate(p, h2);
    assert!(lvl(r1) <= lvl(Some(p)));
    if h1 > pol.horizon { assert!(r1.is_none()); } else { assert!(r1.is_some()); }
    if h1 <= h2 { assert!(lvl(r2) <= lvl(r1)); }
    // a weaker grant never attenuates to something stronger than a stronger grant does
    let q = any_perm();
    if p.allows(q) { assert!(lvl(pol.attenuate(q, h1)) <= lvl(r1)); }
}
