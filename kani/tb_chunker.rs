//@inject tensor_blob tensor_blob/src/chunker.rs
// C19.chunk.count — Chunker::chunk_count: ceil(len / chunk_size) for chunk_size >= 1.
use super::*;

#[kani::proof]
fn c19_chunk_count_is_ceil_div() {
    let cs: usize = kani::any();
    kani::assume(cs >= 1);
    let len: usize = kani::any();
    let c = Chunker::new(cs);
    let n = c.chunk_count(len);
    assert!((n == 0) == (len == 0));
    if len > 0 {
        // (n-1)*cs < len <= n*cs   (in u128 to avoid overflow in the statement itself)
        assert!(((n - 1) as u128) * (cs as u128) < len as u128);
        assert!(len as u128 <= (n as u128) * (cs as u128));
    }
}
