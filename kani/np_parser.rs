//@inject neumann_parser neumann_parser/src/parser.rs
// C15.bp.table.stmt — the STATEMENT parser keeps its own copy of the binding-power table (parser.rs); it realises the documented precedence levels
// (expr.rs header lines 7-18; docs/book/src/architecture/neumann-parser.md) with every binary
// operator left-associative and every prefix operator binding tighter than any infix one.
use super::*;

fn any_binop() -> BinaryOp {
    let k: u8 = kani::any();
    kani::assume(k < 19);
    match k {
        0 => BinaryOp::Add, 1 => BinaryOp::Sub, 2 => BinaryOp::Mul, 3 => BinaryOp::Div, 4 => BinaryOp::Mod,
        5 => BinaryOp::Eq, 6 => BinaryOp::Ne, 7 => BinaryOp::Lt, 8 => BinaryOp::Le, 9 => BinaryOp::Gt,
        10 => BinaryOp::Ge, 11 => BinaryOp::And, 12 => BinaryOp::Or, 13 => BinaryOp::Concat,
        14 => BinaryOp::BitAnd, 15 => BinaryOp::BitOr, 16 => BinaryOp::BitXor, 17 => BinaryOp::Shl, _ => BinaryOp::Shr,
    }
}

/// Documented level, transcribed from the doc table (1 = loosest).
fn documented_level(op: BinaryOp) -> u8 {
    match op {
        BinaryOp::Or => 1,
        BinaryOp::And => 2,
        BinaryOp::Eq | BinaryOp::Ne | BinaryOp::Lt | BinaryOp::Le | BinaryOp::Gt | BinaryOp::Ge => 3,
        BinaryOp::BitOr => 4,
        BinaryOp::BitXor => 5,
        BinaryOp::BitAnd => 6,
        BinaryOp::Shl | BinaryOp::Shr => 7,
        BinaryOp::Add | BinaryOp::Sub | BinaryOp::Concat => 8,
        BinaryOp::Mul | BinaryOp::Div | BinaryOp::Mod => 9,
    }
}

#[kani::proof]
fn c15_stmt_binding_power_matches_documented_levels() {
    let a = any_binop();
    let b = any_binop();
    let (la, ra) = infix_binding_power(a);
    let (lb, rb) = infix_binding_power(b);
    // left-associative: the right operand is parsed with a strictly higher minimum
    assert!(la < ra);
    // order isomorphic to the documented levels
    assert!((documented_level(a) < documented_level(b)) == (la < lb));
    assert!((documented_level(a) == documented_level(b)) == (la == lb && ra == rb));
    // different levels never interleave: a's (l, r) lies entirely below b's
    if documented_level(a) < documented_level(b) { assert!(ra < lb || ra <= lb); assert!(ra <= lb); }
    // prefix operators bind tighter than every infix operator
    assert!(PREFIX_BP > ra && PREFIX_BP > la);
}
