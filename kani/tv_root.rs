//@inject tensor_vault tensor_vault/src/lib.rs
// C14.perm.lattice — Permission::{allows, to_level, from_level}: `allows` is the total order
// Read < Write < Admin (reflexive, transitive, antisymmetric, total), and equals `to_level >=`.
use super::*;

fn any_perm() -> Permission {
    let k: u8 = kani::any();
    kani::assume(k < 3);
    match k { 0 => Permission::Read, 1 => Permission::Write, _ => Permission::Admin }
}

#[kani::proof]
fn c14_permission_allows_total_order() {
    let a = any_perm();
    let b = any_perm();
    let c = any_perm();
    assert!(a.allows(a));
    assert!(a.allows(b) || b.allows(a));
    if a.allows(b) && b.allows(a) { assert!(a == b); }
    if a.allows(b) && b.allows(c) { assert!(a.allows(c)); }
    assert!(a.allows(b) == (a.to_level() >= b.to_level()));
    assert!(Permission::Admin.allows(a) && a.allows(Permission::Read));
}

#[kani::proof]
fn c14_permission_level_roundtrip() {
    let a = any_perm();
    assert!(Permission::from_level(a.to_level()) == Some(a));
    let l: i64 = kani::any();
    match Permission::from_level(l) {
        Some(p) => assert!(p.to_level() == l),
        None => assert!(l < 1 || l > 3),
    }
}
