//@inject relational_engine relational_engine/src/simd.rs
// C04.simd.lanes — the lane-wise contract that unit C04.simd ASSUMES for wide::i64x4 (splat / new / cmp_lt / cmp_gt /
// cmp_eq / conversion to an array), checked here against the real `wide` crate for ALL pairs of 4-lane vectors.
// Loop-free over full-domain symbolic inputs (the four lanes are written out).
use super::*;

#[kani::proof]
fn c04_wide_i64x4_lane_contract() {
    let a: [i64; 4] = kani::any();
    let b: [i64; 4] = kani::any();
    let va = i64x4::new(a);
    let vb = i64x4::new(b);
    let back: [i64; 4] = va.into();
    assert!(back == a);
    let lt: [i64; 4] = va.cmp_lt(vb).into();
    let gt: [i64; 4] = va.cmp_gt(vb).into();
    let eq: [i64; 4] = va.cmp_eq(vb).into();
    assert!(lt[0] == if a[0] < b[0] { -1 } else { 0 });
    assert!(lt[1] == if a[1] < b[1] { -1 } else { 0 });
    assert!(lt[2] == if a[2] < b[2] { -1 } else { 0 });
    assert!(lt[3] == if a[3] < b[3] { -1 } else { 0 });
    assert!(gt[0] == if a[0] > b[0] { -1 } else { 0 });
    assert!(gt[1] == if a[1] > b[1] { -1 } else { 0 });
    assert!(gt[2] == if a[2] > b[2] { -1 } else { 0 });
    assert!(gt[3] == if a[3] > b[3] { -1 } else { 0 });
    assert!(eq[0] == if a[0] == b[0] { -1 } else { 0 });
    assert!(eq[1] == if a[1] == b[1] { -1 } else { 0 });
    assert!(eq[2] == if a[2] == b[2] { -1 } else { 0 });
    assert!(eq[3] == if a[3] == b[3] { -1 } else { 0 });
    let s: [i64; 4] = i64x4::splat(a[0]).into();
    assert!(s[0] == a[0] && s[1] == a[0] && s[2] == a[0] && s[3] == a[0]);
}
