//@inject tensor_store tensor_store/src/snapshot.rs
// C07.header.raw / C07.header.validate / C20.header — SnapshotHeader raw codec: mutual inverses on
// every field value and every 20-byte array; `validate` accepts exactly (V3 magic, CURRENT_VERSION).
use super::*;

#[kani::proof]
fn c07_header_roundtrip_fields() {
    let h = SnapshotHeader { magic: kani::any(), version: kani::any(), flags: kani::any(), entry_count: kani::any() };
    let raw = h.to_raw_bytes();
    let back = SnapshotHeader::from_raw_bytes(&raw);
    assert!(back.magic == h.magic);
    assert!(back.version == h.version);
    assert!(back.flags == h.flags);
    assert!(back.entry_count == h.entry_count);
}

#[kani::proof]
fn c07_header_roundtrip_bytes() {
    let raw: [u8; HEADER_SIZE] = kani::any();
    let h = SnapshotHeader::from_raw_bytes(&raw);
    let again = h.to_raw_bytes();
    assert!(again == raw);
}

#[kani::proof]
fn c07_header_validate_exact() {
    let h = SnapshotHeader { magic: kani::any(), version: kani::any(), flags: kani::any(), entry_count: kani::any() };
    let ok = h.validate().is_ok();
    assert!(ok == (h.magic == V3_MAGIC && h.version == CURRENT_VERSION));
    // compressed flag is exactly bit 0
    assert!(h.is_compressed() == (h.flags & 1 == 1));
}
