//@inject tensor_chain tensor_chain/src/lib.rs
//! Kani harnesses for tensor_chain — injected add-only into the MIRROR copy as
//! `src/__verif_kani.rs` behind `#[cfg(kani)]`.  Every harness is loop-free and ranges over the
//! full domain of its inputs (a complete proof, not a bounded one) unless its name ends in `_bounded`.
#![allow(clippy::all, unused_imports, dead_code)]

use crate::gossip::GossipNodeState;
use crate::membership::NodeHealth;

fn any_health() -> NodeHealth {
    let k: u8 = kani::any();
    kani::assume(k < 4);
    match k {
        0 => NodeHealth::Healthy,
        1 => NodeHealth::Degraded,
        2 => NodeHealth::Failed,
        _ => NodeHealth::Unknown,
    }
}

fn any_state() -> GossipNodeState {
    GossipNodeState {
        node_id: String::new(),
        health: any_health(),
        timestamp: kani::any(),
        updated_at: kani::any(),
        incarnation: kani::any(),
    }
}

// ---- C17.sup.*: `supersedes` is a strict partial order that is total on (incarnation, timestamp)
#[kani::proof]
fn c17_sup_irreflexive() {
    let a = any_state();
    assert!(!a.supersedes(&a));
}

#[kani::proof]
fn c17_sup_asymmetric() {
    let a = any_state();
    let b = any_state();
    assert!(!(a.supersedes(&b) && b.supersedes(&a)));
}

#[kani::proof]
fn c17_sup_transitive() {
    let a = any_state();
    let b = any_state();
    let c = any_state();
    if a.supersedes(&b) && b.supersedes(&c) {
        assert!(a.supersedes(&c));
    }
}

#[kani::proof]
fn c17_sup_total_on_keys() {
    let a = any_state();
    let b = any_state();
    if (a.incarnation, a.timestamp) != (b.incarnation, b.timestamp) {
        assert!(a.supersedes(&b) || b.supersedes(&a));
    }
    // and it is exactly the lexicographic order on (incarnation, timestamp)
    assert_eq!(a.supersedes(&b), (a.incarnation, a.timestamp) > (b.incarnation, b.timestamp));
}

// ---- C01.quorum.arith
#[kani::proof]
fn c01_quorum_majority() {
    let n: usize = kani::any();
    kani::assume(n >= 1);
    let q = crate::quorum_size(n);
    assert!(q <= n);
    assert!(q >= 1);
    // two quorums always intersect: 2q > n   (q <= n so 2q cannot overflow only if n <= MAX/2; use u128)
    assert!(2u128 * (q as u128) > n as u128);
    // and it is the smallest such number
    assert!(2u128 * ((q - 1) as u128) <= n as u128);
}

// ---- C20.frame.flags
use crate::tcp::compression::{frame_flags, method_from_flags, CompressionMethod};

#[kani::proof]
fn c20_frame_flags_roundtrip() {
    let m = if kani::any() { CompressionMethod::None } else { CompressionMethod::Lz4 };
    let f = frame_flags(m);
    match method_from_flags(f) {
        Ok(back) => assert!(back == m),
        Err(_) => panic!("flag byte produced by frame_flags must decode"),
    }
}

#[kani::proof]
fn c20_method_from_flags_total() {
    let b: u8 = kani::any();
    // total on all 256 bytes: never panics (the `unreachable!()` arm really is unreachable)
    let _ = method_from_flags(b);
}
