//@inject tensor_chain tensor_chain/src/tcp/framing.rs
// C20.frame.len — `length_prefix`: the 4-byte prefix decodes (big-endian) to the length, and lengths
// that do not fit in u32 are rejected.  Loop-free, full `usize` domain.
use super::*;

#[kani::proof]
fn c20_length_prefix_roundtrip() {
    let len: usize = kani::any();
    let max: usize = kani::any();
    match length_prefix(len, max) {
        Ok(b) => {
            assert!(len <= u32::MAX as usize);
            assert!(u32::from_be_bytes(b) as usize == len);
        },
        Err(_) => assert!(len > u32::MAX as usize),
    }
}
